//go:build verif

package main

// Accessor-side description of every serialized key and key template. The enum numbers below are
// copied by hand from /repo/proto/*.proto (NOT from the generated Go enums or from the serializers'
// switch statements), the field paths are the proto field names, and the values come from the
// key's public accessors. Leading-zero conventions asserted here (found by reading the
// protoserialization.go files and their tests):
//   - ECDSA, JWT-ECDSA, ECIES on NIST curves: x, y and the private scalar are written as fixed-width
//     big-endian values of coordinate size + 1 bytes, i.e. ALWAYS with one extra leading 0x00
//     (b/264525021 compatibility); parsers tolerate any number of leading zeros.
//   - ECIES on X25519: x is the raw 32-byte point, y absent, the private key the raw 32 bytes.
//   - HPKE: public and private key bytes exactly as the accessors return them (SEC1 uncompressed
//     point 0x04||X||Y for NIST KEMs, fixed-width scalar).
//   - RSA (RSA-SSA-PKCS1, RSA-SSA-PSS, JWT RS/PS): n, e, p, q minimal big-endian (no leading zero);
//     d left-padded to len(n); dp and crt left-padded to len(p); dq left-padded to len(q).
//     JWT RSA public keys keep the caller's modulus bytes verbatim.

import (
	"fmt"
	"math/big"
	"reflect"

	"github.com/tink-crypto/tink-go/v2/aead/aesctrhmac"
	"github.com/tink-crypto/tink-go/v2/aead/aesgcm"
	"github.com/tink-crypto/tink-go/v2/aead/aesgcmsiv"
	"github.com/tink-crypto/tink-go/v2/aead/chacha20poly1305"
	"github.com/tink-crypto/tink-go/v2/aead/xaesgcm"
	"github.com/tink-crypto/tink-go/v2/aead/xchacha20poly1305"
	"github.com/tink-crypto/tink-go/v2/daead/aessiv"
	"github.com/tink-crypto/tink-go/v2/hybrid/ecies"
	"github.com/tink-crypto/tink-go/v2/hybrid/hpke"
	"github.com/tink-crypto/tink-go/v2/insecuresecretdataaccess"
	"github.com/tink-crypto/tink-go/v2/internal/protoserialization"
	"github.com/tink-crypto/tink-go/v2/jwt/jwtecdsa"
	"github.com/tink-crypto/tink-go/v2/jwt/jwthmac"
	"github.com/tink-crypto/tink-go/v2/jwt/jwtmldsa"
	"github.com/tink-crypto/tink-go/v2/jwt/jwtrsassapkcs1"
	"github.com/tink-crypto/tink-go/v2/jwt/jwtrsassapss"
	"github.com/tink-crypto/tink-go/v2/key"
	"github.com/tink-crypto/tink-go/v2/keyderivation/prfbasedkeyderivation"
	"github.com/tink-crypto/tink-go/v2/mac/aescmac"
	"github.com/tink-crypto/tink-go/v2/mac/hmac"
	"github.com/tink-crypto/tink-go/v2/prf/aescmacprf"
	"github.com/tink-crypto/tink-go/v2/prf/hkdfprf"
	"github.com/tink-crypto/tink-go/v2/prf/hmacprf"
	"github.com/tink-crypto/tink-go/v2/secretdata"
	"github.com/tink-crypto/tink-go/v2/signature/compositemldsa"
	"github.com/tink-crypto/tink-go/v2/signature/ecdsa"
	"github.com/tink-crypto/tink-go/v2/signature/ed25519"
	"github.com/tink-crypto/tink-go/v2/signature/mldsa"
	"github.com/tink-crypto/tink-go/v2/signature/rsassapkcs1"
	"github.com/tink-crypto/tink-go/v2/signature/rsassapss"
	"github.com/tink-crypto/tink-go/v2/signature/slhdsa"
	streamctr "github.com/tink-crypto/tink-go/v2/streamingaead/aesctrhmac"
	streamgcm "github.com/tink-crypto/tink-go/v2/streamingaead/aesgcmhkdf"
)

// ---- enum numbers, from the .proto files ----

// common.proto HashType
var protoHash = map[string]uint64{"SHA1": 1, "SHA384": 2, "SHA256": 3, "SHA512": 4, "SHA224": 5}

// common.proto EllipticCurveType
var protoCurve = map[string]uint64{"NIST_P256": 2, "NIST_P384": 3, "NIST_P521": 4, "X25519": 5}

// tink.proto OutputPrefixType, keyed by the Variant.String() of the key packages
var protoPrefix = map[string]uint64{"TINK": 1, "LEGACY": 2, "NO_PREFIX": 3, "CRUNCHY": 4, "EXTERNAL_MU": 5}

const (
	pfxTink    = 1
	pfxLegacy  = 2
	pfxRaw     = 3
	pfxCrunchy = 4
	pfxWithID  = 5

	kmtSymmetric = 1
	kmtPrivate   = 2
	kmtPublic    = 3
	kmtRemote    = 4
)

const urlPrefix = "type.googleapis.com/google.crypto.tink."

func sd(b secretdata.Bytes) []byte { return b.Data(insecuresecretdataaccess.Token{}) }

func enumOf(table map[string]uint64, v any) uint64 {
	n, ok := table[fmt.Sprint(v)]
	if !ok {
		panic(fmt.Sprintf("c12: no proto enum number for %T %v", v, v))
	}
	return n
}

// leftPad pads b with zeros on the left to n bytes (b must not be longer).
func leftPad(b []byte, n int) []byte {
	if len(b) >= n {
		return b
	}
	out := make([]byte, n)
	copy(out[n-len(b):], b)
	return out
}

func minimalBE(v int) []byte { return new(big.Int).SetInt64(int64(v)).Bytes() }

// expectedPrefix returns the OutputPrefixType number a key with these parameters must be
// serialized with: from Variant() for the ordinary types, from the KID strategy for JWT keys, RAW
// for key types without variants, the derived key's for key derivation keys.
func expectedPrefix(p key.Parameters) uint64 {
	switch q := p.(type) {
	case *prfbasedkeyderivation.Parameters:
		return expectedPrefix(q.DerivedKeyParameters())
	case *compositemldsa.Parameters:
		switch q.Variant() {
		case compositemldsa.VariantTink:
			return pfxTink
		case compositemldsa.VariantNoPrefix:
			return pfxRaw
		}
		panic("composite variant")
	case *jwthmac.Parameters, *jwtecdsa.Parameters, *jwtrsassapkcs1.Parameters, *jwtrsassapss.Parameters, *jwtmldsa.Parameters:
		ks := reflect.ValueOf(p).MethodByName("KIDStrategy").Call(nil)[0].Interface()
		if fmt.Sprint(ks) == "Base64EncodedKeyIDAsKID" {
			return pfxTink
		}
		return pfxRaw
	}
	m := reflect.ValueOf(p).MethodByName("Variant")
	if !m.IsValid() {
		return pfxRaw
	}
	return enumOf(protoPrefix, m.Call(nil)[0].Interface())
}

// keyInfo is what the harness expects around the serialized value.
type keyInfo struct {
	url string // type URL
	kmt uint64 // KeyMaterialType number
	exp expect // the value's fields
}

func ecCoordSize(curve string) int {
	switch curve {
	case "NIST_P256":
		return 32
	case "NIST_P384":
		return 48
	case "NIST_P521":
		return 66
	}
	panic("curve " + curve)
}

// sec1XY splits an uncompressed SEC1 point into its coordinates padded the way tink serializes
// them (coordinate size + 1, leading 0x00).
func sec1XY(point []byte, n int) (x, y []byte, err error) {
	if len(point) != 2*n+1 || point[0] != 4 {
		return nil, nil, fmt.Errorf("not an uncompressed point of size %d", n)
	}
	return leftPad(point[1:1+n], n+1), leftPad(point[1+n:], n+1), nil
}

func keyDataExpect(e expect, path string, k key.Key) error {
	s, err := protoserialization.SerializeKey(k)
	if err != nil {
		return err
	}
	if s.OutputPrefixType() != 3 {
		return fmt.Errorf("component key %T serialized with prefix %v, want RAW", k, s.OutputPrefixType())
	}
	e.B(path+".type_url", []byte(s.KeyData().GetTypeUrl()))
	e.B(path+".value", s.KeyData().GetValue())
	e.U(path+".key_material_type", uint64(s.KeyData().GetKeyMaterialType()))
	return nil
}

func templateExpect(e expect, path string, p key.Parameters, forcePrefix uint64) error {
	t, err := protoserialization.SerializeParameters(p)
	if err != nil {
		return err
	}
	e.B(path+".type_url", []byte(t.GetTypeUrl()))
	e.B(path+".value", t.GetValue())
	pf := uint64(t.GetOutputPrefixType())
	if forcePrefix != 0 {
		pf = forcePrefix
	}
	e.U(path+".output_prefix_type", pf)
	return nil
}

// ---- parameter sub-messages shared by key and key format ----

func ecdsaParams(e expect, path string, p *ecdsa.Parameters) {
	e.U(path+".hash_type", enumOf(protoHash, p.HashType()))
	e.U(path+".curve", enumOf(protoCurve, p.CurveType()))
	// ecdsa.proto EcdsaSignatureEncoding: IEEE_P1363 = 1, DER = 2
	e.U(path+".encoding", enumOf(map[string]uint64{"IEEE_P1363": 1, "DER": 2}, p.SignatureEncoding()))
}

func pssParams(e expect, path string, p *rsassapss.Parameters) {
	e.U(path+".sig_hash", enumOf(protoHash, p.SigHashType()))
	e.U(path+".mgf1_hash", enumOf(protoHash, p.MGF1HashType()))
	e.U(path+".salt_length", uint64(p.SaltLengthBytes()))
}

func mldsaParams(e expect, path string, p *mldsa.Parameters) {
	// ml_dsa.proto MlDsaInstance: ML_DSA_65 = 1, ML_DSA_87 = 2, ML_DSA_44 = 3
	e.U(path+".ml_dsa_instance", enumOf(map[string]uint64{"MLDSA65": 1, "MLDSA87": 2, "MLDSA44": 3}, p.Instance()))
}

func slhdsaParams(e expect, path string, p *slhdsa.Parameters) {
	e.U(path+".key_size", uint64(p.KeySize()))
	// slh_dsa.proto SlhDsaHashType: SHA2 = 1, SHAKE = 2; SlhDsaSignatureType: FAST_SIGNING = 1, SMALL_SIGNATURE = 2
	switch p.HashType() {
	case slhdsa.SHA2:
		e.U(path+".hash_type", 1)
	case slhdsa.SHAKE:
		e.U(path+".hash_type", 2)
	default:
		panic("slhdsa hash")
	}
	switch p.SignatureType() {
	case slhdsa.FastSigning:
		e.U(path+".sig_type", 1)
	case slhdsa.SmallSignature:
		e.U(path+".sig_type", 2)
	default:
		panic("slhdsa sig type")
	}
}

func compositeParams(e expect, path string, p *compositemldsa.Parameters) {
	switch p.MLDSAInstance() {
	case compositemldsa.MLDSA65:
		e.U(path+".ml_dsa_instance", 1)
	case compositemldsa.MLDSA87:
		e.U(path+".ml_dsa_instance", 2)
	default:
		panic("composite instance")
	}
	// composite_ml_dsa.proto CompositeMlDsaClassicalAlgorithm
	ca := map[compositemldsa.ClassicalAlgorithm]uint64{compositemldsa.Ed25519: 1, compositemldsa.ECDSAP256: 2, compositemldsa.ECDSAP384: 3,
		compositemldsa.ECDSAP521: 4, compositemldsa.RSA3072PSS: 5, compositemldsa.RSA4096PSS: 6, compositemldsa.RSA3072PKCS1: 7, compositemldsa.RSA4096PKCS1: 8}
	n, ok := ca[p.ClassicalAlgorithm()]
	if !ok {
		panic("composite classical algorithm")
	}
	e.U(path+".classical_algorithm", n)
}

func hpkeParams(e expect, path string, p *hpke.Parameters) {
	// hpke.proto HpkeKem / HpkeKdf / HpkeAead
	kem := map[hpke.KEMID]uint64{hpke.DHKEM_X25519_HKDF_SHA256: 1, hpke.DHKEM_P256_HKDF_SHA256: 2, hpke.DHKEM_P384_HKDF_SHA384: 3,
		hpke.DHKEM_P521_HKDF_SHA512: 4, hpke.X_WING: 5, hpke.ML_KEM768: 6, hpke.ML_KEM1024: 7}
	kdf := map[hpke.KDFID]uint64{hpke.HKDFSHA256: 1, hpke.HKDFSHA384: 2, hpke.HKDFSHA512: 3}
	ae := map[hpke.AEADID]uint64{hpke.AES128GCM: 1, hpke.AES256GCM: 2, hpke.ChaCha20Poly1305: 3}
	e.U(path+".kem", kem[p.KEMID()])
	e.U(path+".kdf", kdf[p.KDFID()])
	e.U(path+".aead", ae[p.AEADID()])
}

func eciesParams(e expect, path string, p *ecies.Parameters) error {
	e.U(path+".kem_params.curve_type", enumOf(protoCurve, p.CurveType()))
	e.U(path+".kem_params.hkdf_hash_type", enumOf(protoHash, p.HashType()))
	e.B(path+".kem_params.hkdf_salt", p.Salt())
	e.M(path + ".kem_params")
	// the DEM template is written with output prefix TINK whatever the DEM parameters say
	if err := templateExpect(e, path+".dem_params.aead_dem", p.DEMParameters(), pfxTink); err != nil {
		return err
	}
	// common.proto EcPointFormat: UNCOMPRESSED = 1, COMPRESSED = 2, DO_NOT_USE_CRUNCHY_UNCOMPRESSED = 3;
	// X25519 (no point format) is written as COMPRESSED
	switch p.NISTCurvePointFormat() {
	case ecies.UncompressedPointFormat:
		e.U(path+".ec_point_format", 1)
	case ecies.CompressedPointFormat, ecies.UnspecifiedPointFormat:
		e.U(path+".ec_point_format", 2)
	case ecies.LegacyUncompressedPointFormat:
		e.U(path+".ec_point_format", 3)
	}
	return nil
}

func streamGCMParams(e expect, path string, p *streamgcm.Parameters) {
	e.U(path+".ciphertext_segment_size", uint64(p.SegmentSizeInBytes()))
	e.U(path+".derived_key_size", uint64(p.DerivedKeySizeInBytes()))
	e.U(path+".hkdf_hash_type", enumOf(protoHash, p.HKDFHashType()))
}

func streamCTRParams(e expect, path string, p *streamctr.Parameters) {
	e.U(path+".ciphertext_segment_size", uint64(p.SegmentSizeInBytes()))
	e.U(path+".derived_key_size", uint64(p.DerivedKeySizeInBytes()))
	e.U(path+".hkdf_hash_type", enumOf(protoHash, p.HkdfHashType()))
	e.U(path+".hmac_params.hash", enumOf(protoHash, p.HmacHashType()))
	e.U(path+".hmac_params.tag_size", uint64(p.HmacTagSizeInBytes()))
}

// jwt_*.proto: the three algorithms of every JWT family are numbered 1, 2, 3 in the order
// 256, 384, 512; jwt_ml_dsa.proto: ML_DSA44 = 1, ML_DSA65 = 2, ML_DSA87 = 3
var jwtAlg = map[string]uint64{"HS256": 1, "HS384": 2, "HS512": 3, "ES256": 1, "ES384": 2, "ES512": 3, "RS256": 1, "RS384": 2, "RS512": 3,
	"PS256": 1, "PS384": 2, "PS512": 3, "ML-DSA-44": 1, "ML-DSA-65": 2, "ML-DSA-87": 3}

func jwtCurve(alg jwtecdsa.Algorithm) string {
	switch alg {
	case jwtecdsa.ES256:
		return "NIST_P256"
	case jwtecdsa.ES384:
		return "NIST_P384"
	case jwtecdsa.ES512:
		return "NIST_P521"
	}
	panic("jwt ecdsa algorithm")
}

func customKID(e expect, path string, strategy any, kidOf func() (string, bool)) error {
	if fmt.Sprint(strategy) != "CustomKID" {
		return nil
	}
	kid, has := kidOf()
	if !has {
		return fmt.Errorf("CustomKID key without KID")
	}
	e.M(path)
	e.B(path+".value", []byte(kid))
	return nil
}

type rsaPriv interface {
	P() secretdata.Bytes
	Q() secretdata.Bytes
	D() secretdata.Bytes
	DP() secretdata.Bytes
	DQ() secretdata.Bytes
	QInv() secretdata.Bytes
}

func rsaPrivExpect(e expect, k rsaPriv, n []byte) error {
	p, q := sd(k.P()), sd(k.Q())
	for name, v := range map[string][]byte{"p": p, "q": q, "n": n} {
		if len(v) == 0 || v[0] == 0 {
			return fmt.Errorf("RSA accessor %s is not minimal big-endian", name)
		}
	}
	e.B("p", p)
	e.B("q", q)
	e.B("d", leftPad(sd(k.D()), len(n)))
	e.B("dp", leftPad(sd(k.DP()), len(p)))
	e.B("dq", leftPad(sd(k.DQ()), len(q)))
	e.B("crt", leftPad(sd(k.QInv()), len(p)))
	return nil
}

// under returns a copy of e with every path prefixed (a public key nested in a private key).
func under(prefix string, e expect) expect {
	out := expect{}
	for p, l := range e {
		out[prefix+"."+p] = l
	}
	out.M(prefix)
	return out
}

func merge(dst, src expect) {
	for p, l := range src {
		dst[p] = l
	}
}

// expectKey builds the accessor-side description of SerializeKey(k). ok=false: no accessor dump is
// written for this key type (reported in the evidence as uncovered).
func expectKey(k key.Key) (ki keyInfo, ok bool, err error) {
	e := expect{}
	ki.exp = e
	switch k := k.(type) {
	case *aesgcm.Key:
		ki.url, ki.kmt = urlPrefix+"AesGcmKey", kmtSymmetric
		e.B("key_value", sd(k.KeyBytes()))
		if k.KeyBytes().Len() != k.Parameters().(*aesgcm.Parameters).KeySizeInBytes() {
			err = fmt.Errorf("key size accessor disagrees with key bytes")
		}
	case *aesgcmsiv.Key:
		ki.url, ki.kmt = urlPrefix+"AesGcmSivKey", kmtSymmetric
		e.B("key_value", sd(k.KeyBytes()))
		if k.KeyBytes().Len() != k.Parameters().(*aesgcmsiv.Parameters).KeySizeInBytes() {
			err = fmt.Errorf("key size accessor disagrees with key bytes")
		}
	case *aesctrhmac.Key:
		ki.url, ki.kmt = urlPrefix+"AesCtrHmacAeadKey", kmtSymmetric
		p := k.Parameters().(*aesctrhmac.Parameters)
		e.U("aes_ctr_key.params.iv_size", uint64(p.IVSizeInBytes()))
		e.B("aes_ctr_key.key_value", sd(k.AESKeyBytes()))
		e.U("hmac_key.params.hash", enumOf(protoHash, p.HashType()))
		e.U("hmac_key.params.tag_size", uint64(p.TagSizeInBytes()))
		e.B("hmac_key.key_value", sd(k.HMACKeyBytes()))
		if k.AESKeyBytes().Len() != p.AESKeySizeInBytes() || k.HMACKeyBytes().Len() != p.HMACKeySizeInBytes() {
			err = fmt.Errorf("key size accessors disagree with key bytes")
		}
	case *chacha20poly1305.Key:
		ki.url, ki.kmt = urlPrefix+"ChaCha20Poly1305Key", kmtSymmetric
		e.B("key_value", sd(k.KeyBytes()))
	case *xchacha20poly1305.Key:
		ki.url, ki.kmt = urlPrefix+"XChaCha20Poly1305Key", kmtSymmetric
		e.B("key_value", sd(k.KeyBytes()))
	case *xaesgcm.Key:
		ki.url, ki.kmt = urlPrefix+"XAesGcmKey", kmtSymmetric
		e.U("params.salt_size", uint64(k.Parameters().(*xaesgcm.Parameters).SaltSizeInBytes()))
		e.B("key_value", sd(k.KeyBytes()))
	case *aessiv.Key:
		ki.url, ki.kmt = urlPrefix+"AesSivKey", kmtSymmetric
		e.B("key_value", sd(k.KeyBytes()))
		if k.KeyBytes().Len() != k.Parameters().(*aessiv.Parameters).KeySizeInBytes() {
			err = fmt.Errorf("key size accessor disagrees with key bytes")
		}
	case *hmac.Key:
		ki.url, ki.kmt = urlPrefix+"HmacKey", kmtSymmetric
		p := k.Parameters().(*hmac.Parameters)
		e.U("params.hash", enumOf(protoHash, p.HashType()))
		e.U("params.tag_size", uint64(p.CryptographicTagSizeInBytes()))
		e.B("key_value", sd(k.KeyBytes()))
		if k.KeyBytes().Len() != p.KeySizeInBytes() {
			err = fmt.Errorf("key size accessor disagrees with key bytes")
		}
	case *aescmac.Key:
		ki.url, ki.kmt = urlPrefix+"AesCmacKey", kmtSymmetric
		p := k.Parameters().(*aescmac.Parameters)
		e.B("key_value", sd(k.KeyBytes()))
		e.U("params.tag_size", uint64(p.CryptographicTagSizeInBytes()))
		if k.KeyBytes().Len() != p.KeySizeInBytes() {
			err = fmt.Errorf("key size accessor disagrees with key bytes")
		}
	case *hkdfprf.Key:
		ki.url, ki.kmt = urlPrefix+"HkdfPrfKey", kmtSymmetric
		p := k.Parameters().(*hkdfprf.Parameters)
		e.U("params.hash", enumOf(protoHash, p.HashType()))
		e.B("params.salt", p.Salt())
		e.B("key_value", sd(k.KeyBytes()))
		if k.KeyBytes().Len() != p.KeySizeInBytes() {
			err = fmt.Errorf("key size accessor disagrees with key bytes")
		}
	case *hmacprf.Key:
		ki.url, ki.kmt = urlPrefix+"HmacPrfKey", kmtSymmetric
		p := k.Parameters().(*hmacprf.Parameters)
		e.U("params.hash", enumOf(protoHash, p.HashType()))
		e.B("key_value", sd(k.KeyBytes()))
		if k.KeyBytes().Len() != p.KeySizeInBytes() {
			err = fmt.Errorf("key size accessor disagrees with key bytes")
		}
	case *aescmacprf.Key:
		ki.url, ki.kmt = urlPrefix+"AesCmacPrfKey", kmtSymmetric
		e.B("key_value", sd(k.KeyBytes()))
		if k.KeyBytes().Len() != k.Parameters().(*aescmacprf.Parameters).KeySizeInBytes() {
			err = fmt.Errorf("key size accessor disagrees with key bytes")
		}
	case *ecdsa.PublicKey:
		ki.url, ki.kmt = urlPrefix+"EcdsaPublicKey", kmtPublic
		p := k.Parameters().(*ecdsa.Parameters)
		ecdsaParams(e, "params", p)
		var x, y []byte
		x, y, err = sec1XY(k.PublicPoint(), ecCoordSize(p.CurveType().String()))
		e.B("x", x)
		e.B("y", y)
	case *ecdsa.PrivateKey:
		ki.url, ki.kmt = urlPrefix+"EcdsaPrivateKey", kmtPrivate
		pub, _ := k.PublicKey()
		var pi keyInfo
		pi, _, err = expectKey(pub)
		merge(e, under("public_key", pi.exp))
		n := ecCoordSize(k.Parameters().(*ecdsa.Parameters).CurveType().String())
		if k.PrivateKeyValue().Len() != n {
			err = fmt.Errorf("private scalar accessor has %d bytes, want %d", k.PrivateKeyValue().Len(), n)
		}
		e.B("key_value", leftPad(sd(k.PrivateKeyValue()), n+1))
	case *ed25519.PublicKey:
		ki.url, ki.kmt = urlPrefix+"Ed25519PublicKey", kmtPublic
		e.B("key_value", k.KeyBytes())
	case *ed25519.PrivateKey:
		ki.url, ki.kmt = urlPrefix+"Ed25519PrivateKey", kmtPrivate
		pub, _ := k.PublicKey()
		e.B("key_value", sd(k.PrivateKeyBytes()))
		e.B("public_key.key_value", pub.(*ed25519.PublicKey).KeyBytes())
	case *rsassapkcs1.PublicKey:
		ki.url, ki.kmt = urlPrefix+"RsaSsaPkcs1PublicKey", kmtPublic
		p := k.Parameters().(*rsassapkcs1.Parameters)
		e.U("params.hash_type", enumOf(protoHash, p.HashType()))
		e.B("n", k.Modulus())
		e.B("e", minimalBE(p.PublicExponent()))
		if new(big.Int).SetBytes(k.Modulus()).BitLen() != p.ModulusSizeBits() || k.Modulus()[0] == 0 {
			err = fmt.Errorf("modulus accessor is not minimal or disagrees with ModulusSizeBits")
		}
	case *rsassapkcs1.PrivateKey:
		ki.url, ki.kmt = urlPrefix+"RsaSsaPkcs1PrivateKey", kmtPrivate
		pub, _ := k.PublicKey()
		var pi keyInfo
		pi, _, err = expectKey(pub)
		merge(e, under("public_key", pi.exp))
		if e2 := rsaPrivExpect(e, k, pub.(*rsassapkcs1.PublicKey).Modulus()); e2 != nil {
			err = e2
		}
	case *rsassapss.PublicKey:
		ki.url, ki.kmt = urlPrefix+"RsaSsaPssPublicKey", kmtPublic
		p := k.Parameters().(*rsassapss.Parameters)
		pssParams(e, "params", p)
		e.B("n", k.Modulus())
		e.B("e", minimalBE(p.PublicExponent()))
		if new(big.Int).SetBytes(k.Modulus()).BitLen() != p.ModulusSizeBits() || k.Modulus()[0] == 0 {
			err = fmt.Errorf("modulus accessor is not minimal or disagrees with ModulusSizeBits")
		}
	case *rsassapss.PrivateKey:
		ki.url, ki.kmt = urlPrefix+"RsaSsaPssPrivateKey", kmtPrivate
		pub, _ := k.PublicKey()
		var pi keyInfo
		pi, _, err = expectKey(pub)
		merge(e, under("public_key", pi.exp))
		if e2 := rsaPrivExpect(e, k, pub.(*rsassapss.PublicKey).Modulus()); e2 != nil {
			err = e2
		}
	case *mldsa.PublicKey:
		ki.url, ki.kmt = urlPrefix+"MlDsaPublicKey", kmtPublic
		e.B("key_value", k.KeyBytes())
		mldsaParams(e, "params", k.Parameters().(*mldsa.Parameters))
	case *mldsa.PrivateKey:
		ki.url, ki.kmt = urlPrefix+"MlDsaPrivateKey", kmtPrivate
		pub, _ := k.PublicKey()
		var pi keyInfo
		pi, _, err = expectKey(pub)
		merge(e, under("public_key", pi.exp))
		e.B("key_value", sd(k.PrivateKeyBytes()))
	case *slhdsa.PublicKey:
		ki.url, ki.kmt = urlPrefix+"SlhDsaPublicKey", kmtPublic
		e.B("key_value", k.KeyBytes())
		slhdsaParams(e, "params", k.Parameters().(*slhdsa.Parameters))
	case *slhdsa.PrivateKey:
		ki.url, ki.kmt = urlPrefix+"SlhDsaPrivateKey", kmtPrivate
		pub, _ := k.PublicKey()
		var pi keyInfo
		pi, _, err = expectKey(pub)
		merge(e, under("public_key", pi.exp))
		e.B("key_value", sd(k.PrivateKeyBytes()))
		if k.PrivateKeyBytes().Len() != k.Parameters().(*slhdsa.Parameters).KeySize() {
			err = fmt.Errorf("KeySize accessor disagrees with private key bytes")
		}
	case *compositemldsa.PublicKey:
		ki.url, ki.kmt = urlPrefix+"CompositeMlDsaPublicKey", kmtPublic
		if e2 := keyDataExpect(e, "ml_dsa_public_key", k.MLDSAPublicKey()); e2 != nil {
			err = e2
		}
		if e2 := keyDataExpect(e, "classical_public_key", k.ClassicalPublicKey()); e2 != nil {
			err = e2
		}
		compositeParams(e, "params", k.Parameters().(*compositemldsa.Parameters))
	case *compositemldsa.PrivateKey:
		ki.url, ki.kmt = urlPrefix+"CompositeMlDsaPrivateKey", kmtPrivate
		if e2 := keyDataExpect(e, "ml_dsa_private_key", k.MLDSAPrivateKey()); e2 != nil {
			err = e2
		}
		if e2 := keyDataExpect(e, "classical_private_key", k.ClassicalPrivateKey()); e2 != nil {
			err = e2
		}
		compositeParams(e, "params", k.Parameters().(*compositemldsa.Parameters))
	case *hpke.PublicKey:
		ki.url, ki.kmt = urlPrefix+"HpkePublicKey", kmtPublic
		hpkeParams(e, "params", k.Parameters().(*hpke.Parameters))
		e.B("public_key", k.PublicKeyBytes())
	case *hpke.PrivateKey:
		ki.url, ki.kmt = urlPrefix+"HpkePrivateKey", kmtPrivate
		pub, _ := k.PublicKey()
		var pi keyInfo
		pi, _, err = expectKey(pub)
		merge(e, under("public_key", pi.exp))
		e.B("private_key", sd(k.PrivateKeyBytes()))
	case *ecies.PublicKey:
		ki.url, ki.kmt = urlPrefix+"EciesAeadHkdfPublicKey", kmtPublic
		p := k.Parameters().(*ecies.Parameters)
		err = eciesParams(e, "params", p)
		if p.CurveType() == ecies.X25519 {
			e.B("x", k.PublicKeyBytes())
			if len(k.PublicKeyBytes()) != 32 {
				err = fmt.Errorf("X25519 public key accessor has %d bytes", len(k.PublicKeyBytes()))
			}
		} else {
			x, y, e2 := sec1XY(k.PublicKeyBytes(), ecCoordSize(p.CurveType().String()))
			if e2 != nil {
				err = e2
			}
			e.B("x", x)
			e.B("y", y)
		}
	case *ecies.PrivateKey:
		ki.url, ki.kmt = urlPrefix+"EciesAeadHkdfPrivateKey", kmtPrivate
		pub, _ := k.PublicKey()
		var pi keyInfo
		pi, _, err = expectKey(pub)
		merge(e, under("public_key", pi.exp))
		p := k.Parameters().(*ecies.Parameters)
		if p.CurveType() == ecies.X25519 {
			e.B("key_value", sd(k.PrivateKeyBytes()))
		} else {
			n := ecCoordSize(p.CurveType().String())
			if k.PrivateKeyBytes().Len() != n {
				err = fmt.Errorf("private scalar accessor has %d bytes, want %d", k.PrivateKeyBytes().Len(), n)
			}
			e.B("key_value", leftPad(sd(k.PrivateKeyBytes()), n+1))
		}
	case *streamgcm.Key:
		ki.url, ki.kmt = urlPrefix+"AesGcmHkdfStreamingKey", kmtSymmetric
		p := k.Parameters().(*streamgcm.Parameters)
		streamGCMParams(e, "params", p)
		e.B("key_value", sd(k.KeyBytes()))
		if k.KeyBytes().Len() != p.KeySizeInBytes() {
			err = fmt.Errorf("key size accessor disagrees with key bytes")
		}
	case *streamctr.Key:
		ki.url, ki.kmt = urlPrefix+"AesCtrHmacStreamingKey", kmtSymmetric
		p := k.Parameters().(*streamctr.Parameters)
		streamCTRParams(e, "params", p)
		e.B("key_value", sd(k.KeyBytes()))
		if k.KeyBytes().Len() != p.KeySizeInBytes() {
			err = fmt.Errorf("key size accessor disagrees with key bytes")
		}
	case *jwthmac.Key:
		ki.url, ki.kmt = urlPrefix+"JwtHmacKey", kmtSymmetric
		p := k.Parameters().(*jwthmac.Parameters)
		e.U("algorithm", enumOf(jwtAlg, p.Algorithm()))
		e.B("key_value", sd(k.KeyBytes()))
		err = customKID(e, "custom_kid", p.KIDStrategy(), k.KID)
		if k.KeyBytes().Len() != p.KeySizeInBytes() {
			err = fmt.Errorf("key size accessor disagrees with key bytes")
		}
	case *jwtecdsa.PublicKey:
		ki.url, ki.kmt = urlPrefix+"JwtEcdsaPublicKey", kmtPublic
		p := k.Parameters().(*jwtecdsa.Parameters)
		e.U("algorithm", enumOf(jwtAlg, p.Algorithm()))
		x, y, e2 := sec1XY(k.PublicPoint(), ecCoordSize(jwtCurve(p.Algorithm())))
		e.B("x", x)
		e.B("y", y)
		err = customKID(e, "custom_kid", p.KIDStrategy(), k.KID)
		if e2 != nil {
			err = e2
		}
	case *jwtecdsa.PrivateKey:
		ki.url, ki.kmt = urlPrefix+"JwtEcdsaPrivateKey", kmtPrivate
		pub, _ := k.PublicKey()
		var pi keyInfo
		pi, _, err = expectKey(pub)
		merge(e, under("public_key", pi.exp))
		n := ecCoordSize(jwtCurve(k.Parameters().(*jwtecdsa.Parameters).Algorithm()))
		e.B("key_value", leftPad(sd(k.PrivateKeyValue()), n+1))
	case *jwtrsassapkcs1.PublicKey:
		ki.url, ki.kmt = urlPrefix+"JwtRsaSsaPkcs1PublicKey", kmtPublic
		p := k.Parameters().(*jwtrsassapkcs1.Parameters)
		e.U("algorithm", enumOf(jwtAlg, p.Algorithm()))
		e.B("n", k.Modulus())
		e.B("e", minimalBE(p.PublicExponent()))
		err = customKID(e, "custom_kid", p.KIDStrategy(), k.KID)
	case *jwtrsassapkcs1.PrivateKey:
		ki.url, ki.kmt = urlPrefix+"JwtRsaSsaPkcs1PrivateKey", kmtPrivate
		pub, _ := k.PublicKey()
		var pi keyInfo
		pi, _, err = expectKey(pub)
		merge(e, under("public_key", pi.exp))
		if e2 := rsaPrivExpect(e, k, pub.(*jwtrsassapkcs1.PublicKey).Modulus()); e2 != nil {
			err = e2
		}
	case *jwtrsassapss.PublicKey:
		ki.url, ki.kmt = urlPrefix+"JwtRsaSsaPssPublicKey", kmtPublic
		p := k.Parameters().(*jwtrsassapss.Parameters)
		e.U("algorithm", enumOf(jwtAlg, p.Algorithm()))
		e.B("n", k.Modulus())
		e.B("e", minimalBE(p.PublicExponent()))
		err = customKID(e, "custom_kid", p.KIDStrategy(), k.KID)
	case *jwtrsassapss.PrivateKey:
		ki.url, ki.kmt = urlPrefix+"JwtRsaSsaPssPrivateKey", kmtPrivate
		pub, _ := k.PublicKey()
		var pi keyInfo
		pi, _, err = expectKey(pub)
		merge(e, under("public_key", pi.exp))
		if e2 := rsaPrivExpect(e, k, pub.(*jwtrsassapss.PublicKey).Modulus()); e2 != nil {
			err = e2
		}
	case *jwtmldsa.PublicKey:
		ki.url, ki.kmt = urlPrefix+"JwtMlDsaPublicKey", kmtPublic
		p := k.Parameters().(*jwtmldsa.Parameters)
		e.U("algorithm", enumOf(jwtAlg, p.Algorithm()))
		e.B("key_value", k.KeyBytes())
		err = customKID(e, "custom_kid", p.KIDStrategy(), k.KID)
	case *jwtmldsa.PrivateKey:
		ki.url, ki.kmt = urlPrefix+"JwtMlDsaPrivateKey", kmtPrivate
		pub, _ := k.PublicKey()
		var pi keyInfo
		pi, _, err = expectKey(pub)
		merge(e, under("public_key", pi.exp))
		e.B("key_value", sd(k.PrivateKeyValue()))
	case *prfbasedkeyderivation.Key:
		ki.url, ki.kmt = urlPrefix+"PrfBasedDeriverKey", kmtSymmetric
		p := k.Parameters().(*prfbasedkeyderivation.Parameters)
		if e2 := keyDataExpect(e, "prf_key", k.PRFKey()); e2 != nil {
			err = e2
		}
		if e2 := templateExpect(e, "params.derived_key_template", p.DerivedKeyParameters(), 0); e2 != nil {
			err = e2
		}
	default:
		return ki, false, nil
	}
	return ki, true, err
}

// expectParams builds the accessor-side description of SerializeParameters(p): the type URL and
// the fields of the key format message.
func expectParams(p key.Parameters) (url string, e expect, ok bool, err error) {
	e = expect{}
	switch p := p.(type) {
	case *aesgcm.Parameters:
		url = urlPrefix + "AesGcmKey"
		e.U("key_size", uint64(p.KeySizeInBytes()))
	case *aesgcmsiv.Parameters:
		url = urlPrefix + "AesGcmSivKey"
		e.U("key_size", uint64(p.KeySizeInBytes()))
	case *aesctrhmac.Parameters:
		url = urlPrefix + "AesCtrHmacAeadKey"
		e.U("aes_ctr_key_format.params.iv_size", uint64(p.IVSizeInBytes()))
		e.U("aes_ctr_key_format.key_size", uint64(p.AESKeySizeInBytes()))
		e.U("hmac_key_format.params.hash", enumOf(protoHash, p.HashType()))
		e.U("hmac_key_format.params.tag_size", uint64(p.TagSizeInBytes()))
		e.U("hmac_key_format.key_size", uint64(p.HMACKeySizeInBytes()))
	case *chacha20poly1305.Parameters:
		url = urlPrefix + "ChaCha20Poly1305Key"
	case *xchacha20poly1305.Parameters:
		url = urlPrefix + "XChaCha20Poly1305Key"
	case *xaesgcm.Parameters:
		url = urlPrefix + "XAesGcmKey"
		e.U("params.salt_size", uint64(p.SaltSizeInBytes()))
	case *aessiv.Parameters:
		url = urlPrefix + "AesSivKey"
		e.U("key_size", uint64(p.KeySizeInBytes()))
	case *hmac.Parameters:
		url = urlPrefix + "HmacKey"
		e.U("params.hash", enumOf(protoHash, p.HashType()))
		e.U("params.tag_size", uint64(p.CryptographicTagSizeInBytes()))
		e.U("key_size", uint64(p.KeySizeInBytes()))
	case *aescmac.Parameters:
		url = urlPrefix + "AesCmacKey"
		e.U("key_size", uint64(p.KeySizeInBytes()))
		e.U("params.tag_size", uint64(p.CryptographicTagSizeInBytes()))
	case *hkdfprf.Parameters:
		url = urlPrefix + "HkdfPrfKey"
		e.U("params.hash", enumOf(protoHash, p.HashType()))
		e.B("params.salt", p.Salt())
		e.U("key_size", uint64(p.KeySizeInBytes()))
	case *hmacprf.Parameters:
		url = urlPrefix + "HmacPrfKey"
		e.U("params.hash", enumOf(protoHash, p.HashType()))
		e.U("key_size", uint64(p.KeySizeInBytes()))
	case *aescmacprf.Parameters:
		url = urlPrefix + "AesCmacPrfKey"
		e.U("key_size", uint64(p.KeySizeInBytes()))
	case *ecdsa.Parameters:
		url = urlPrefix + "EcdsaPrivateKey"
		ecdsaParams(e, "params", p)
	case *ed25519.Parameters:
		url = urlPrefix + "Ed25519PrivateKey"
	case *rsassapkcs1.Parameters:
		url = urlPrefix + "RsaSsaPkcs1PrivateKey"
		e.U("params.hash_type", enumOf(protoHash, p.HashType()))
		e.U("modulus_size_in_bits", uint64(p.ModulusSizeBits()))
		e.B("public_exponent", minimalBE(p.PublicExponent()))
	case *rsassapss.Parameters:
		url = urlPrefix + "RsaSsaPssPrivateKey"
		pssParams(e, "params", p)
		e.U("modulus_size_in_bits", uint64(p.ModulusSizeBits()))
		e.B("public_exponent", minimalBE(p.PublicExponent()))
	case *mldsa.Parameters:
		url = urlPrefix + "MlDsaPrivateKey"
		mldsaParams(e, "params", p)
	case *slhdsa.Parameters:
		url = urlPrefix + "SlhDsaPrivateKey"
		slhdsaParams(e, "params", p)
	case *compositemldsa.Parameters:
		url = urlPrefix + "CompositeMlDsaPrivateKey"
		compositeParams(e, "params", p)
	case *hpke.Parameters:
		url = urlPrefix + "HpkePrivateKey"
		hpkeParams(e, "params", p)
	case *ecies.Parameters:
		url = urlPrefix + "EciesAeadHkdfPrivateKey"
		err = eciesParams(e, "params", p)
	case *streamgcm.Parameters:
		url = urlPrefix + "AesGcmHkdfStreamingKey"
		streamGCMParams(e, "params", p)
		e.U("key_size", uint64(p.KeySizeInBytes()))
	case *streamctr.Parameters:
		url = urlPrefix + "AesCtrHmacStreamingKey"
		streamCTRParams(e, "params", p)
		e.U("key_size", uint64(p.KeySizeInBytes()))
	case *jwthmac.Parameters:
		url = urlPrefix + "JwtHmacKey"
		e.U("algorithm", enumOf(jwtAlg, p.Algorithm()))
		e.U("key_size", uint64(p.KeySizeInBytes()))
	case *jwtecdsa.Parameters:
		url = urlPrefix + "JwtEcdsaPrivateKey"
		e.U("algorithm", enumOf(jwtAlg, p.Algorithm()))
	case *jwtrsassapkcs1.Parameters:
		url = urlPrefix + "JwtRsaSsaPkcs1PrivateKey"
		e.U("algorithm", enumOf(jwtAlg, p.Algorithm()))
		e.U("modulus_size_in_bits", uint64(p.ModulusSizeInBits()))
		e.B("public_exponent", minimalBE(p.PublicExponent()))
	case *jwtrsassapss.Parameters:
		url = urlPrefix + "JwtRsaSsaPssPrivateKey"
		e.U("algorithm", enumOf(jwtAlg, p.Algorithm()))
		e.U("modulus_size_in_bits", uint64(p.ModulusSizeInBits()))
		e.B("public_exponent", minimalBE(p.PublicExponent()))
	case *jwtmldsa.Parameters:
		url = urlPrefix + "JwtMlDsaPrivateKey"
		e.U("algorithm", enumOf(jwtAlg, p.Algorithm()))
	case *prfbasedkeyderivation.Parameters:
		url = urlPrefix + "PrfBasedDeriverKey"
		if e2 := templateExpect(e, "prf_key_template", p.PRFParameters(), 0); e2 != nil {
			err = e2
		}
		if e2 := templateExpect(e, "params.derived_key_template", p.DerivedKeyParameters(), 0); e2 != nil {
			err = e2
		}
	default:
		return "", nil, false, nil
	}
	return url, e, true, err
}
