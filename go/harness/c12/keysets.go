//go:build verif

package main

// Stream 3: keysets through every writer/reader pair. Random keysets of 1..6 keys of one primitive
// class (mixed key types, statuses, any enabled primary, special ids) are written with
//   - insecurecleartextkeyset.Write to a binary / JSON / in-memory writer,
//   - Handle.Write / WriteWithAssociatedData / WriteWithContext under several key-encryption AEADs
//     and associated data, to a binary / JSON / in-memory writer,
//   - (asymmetric classes) Handle.Public() + WriteWithNoSecrets, NewHandleWithNoSecrets,
// read back, and compared entry by entry (id, status, primary, key.Equal, KeysetInfo); primitives
// of the original and the re-read handle must interoperate in both directions. The binary keyset
// bytes go to the Lean wire decoder with a dump built from the handle's entries.

import (
	"bytes"
	"context"
	"fmt"
	"io"

	"github.com/tink-crypto/tink-go/v2/aead"
	"github.com/tink-crypto/tink-go/v2/aead/aesctrhmac"
	"github.com/tink-crypto/tink-go/v2/aead/aesgcm"
	"github.com/tink-crypto/tink-go/v2/aead/aesgcmsiv"
	aeadsubtle "github.com/tink-crypto/tink-go/v2/aead/subtle"
	"github.com/tink-crypto/tink-go/v2/aead/xaesgcm"
	"github.com/tink-crypto/tink-go/v2/daead"
	"github.com/tink-crypto/tink-go/v2/hybrid"
	"github.com/tink-crypto/tink-go/v2/insecurecleartextkeyset"
	"github.com/tink-crypto/tink-go/v2/internal/internalapi"
	"github.com/tink-crypto/tink-go/v2/internal/keygenregistry"
	"github.com/tink-crypto/tink-go/v2/internal/protoserialization"
	"github.com/tink-crypto/tink-go/v2/internal/verifharness/hlib"
	"github.com/tink-crypto/tink-go/v2/internal/verifharness/kslib"
	"github.com/tink-crypto/tink-go/v2/jwt"
	"github.com/tink-crypto/tink-go/v2/key"
	"github.com/tink-crypto/tink-go/v2/keyderivation"
	"github.com/tink-crypto/tink-go/v2/keyset"
	"github.com/tink-crypto/tink-go/v2/mac"
	"github.com/tink-crypto/tink-go/v2/prf"
	"github.com/tink-crypto/tink-go/v2/signature"
	"github.com/tink-crypto/tink-go/v2/streamingaead"
	"github.com/tink-crypto/tink-go/v2/tink"
	"google.golang.org/protobuf/proto"

	tinkpb "github.com/tink-crypto/tink-go/v2/proto/tink_go_proto"
)

type ksEntry struct {
	c       *gcase
	k       key.Key
	id      uint32
	status  keyset.KeyStatus
	primary bool
}

type kek struct {
	name string
	a    tink.AEAD
}

type ctxAEAD struct{ a tink.AEAD }

func (c ctxAEAD) EncryptWithContext(_ context.Context, pt, ad []byte) ([]byte, error) {
	return c.a.Encrypt(pt, ad)
}
func (c ctxAEAD) DecryptWithContext(_ context.Context, ct, ad []byte) ([]byte, error) {
	return c.a.Decrypt(ct, ad)
}

func makeKEKs(r *hlib.Rng) []kek {
	one := func(p key.Parameters) tink.AEAD {
		k := must(keygenregistry.CreateKey(p, 0))
		return must(aead.New(must(hlib.HandleOf(k))))
	}
	var ks []kek
	ks = append(ks, kek{"AES128-GCM", one(must(aesgcm.NewParameters(aesgcm.ParametersOpts{KeySizeInBytes: 16, IVSizeInBytes: 12, TagSizeInBytes: 16, Variant: aesgcm.VariantNoPrefix})))})
	ks = append(ks, kek{"AES256-CTR-HMAC-SHA256", one(must(aesctrhmac.NewParameters(aesctrhmac.ParametersOpts{AESKeySizeInBytes: 32, HMACKeySizeInBytes: 32, IVSizeInBytes: 16,
		TagSizeInBytes: 32, HashType: aesctrhmac.SHA256, Variant: aesctrhmac.VariantNoPrefix})))})
	ks = append(ks, kek{"XChaCha20-Poly1305(subtle)", must(aeadsubtle.NewXChaCha20Poly1305(r.Bytes(32)))})
	ks = append(ks, kek{"AES256-GCM-SIV", one(must(aesgcmsiv.NewParameters(32, aesgcmsiv.VariantNoPrefix)))})
	// a keyset-level AEAD: three keys, TINK / CRUNCHY prefixes, primary in the middle
	km := keyset.NewManager()
	must(km.AddKeyWithOpts(must(keygenregistry.CreateKey(must(aesgcm.NewParameters(aesgcm.ParametersOpts{KeySizeInBytes: 32, IVSizeInBytes: 12, TagSizeInBytes: 16, Variant: aesgcm.VariantCrunchy})), 7)), internalapi.Token{}))
	must(km.AddKeyWithOpts(must(keygenregistry.CreateKey(must(xaesgcm.NewParameters(xaesgcm.VariantTink, 12)), 0xffffffff)), internalapi.Token{}, keyset.AsPrimary()))
	must(km.AddKeyWithOpts(must(keygenregistry.CreateKey(must(aesgcmsiv.NewParameters(16, aesgcmsiv.VariantTink)), 9)), internalapi.Token{}, keyset.WithStatus(keyset.Disabled)))
	ks = append(ks, kek{"keyset(AES-GCM,XAES-GCM*,AES-GCM-SIV)", must(aead.New(must(km.Handle())))})
	return ks
}

func statusNo(s keyset.KeyStatus) uint64 {
	// tink.proto KeyStatusType: ENABLED = 1, DISABLED = 2, DESTROYED = 3
	switch s {
	case keyset.Enabled:
		return 1
	case keyset.Disabled:
		return 2
	case keyset.Destroyed:
		return 3
	}
	return 0
}

// genKeyset draws a keyset of one class.
func (w *world) genKeyset(class string, r *hlib.Rng) ([]ksEntry, *keyset.Handle, error) {
	pool := w.pools[class]
	n := 1 + r.Intn(6)
	return w.genKeysetFrom(func(int) *gcase { return pool[r.Intn(len(pool))] }, n, r)
}

// genKeysetFrom builds a keyset of n entries; pick(i) names the grid point of entry i (it is asked
// again when the drawn key id is already taken or the point is a second slow one). Ids, statuses
// and the primary are drawn from r.
func (w *world) genKeysetFrom(pick func(i int) *gcase, n int, r *hlib.Rng) ([]ksEntry, *keyset.Handle, error) {
	used := map[uint32]bool{}
	var es []ksEntry
	slowBudget := 1
	for len(es) < n {
		c := pick(len(es))
		if c.slow {
			if slowBudget == 0 {
				continue
			}
			slowBudget--
		}
		id := idOfClass(r.Intn(5), r)
		if used[id] {
			continue
		}
		used[id] = true
		kid := id
		if !c.params.HasIDRequirement() {
			kid = 0
		}
		k, err := c.make(kid)
		if err != nil {
			return nil, nil, fmt.Errorf("%s[%s]: %v", c.typ, c.label, err)
		}
		st := keyset.Enabled
		switch r.Intn(6) {
		case 0:
			st = keyset.Disabled
		case 1:
			st = keyset.Destroyed
		}
		es = append(es, ksEntry{c: c, k: k, id: id, status: st})
	}
	var enabled []int
	for i, e := range es {
		if e.status == keyset.Enabled {
			enabled = append(enabled, i)
		}
	}
	if len(enabled) == 0 {
		es[r.Intn(len(es))].status = keyset.Enabled
		for i, e := range es {
			if e.status == keyset.Enabled {
				enabled = append(enabled, i)
			}
		}
	}
	es[enabled[r.Intn(len(enabled))]].primary = true
	km := keyset.NewManager()
	for _, e := range es {
		opts := []keyset.KeyOpts{keyset.WithStatus(e.status), keyset.WithFixedID(e.id)}
		if e.primary {
			opts = append(opts, keyset.AsPrimary())
		}
		if _, err := km.AddKeyWithOpts(e.k, internalapi.Token{}, opts...); err != nil {
			return nil, nil, fmt.Errorf("AddKeyWithOpts %s[%s] id=%d: %v", e.c.typ, e.c.label, e.id, err)
		}
	}
	h, err := km.Handle()
	return es, h, err
}

// sameHandle compares two handles entry by entry.
func sameHandle(a, b *keyset.Handle) string {
	if b == nil {
		return "nil handle"
	}
	if a.Len() != b.Len() {
		return fmt.Sprintf("%d entries vs %d", a.Len(), b.Len())
	}
	for i := 0; i < a.Len(); i++ {
		ea, err1 := a.Entry(i)
		eb, err2 := b.Entry(i)
		if err1 != nil || err2 != nil {
			return fmt.Sprintf("Entry(%d): %v %v", i, err1, err2)
		}
		switch {
		case ea.KeyID() != eb.KeyID():
			return fmt.Sprintf("entry %d: key id %d vs %d", i, ea.KeyID(), eb.KeyID())
		case ea.KeyStatus() != eb.KeyStatus():
			return fmt.Sprintf("entry %d: status %v vs %v", i, ea.KeyStatus(), eb.KeyStatus())
		case ea.IsPrimary() != eb.IsPrimary():
			return fmt.Sprintf("entry %d: primary %v vs %v", i, ea.IsPrimary(), eb.IsPrimary())
		case !ea.Key().Equal(eb.Key()) || !eb.Key().Equal(ea.Key()):
			return fmt.Sprintf("entry %d (id %d): keys not Equal (%T)", i, ea.KeyID(), ea.Key())
		}
	}
	pa, err1 := a.Primary()
	pb, err2 := b.Primary()
	if err1 != nil || err2 != nil || pa.KeyID() != pb.KeyID() {
		return "Primary() differs"
	}
	if !proto.Equal(a.KeysetInfo(), b.KeysetInfo()) {
		return "KeysetInfo differs"
	}
	return ""
}

// matchesEntries compares a handle with the entries it was built from.
func matchesEntries(h *keyset.Handle, es []ksEntry, public bool) string {
	if h.Len() != len(es) {
		return fmt.Sprintf("%d entries, built from %d", h.Len(), len(es))
	}
	for i, e := range es {
		he, err := h.Entry(i)
		if err != nil {
			return err.Error()
		}
		want := e.k
		if public {
			want, err = e.k.(pubber).PublicKey()
			if err != nil {
				return err.Error()
			}
		}
		if he.KeyID() != e.id || he.KeyStatus() != e.status || he.IsPrimary() != e.primary || !he.Key().Equal(want) || !want.Equal(he.Key()) {
			return fmt.Sprintf("entry %d: got (id %d, %v, primary %v, %T), want (id %d, %v, primary %v, %T)", i, he.KeyID(), he.KeyStatus(), he.IsPrimary(), he.Key(),
				e.id, e.status, e.primary, want)
		}
	}
	return ""
}

// emitKeysetWire sends the binary keyset and its Key / KeyData messages to the wire decoder with
// dumps built from the handle's entries.
func (w *world) emitKeysetWire(what string, h *keyset.Handle, bin []byte) {
	var top []wf
	var prim uint32
	type sub struct {
		b    []byte
		dump []wf
	}
	var subs []sub
	for i := 0; i < h.Len(); i++ {
		e, err := h.Entry(i)
		if err != nil {
			return
		}
		s, err := protoserialization.SerializeKey(e.Key())
		if err != nil {
			w.violate("keyset/entry-does-not-serialize", "%s entry %d: %v", what, i, err)
			return
		}
		kdBytes, _ := proto.Marshal(s.KeyData())
		km := &tinkpb.Keyset_Key{KeyData: s.KeyData(), Status: tinkpb.KeyStatusType(statusNo(e.KeyStatus())), KeyId: e.KeyID(), OutputPrefixType: s.OutputPrefixType()}
		kb, _ := proto.Marshal(km)
		kdump := []wf{{num: 1, kind: 'b', b: kdBytes}, {num: 2, kind: 'v', u: statusNo(e.KeyStatus())}}
		if e.KeyID() != 0 {
			kdump = append(kdump, wf{num: 3, kind: 'v', u: uint64(e.KeyID())})
		}
		kdump = append(kdump, wf{num: 4, kind: 'v', u: uint64(expectedPrefix(e.Key().Parameters()))})
		subs = append(subs, sub{kb, kdump})
		kddump := []wf{{num: 1, kind: 'b', b: []byte(s.KeyData().GetTypeUrl())}, {num: 2, kind: 'b', b: s.KeyData().GetValue()}, {num: 3, kind: 'v', u: uint64(s.KeyData().GetKeyMaterialType())}}
		subs = append(subs, sub{kdBytes, kddump})
		top = append(top, wf{num: 2, kind: 'b', b: kb})
		if e.IsPrimary() {
			prim = e.KeyID()
		}
	}
	if prim != 0 {
		top = append([]wf{{num: 1, kind: 'v', u: uint64(prim)}}, top...)
	}
	w.o.Emit("P wire "+hexTok(bin), "ok "+showFields(top), true)
	w.o.Count("wire-line/Keyset")
	for _, s := range subs {
		id := "ks|" + string(s.b)
		if w.seen[id] {
			continue
		}
		w.seen[id] = true
		w.o.Emit("P wire "+hexTok(s.b), "ok "+showFields(s.dump), true)
		w.o.Count("wire-line/Keyset.Key+KeyData")
	}
}

type format struct {
	name   string
	writer func(buf *bytes.Buffer, mem *keyset.MemReaderWriter) keyset.Writer
	reader func(buf *bytes.Buffer, mem *keyset.MemReaderWriter) keyset.Reader
}

var formats = []format{
	{"binary", func(b *bytes.Buffer, _ *keyset.MemReaderWriter) keyset.Writer { return keyset.NewBinaryWriter(b) },
		func(b *bytes.Buffer, _ *keyset.MemReaderWriter) keyset.Reader {
			return keyset.NewBinaryReader(bytes.NewReader(b.Bytes()))
		}},
	{"json", func(b *bytes.Buffer, _ *keyset.MemReaderWriter) keyset.Writer { return keyset.NewJSONWriter(b) },
		func(b *bytes.Buffer, _ *keyset.MemReaderWriter) keyset.Reader {
			return keyset.NewJSONReader(bytes.NewReader(b.Bytes()))
		}},
	{"mem", func(_ *bytes.Buffer, m *keyset.MemReaderWriter) keyset.Writer { return m },
		func(_ *bytes.Buffer, m *keyset.MemReaderWriter) keyset.Reader { return m }},
}

var (
	ksMsg = []byte("c12: primitives of the original and the re-read keyset interoperate")
	ksAD  = []byte("c12 associated data")
)

// interop checks that the primitives of a and b (two handles that should hold the same keys)
// accept each other's outputs. pubA/pubB are the public handles for the asymmetric classes.
// It returns "" if fine, "-" if the original has no primitive, else a description.
func interop(class string, a, b *keyset.Handle) (res string) {
	if p := hlib.Recover(func() { res = interop1(class, a, b) }); p != "" {
		return "panic: " + p
	}
	return
}

func interop1(class string, a, b *keyset.Handle) string {
	both := func(f func(x, y *keyset.Handle) string) string {
		if d := f(a, b); d == "-" {
			return d
		} else if d != "" {
			return "original→re-read: " + d
		}
		if d := f(b, a); d != "" && d != "-" {
			return "re-read→original: " + d
		}
		return ""
	}
	switch class {
	case "aead":
		return both(func(x, y *keyset.Handle) string {
			px, err := aead.New(x)
			if err != nil {
				return "-"
			}
			py, err := aead.New(y)
			if err != nil {
				return "no primitive for the other handle: " + err.Error()
			}
			ct, err := px.Encrypt(ksMsg, ksAD)
			if err != nil {
				return "Encrypt: " + err.Error()
			}
			pt, err := py.Decrypt(ct, ksAD)
			if err != nil || !bytes.Equal(pt, ksMsg) {
				return fmt.Sprintf("Decrypt: %v", err)
			}
			return ""
		})
	case "daead":
		return both(func(x, y *keyset.Handle) string {
			px, err := daead.New(x)
			if err != nil {
				return "-"
			}
			py, err := daead.New(y)
			if err != nil {
				return "no primitive for the other handle: " + err.Error()
			}
			ct, err := px.EncryptDeterministically(ksMsg, ksAD)
			if err != nil {
				return "Encrypt: " + err.Error()
			}
			ct2, err := py.EncryptDeterministically(ksMsg, ksAD)
			if err != nil || !bytes.Equal(ct, ct2) {
				return "deterministic ciphertexts differ"
			}
			pt, err := py.DecryptDeterministically(ct, ksAD)
			if err != nil || !bytes.Equal(pt, ksMsg) {
				return fmt.Sprintf("Decrypt: %v", err)
			}
			return ""
		})
	case "mac":
		return both(func(x, y *keyset.Handle) string {
			px, err := mac.New(x)
			if err != nil {
				return "-"
			}
			py, err := mac.New(y)
			if err != nil {
				return "no primitive for the other handle: " + err.Error()
			}
			tag, err := px.ComputeMAC(ksMsg)
			if err != nil {
				return "ComputeMAC: " + err.Error()
			}
			if err := py.VerifyMAC(tag, ksMsg); err != nil {
				return "VerifyMAC: " + err.Error()
			}
			tag2, err := py.ComputeMAC(ksMsg)
			if err != nil || !bytes.Equal(tag, tag2) {
				return "tags differ"
			}
			return ""
		})
	case "prf":
		return both(func(x, y *keyset.Handle) string {
			px, err := prf.NewPRFSet(x)
			if err != nil {
				return "-"
			}
			py, err := prf.NewPRFSet(y)
			if err != nil {
				return "no primitive for the other handle: " + err.Error()
			}
			if px.PrimaryID != py.PrimaryID || len(px.PRFs) != len(py.PRFs) {
				return "PRF set shape differs"
			}
			for id, f := range px.PRFs {
				g, ok := py.PRFs[id]
				if !ok {
					return fmt.Sprintf("PRF %d missing", id)
				}
				o1, err1 := f.ComputePRF(ksMsg, 16)
				o2, err2 := g.ComputePRF(ksMsg, 16)
				if (err1 == nil) != (err2 == nil) || !bytes.Equal(o1, o2) {
					return fmt.Sprintf("PRF %d outputs differ", id)
				}
			}
			return ""
		})
	case "sig":
		return both(func(x, y *keyset.Handle) string {
			sx, err := signature.NewSigner(x)
			if err != nil {
				return "-"
			}
			sig, err := sx.Sign(ksMsg)
			if err != nil {
				return "Sign: " + err.Error()
			}
			px, err := x.Public()
			if err != nil {
				return "Public: " + err.Error()
			}
			py, err := y.Public()
			if err != nil {
				return "Public (other): " + err.Error()
			}
			for i, ph := range []*keyset.Handle{px, py} {
				v, err := signature.NewVerifier(ph)
				if err != nil {
					return fmt.Sprintf("NewVerifier %d: %v", i, err)
				}
				if err := v.Verify(sig, ksMsg); err != nil {
					return fmt.Sprintf("Verify with public handle %d: %v", i, err)
				}
			}
			return ""
		})
	case "hyb":
		return both(func(x, y *keyset.Handle) string {
			px, err := x.Public()
			if err != nil {
				return "Public: " + err.Error()
			}
			enc, err := hybrid.NewHybridEncrypt(px)
			if err != nil {
				return "-"
			}
			ct, err := enc.Encrypt(ksMsg, ksAD)
			if err != nil {
				return "Encrypt: " + err.Error()
			}
			for i, dh := range []*keyset.Handle{x, y} {
				dec, err := hybrid.NewHybridDecrypt(dh)
				if err != nil {
					return fmt.Sprintf("NewHybridDecrypt %d: %v", i, err)
				}
				pt, err := dec.Decrypt(ct, ksAD)
				if err != nil || !bytes.Equal(pt, ksMsg) {
					return fmt.Sprintf("Decrypt %d: %v", i, err)
				}
			}
			return ""
		})
	case "jwtmac":
		return both(func(x, y *keyset.Handle) string {
			px, err := jwt.NewMAC(x)
			if err != nil {
				return "-"
			}
			py, err := jwt.NewMAC(y)
			if err != nil {
				return "no primitive for the other handle: " + err.Error()
			}
			sub := "c12"
			raw := must(jwt.NewRawJWT(&jwt.RawJWTOptions{Subject: &sub, WithoutExpiration: true}))
			tok, err := px.ComputeMACAndEncode(raw)
			if err != nil {
				return "ComputeMACAndEncode: " + err.Error()
			}
			val := must(jwt.NewValidator(&jwt.ValidatorOpts{AllowMissingExpiration: true}))
			vj, err := py.VerifyMACAndDecode(tok, val)
			if err != nil {
				return "VerifyMACAndDecode: " + err.Error()
			}
			if s, _ := vj.Subject(); s != sub {
				return "subject differs"
			}
			return ""
		})
	case "jwtsig":
		return both(func(x, y *keyset.Handle) string {
			sx, err := jwt.NewSigner(x)
			if err != nil {
				return "-"
			}
			sub := "c12"
			raw := must(jwt.NewRawJWT(&jwt.RawJWTOptions{Subject: &sub, WithoutExpiration: true}))
			tok, err := sx.SignAndEncode(raw)
			if err != nil {
				return "SignAndEncode: " + err.Error()
			}
			val := must(jwt.NewValidator(&jwt.ValidatorOpts{AllowMissingExpiration: true}))
			for i, h := range []*keyset.Handle{x, y} {
				ph, err := h.Public()
				if err != nil {
					return "Public: " + err.Error()
				}
				v, err := jwt.NewVerifier(ph)
				if err != nil {
					return fmt.Sprintf("NewVerifier %d: %v", i, err)
				}
				if _, err := v.VerifyAndDecode(tok, val); err != nil {
					return fmt.Sprintf("VerifyAndDecode %d: %v", i, err)
				}
			}
			return ""
		})
	case "saead":
		return both(func(x, y *keyset.Handle) string {
			px, err := streamingaead.New(x)
			if err != nil {
				return "-"
			}
			py, err := streamingaead.New(y)
			if err != nil {
				return "no primitive for the other handle: " + err.Error()
			}
			var buf bytes.Buffer
			wr, err := px.NewEncryptingWriter(&buf, ksAD)
			if err != nil {
				return "NewEncryptingWriter: " + err.Error()
			}
			pt := bytes.Repeat(ksMsg, 100)
			if _, err := wr.Write(pt); err != nil {
				return "Write: " + err.Error()
			}
			if err := wr.Close(); err != nil {
				return "Close: " + err.Error()
			}
			rd, err := py.NewDecryptingReader(bytes.NewReader(buf.Bytes()), ksAD)
			if err != nil {
				return "NewDecryptingReader: " + err.Error()
			}
			got, err := io.ReadAll(rd)
			if err != nil || !bytes.Equal(got, pt) {
				return fmt.Sprintf("decrypt: %v", err)
			}
			return ""
		})
	case "kd":
		return both(func(x, y *keyset.Handle) string {
			dx, err := keyderivation.New(x)
			if err != nil {
				return "-"
			}
			dy, err := keyderivation.New(y)
			if err != nil {
				return "no primitive for the other handle: " + err.Error()
			}
			hx, err := dx.DeriveKeyset(ksAD)
			if err != nil {
				return "-"
			}
			hy, err := dy.DeriveKeyset(ksAD)
			if err != nil {
				return "DeriveKeyset (other): " + err.Error()
			}
			return sameHandle(hx, hy)
		})
	}
	return "unknown class " + class
}

func ksLossyOf(es []ksEntry) string {
	for _, e := range es {
		if e.c.ksLossy != "" {
			return e.c.ksLossy
		}
	}
	return ""
}

// interopPublic: outputs made with the original private keyset are accepted by the re-read PUBLIC
// keyset, and outputs made for the re-read public keyset are opened by the original private one.
func interopPublic(class string, priv, pub *keyset.Handle) (res string) {
	if p := hlib.Recover(func() {
		switch class {
		case "sig":
			s, err := signature.NewSigner(priv)
			if err != nil {
				res = "-"
				return
			}
			sig, err := s.Sign(ksMsg)
			if err != nil {
				res = "Sign: " + err.Error()
				return
			}
			v, err := signature.NewVerifier(pub)
			if err != nil {
				res = "NewVerifier: " + err.Error()
				return
			}
			if err := v.Verify(sig, ksMsg); err != nil {
				res = "Verify: " + err.Error()
			}
		case "hyb":
			enc, err := hybrid.NewHybridEncrypt(pub)
			if err != nil {
				res = "-"
				return
			}
			ct, err := enc.Encrypt(ksMsg, ksAD)
			if err != nil {
				res = "Encrypt: " + err.Error()
				return
			}
			dec, err := hybrid.NewHybridDecrypt(priv)
			if err != nil {
				res = "NewHybridDecrypt: " + err.Error()
				return
			}
			if pt, err := dec.Decrypt(ct, ksAD); err != nil || !bytes.Equal(pt, ksMsg) {
				res = fmt.Sprintf("Decrypt: %v", err)
			}
		case "jwtsig":
			s, err := jwt.NewSigner(priv)
			if err != nil {
				res = "-"
				return
			}
			sub := "c12"
			tok, err := s.SignAndEncode(must(jwt.NewRawJWT(&jwt.RawJWTOptions{Subject: &sub, WithoutExpiration: true})))
			if err != nil {
				res = "SignAndEncode: " + err.Error()
				return
			}
			v, err := jwt.NewVerifier(pub)
			if err != nil {
				res = "NewVerifier: " + err.Error()
				return
			}
			if _, err := v.VerifyAndDecode(tok, must(jwt.NewValidator(&jwt.ValidatorOpts{AllowMissingExpiration: true}))); err != nil {
				res = "VerifyAndDecode: " + err.Error()
			}
		}
	}); p != "" {
		return "panic: " + p
	}
	return
}

var asymmetric = map[string]bool{"sig": true, "hyb": true, "jwtsig": true}

func describe(es []ksEntry) string {
	s := ""
	for _, e := range es {
		s += fmt.Sprintf(" {%s[%s] id=%d %v primary=%v}", e.c.typ, e.c.label, e.id, e.status, e.primary)
	}
	return s
}

// adClass is one associated-data class of the encrypted keyset writers.
type adClass struct {
	name string
	ad   []byte
}

// ksRun is the state shared by the keysets of one keyset stream: the key-encryption keys, the
// associated-data classes and the rotating (kek, ad, format, api) combination counter.
type ksRun struct {
	keks  []kek
	ads   []adClass
	combo int
	// nCombos: encrypted (kek, ad, format, api) combinations per keyset; 0 = 8 (quick) / 16 (thorough)
	nCombos int
}

func newKsRun(r *hlib.Rng) *ksRun {
	keks := makeKEKs(r)
	ads := []adClass{{"no-ad(Write)", nil}, {"empty", []byte{}}, {"short", []byte("ad")}, {"100-bytes", r.Bytes(100)}}
	return &ksRun{keks: keks, ads: ads}
}

func (w *world) keysetStream(r *hlib.Rng) {
	o := w.o
	run := newKsRun(r)
	classes := []string{"aead", "daead", "mac", "prf", "sig", "hyb", "saead", "jwtmac", "jwtsig", "kd"}
	perClass := map[string]int{"aead": 100, "daead": 40, "mac": 80, "prf": 50, "sig": 80, "hyb": 80, "saead": 40, "jwtmac": 40, "jwtsig": 50, "kd": 40}
	for _, class := range classes {
		if len(w.pools[class]) == 0 {
			o.Count("keyset-class-empty/" + class)
			continue
		}
		n := hlib.N(perClass[class], 6*perClass[class])
		for it := 0; it < n; it++ {
			o.Case()
			es, h, err := w.genKeyset(class, r)
			if err != nil {
				w.violate("keyset/build-fails/"+class, "%v", err)
				continue
			}
			w.keysetRoundTrips(run, class, it, es, h)
		}
	}
}

// keysetRoundTrips sends one keyset (built from the entries es) through every writer/reader pair:
// cleartext (binary, JSON, mem), encrypted (rotating kek × associated data × format × api),
// Public() and the public-only writers/readers, with the primitive interoperability checks.
func (w *world) keysetRoundTrips(run *ksRun, class string, it int, es []ksEntry, h *keyset.Handle) {
	o := w.o
	keks, ads := run.keks, run.ads
	{
		{
			desc := class + ":" + describe(es)
			o.Count("keyset-class/" + class)
			o.Count(fmt.Sprintf("keyset-size/%d", len(es)))
			for _, e := range es {
				o.Count("keyset-key-type/" + e.c.typ)
				o.Count(fmt.Sprintf("keyset-status/%v", e.status))
				if e.id == 0 || e.id == 0xffffffff {
					o.Count(fmt.Sprintf("keyset-special-id/%#x", e.id))
				}
			}
			if d := matchesEntries(h, es, false); d != "" {
				w.violate("keyset/manager-handle-differs-from-entries", "%s: %s", desc, d)
				return
			}
			if why := ksLossyOf(es); why != "" {
				// keysets known to be unreadable on the unchanged tree: if the first read fails the
				// class is reported once and the keyset is left; if it reads, it is an ordinary keyset
				var buf bytes.Buffer
				if err := insecurecleartextkeyset.Write(h, keyset.NewBinaryWriter(&buf)); err != nil {
					w.violate("keyset/write-fails/cleartext/binary", "%s: %v", desc, err)
					return
				}
				if _, err := insecurecleartextkeyset.Read(keyset.NewBinaryReader(&buf)); err != nil {
					w.violate("LOSSY-KEYSET "+why, "%s: insecurecleartextkeyset.Write succeeds, Read of the written bytes fails: %v", desc, err)
					return
				}
				o.Count("keyset-lossy-class-reads-now")
			}
			// which re-read handles get the (expensive) primitive interoperability check
			interopNow := func(pair string, got *keyset.Handle) {
				d := interop(class, h, got)
				switch d {
				case "":
					o.Count("interop-ok/" + class + "/" + pair)
				case "-":
					o.Count("interop-no-primitive/" + class)
				default:
					w.violate("keyset/primitives-do-not-interoperate/"+class, "%s via %s: %s", desc, pair, d)
				}
			}
			// ---- cleartext
			for fi, f := range formats {
				pair := "cleartext/" + f.name
				var buf bytes.Buffer
				mem := &keyset.MemReaderWriter{}
				if err := insecurecleartextkeyset.Write(h, f.writer(&buf, mem)); err != nil {
					w.violate("keyset/write-fails/"+pair, "%s: %v", desc, err)
					continue
				}
				got, err := insecurecleartextkeyset.Read(f.reader(&buf, mem))
				if err != nil {
					w.violate("keyset/read-fails/"+pair, "%s: %v", desc, err)
					continue
				}
				if d := sameHandle(h, got); d != "" {
					w.violate("keyset/re-read-differs/"+pair, "%s: %s", desc, d)
					continue
				}
				o.Count("wr/" + pair)
				switch f.name {
				case "binary":
					w.emitKeysetWire(desc, h, buf.Bytes())
					// written again from the re-read handle: byte-identical
					var buf2 bytes.Buffer
					if err := insecurecleartextkeyset.Write(got, keyset.NewBinaryWriter(&buf2)); err != nil || !bytes.Equal(buf.Bytes(), buf2.Bytes()) {
						w.violate("keyset/binary-rewrite-not-identical", "%s: %v", desc, err)
					}
				case "mem":
					// the Lean keyset model's view of the written proto keyset vs the re-read handle
					if kslib.Expressible(mem.Keyset) {
						o.Emit(fmt.Sprintf("K handle %d %s", mem.Keyset.GetPrimaryKeyId(), kslib.KeysTok(mem.Keyset, nil)), kslib.HandleRes(got, nil), true)
					}
					if d := sameHandle(h, insecurecleartextkeyset.KeysetHandle(proto.Clone(mem.Keyset).(*tinkpb.Keyset))); d != "" {
						w.violate("keyset/re-read-differs/cleartext/KeysetHandle", "%s: %s", desc, d)
					}
				}
				if fi == it%3 {
					interopNow(pair, got)
				}
			}
			// ---- encrypted
			total := len(keks) * len(ads) * len(formats) * 2
			nCombos := hlib.N(8, 16)
			if run.nCombos > 0 {
				nCombos = run.nCombos
			}
			_ = total
			for j := 0; j < nCombos; j++ {
				x := run.combo
				run.combo++
				kk := keks[x%len(keks)]
				adc := ads[(x/len(keks))%len(ads)]
				f := formats[(x/(len(keks)*len(ads)))%len(formats)]
				useCtx := (x/(len(keks)*len(ads)*len(formats)))%2 == 1
				api := "Write"
				if useCtx {
					api = "WriteWithContext"
				}
				pair := "encrypted/" + f.name
				var buf bytes.Buffer
				mem := &keyset.MemReaderWriter{}
				var err error
				var got *keyset.Handle
				switch {
				case useCtx:
					err = h.WriteWithContext(context.Background(), f.writer(&buf, mem), ctxAEAD{kk.a}, adc.ad)
				case adc.ad == nil:
					err = h.Write(f.writer(&buf, mem), kk.a)
				default:
					err = h.WriteWithAssociatedData(f.writer(&buf, mem), kk.a, adc.ad)
				}
				if err != nil {
					w.violate("keyset/write-fails/"+pair, "%s kek=%s ad=%s: %v", desc, kk.name, adc.name, err)
					continue
				}
				switch {
				case useCtx:
					got, err = keyset.ReadWithContext(context.Background(), f.reader(&buf, mem), ctxAEAD{kk.a}, adc.ad)
				case adc.ad == nil:
					got, err = keyset.Read(f.reader(&buf, mem), kk.a)
				default:
					got, err = keyset.ReadWithAssociatedData(f.reader(&buf, mem), kk.a, adc.ad)
				}
				if err != nil {
					w.violate("keyset/read-fails/"+pair, "%s kek=%s ad=%s: %v", desc, kk.name, adc.name, err)
					continue
				}
				if d := sameHandle(h, got); d != "" {
					w.violate("keyset/re-read-differs/"+pair, "%s kek=%s ad=%s: %s", desc, kk.name, adc.name, d)
					continue
				}
				o.Count("wr/" + pair + "/" + api)
				o.Count("kek/" + kk.name)
				o.Count("ad/" + adc.name)
				// Write (no ad) and WriteWithAssociatedData(empty) are the same thing
				if adc.ad == nil && !useCtx {
					if g2, err := keyset.ReadWithAssociatedData(f.reader(&buf, mem), kk.a, []byte{}); err != nil || sameHandle(h, g2) != "" {
						w.violate("keyset/Write-vs-empty-associated-data", "%s: %v", desc, err)
					}
				}
				// a different associated data or key-encryption key must not open it
				if _, err := keyset.ReadWithAssociatedData(f.reader(&buf, mem), kk.a, append([]byte("x"), adc.ad...)); err == nil {
					w.violate("keyset/wrong-associated-data-accepted", "%s kek=%s ad=%s", desc, kk.name, adc.name)
				} else {
					o.Count("encrypted-wrong-ad-rejected")
				}
				if _, err := keyset.ReadWithAssociatedData(f.reader(&buf, mem), keks[(x+1)%len(keks)].a, adc.ad); err == nil {
					w.violate("keyset/wrong-kek-accepted", "%s kek=%s", desc, kk.name)
				} else {
					o.Count("encrypted-wrong-kek-rejected")
				}
				if j == 0 {
					interopNow(pair+"/"+kk.name, got)
				}
			}
			// ---- public
			pub, perr := h.Public()
			if !asymmetric[class] {
				if perr == nil {
					w.violate("keyset/Public-of-symmetric-keyset-succeeds", "%s", desc)
				} else {
					o.Count("public-refused-for-symmetric/" + class)
				}
				return
			}
			if perr != nil {
				w.violate("keyset/Public-fails/"+class, "%s: %v", desc, perr)
				return
			}
			if d := matchesEntries(pub, es, true); d != "" {
				w.violate("keyset/Public-does-not-match-private-keys/"+class, "%s: %s", desc, d)
				return
			}
			o.Count("public-matches/" + class)
			if err := h.WriteWithNoSecrets(keyset.NewBinaryWriter(&bytes.Buffer{})); err == nil {
				w.violate("keyset/WriteWithNoSecrets-of-private-keyset-succeeds", "%s", desc)
			}
			for fi, f := range formats {
				pair := "public/" + f.name
				var buf bytes.Buffer
				mem := &keyset.MemReaderWriter{}
				if err := pub.WriteWithNoSecrets(f.writer(&buf, mem)); err != nil {
					w.violate("keyset/write-fails/"+pair, "%s: %v", desc, err)
					continue
				}
				got, err := keyset.ReadWithNoSecrets(f.reader(&buf, mem))
				if err != nil {
					w.violate("keyset/read-fails/"+pair, "%s: %v", desc, err)
					continue
				}
				if d := sameHandle(pub, got); d != "" {
					w.violate("keyset/re-read-differs/"+pair, "%s: %s", desc, d)
					continue
				}
				o.Count("wr/" + pair)
				if f.name == "binary" {
					w.emitKeysetWire(desc+" (public)", pub, buf.Bytes())
				}
				if fi == it%3 {
					switch d := interopPublic(class, h, got); d {
					case "":
						o.Count("interop-ok/" + class + "/" + pair)
					case "-":
						o.Count("interop-no-primitive/" + class)
					default:
						w.violate("keyset/primitives-do-not-interoperate/"+class, "%s via %s: %s", desc, pair, d)
					}
				}
				if f.name == "mem" {
					g2, err := keyset.NewHandleWithNoSecrets(proto.Clone(mem.Keyset).(*tinkpb.Keyset))
					if err != nil || sameHandle(pub, g2) != "" {
						w.violate("keyset/re-read-differs/public/NewHandleWithNoSecrets", "%s: %v", desc, err)
					} else {
						o.Count("wr/public/NewHandleWithNoSecrets")
					}
					// public of the re-read private keyset == re-read public keyset
					var b2 bytes.Buffer
					if insecurecleartextkeyset.Write(h, keyset.NewBinaryWriter(&b2)) == nil {
						if hp, err := insecurecleartextkeyset.Read(keyset.NewBinaryReader(&b2)); err == nil {
							if pp, err := hp.Public(); err != nil || sameHandle(pp, got) != "" {
								w.violate("keyset/Public-of-re-read-differs", "%s: %v", desc, err)
							}
						}
					}
				}
			}
		}
	}
}

// unserializableKeysets: a handle holding a key that SerializeKey refuses must make every writer
// fail; a writer that returns nil must have written something that reads back to the same handle.
func (w *world) unserializableKeysets(r *hlib.Rng) {
	o := w.o
	keks := makeKEKs(r)
	for _, src := range w.unser {
		o.Case()
		k := src.k
		opts := []keyset.KeyOpts{keyset.AsPrimary()}
		if _, req := k.IDRequirement(); !req {
			opts = append(opts, keyset.WithFixedID(5))
		}
		km := keyset.NewManager()
		if _, err := km.AddKeyWithOpts(k, internalapi.Token{}, opts...); err != nil {
			o.Count("unserializable-key-keyset/manager-refuses/" + src.c.typ)
			continue
		}
		h, err := km.Handle()
		if err != nil {
			o.Count("unserializable-key-keyset/manager-refuses/" + src.c.typ)
			continue
		}
		desc := fmt.Sprintf("%s[%s]", src.c.typ, src.c.label)
		type attempt struct {
			pair  string
			write func(keyset.Writer) error
			read  func(keyset.Reader) (*keyset.Handle, error)
			want  *keyset.Handle
		}
		as := []attempt{
			{"cleartext", func(wr keyset.Writer) error { return insecurecleartextkeyset.Write(h, wr) },
				func(rd keyset.Reader) (*keyset.Handle, error) { return insecurecleartextkeyset.Read(rd) }, h},
			{"encrypted", func(wr keyset.Writer) error { return h.WriteWithAssociatedData(wr, keks[0].a, []byte("ad")) },
				func(rd keyset.Reader) (*keyset.Handle, error) {
					return keyset.ReadWithAssociatedData(rd, keks[0].a, []byte("ad"))
				}, h},
		}
		if _, ok := k.(pubber); ok {
			if pub, err := h.Public(); err == nil {
				as = append(as, attempt{"public", func(wr keyset.Writer) error { return pub.WriteWithNoSecrets(wr) },
					func(rd keyset.Reader) (*keyset.Handle, error) { return keyset.ReadWithNoSecrets(rd) }, pub})
			}
		}
		for _, a := range as {
			for _, f := range formats {
				pair := a.pair + "/" + f.name
				var buf bytes.Buffer
				mem := &keyset.MemReaderWriter{}
				var werr error
				if p := hlib.Recover(func() { werr = a.write(f.writer(&buf, mem)) }); p != "" {
					w.violate("keyset/unserializable-key/writer-panics/"+pair, "%s: %s", desc, p)
					continue
				}
				if werr != nil {
					o.Count("unserializable-key-keyset/writer-reports-error/" + pair)
					continue
				}
				var got *keyset.Handle
				var rerr error
				var same string
				if p := hlib.Recover(func() {
					got, rerr = a.read(f.reader(&buf, mem))
					if rerr == nil {
						same = sameHandle(a.want, got)
					}
				}); p != "" {
					rerr = fmt.Errorf("panic: %s", p)
				}
				if rerr != nil || same != "" {
					w.violate("keyset/unserializable-key-written-silently/"+pair, "%s: the writer returned nil for a handle whose key cannot be serialized, and what it wrote does not read back: %v %s", desc, rerr, same)
				} else {
					o.Count("unserializable-key-keyset/written-and-read-back/" + pair)
				}
			}
		}
	}
}
