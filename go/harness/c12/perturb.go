//go:build verif

package main

// Stream 2: non-canonical / perturbed serializations. The perturbed message is built as a field
// tree (from the typed message of a genuine serialization), so its dump is known by construction;
// the bytes are produced with protowire. ParseKey must either reject the perturbed serialization
// or return a key whose own serialization parses back to an Equal key and re-serialises
// byte-identically. What each perturbation does to each key type is reported in the histogram.

import (
	"bytes"
	"fmt"
	"reflect"
	"sort"

	"github.com/tink-crypto/tink-go/v2/internal/protoserialization"
	"github.com/tink-crypto/tink-go/v2/internal/verifharness/hlib"
	"github.com/tink-crypto/tink-go/v2/key"
	"google.golang.org/protobuf/encoding/protowire"
	"google.golang.org/protobuf/proto"
	"google.golang.org/protobuf/reflect/protoreflect"

	tinkpb "github.com/tink-crypto/tink-go/v2/proto/tink_go_proto"
)

type perturbSrc struct {
	c *gcase
	k key.Key
	s *protoserialization.KeySerialization
}

func (w *world) keepForPerturbation(c *gcase, k key.Key, s *protoserialization.KeySerialization) {
	if s == nil || c.lossy != "" {
		return
	}
	url := s.KeyData().GetTypeUrl()
	max := 24
	if c.slow {
		max = 6
	}
	if len(w.perturb[url]) < max {
		w.perturb[url] = append(w.perturb[url], perturbSrc{c: c, k: k, s: s})
	}
}

// tnode is a field of the tree view of a typed message.
type tnode struct {
	wf
	name   string
	isEnum bool
	isMsg  bool
	isStr  bool
	desc   protoreflect.MessageDescriptor // of the sub-message
	sub    []tnode
}

func treeOf(m protoreflect.Message) []tnode {
	fs, subs, _ := fieldsOf(m, "")
	fds := m.Descriptor().Fields()
	var out []tnode
	si := 0
	for _, f := range fs {
		fd := fds.ByNumber(protoreflect.FieldNumber(f.num))
		n := tnode{wf: f, name: string(fd.Name()), isEnum: fd.Kind() == protoreflect.EnumKind, isStr: fd.Kind() == protoreflect.StringKind}
		if fd.Kind() == protoreflect.MessageKind {
			n.isMsg = true
			n.desc = fd.Message()
			n.sub = treeOf(subs[si].msg)
			si++
		}
		out = append(out, n)
	}
	return out
}

func encTree(ns []tnode) []byte {
	fs := make([]wf, len(ns))
	for i := range ns {
		if ns[i].isMsg {
			ns[i].b = encTree(ns[i].sub)
		}
		fs[i] = ns[i].wf
	}
	return encFields(fs)
}

func topOf(ns []tnode) []wf {
	fs := make([]wf, len(ns))
	for i := range ns {
		fs[i] = ns[i].wf
	}
	return fs
}

func cloneTree(ns []tnode) []tnode {
	out := make([]tnode, len(ns))
	for i, n := range ns {
		out[i] = n
		out[i].b = append([]byte(nil), n.b...)
		if n.isMsg {
			out[i].sub = cloneTree(n.sub)
		}
	}
	return out
}

// walk calls f on every node (pre-order) with a pointer into the tree.
func walk(ns []tnode, path string, f func(n *tnode, path string)) {
	for i := range ns {
		p := ns[i].name
		if path != "" {
			p = path + "." + p
		}
		f(&ns[i], p)
		if ns[i].isMsg {
			walk(ns[i].sub, p, f)
		}
	}
}

var bigIntFields = map[string]bool{"x": true, "y": true, "n": true, "e": true, "d": true, "p": true, "q": true, "dp": true, "dq": true, "crt": true,
	"key_value": true, "public_key": true, "private_key": true, "public_exponent": true}

type perturbation struct {
	kind  string
	where string
	tree  []tnode
}

// insertSorted puts a field into a field list keeping field-number order.
func insertSorted(ns []tnode, n tnode) []tnode {
	i := sort.Search(len(ns), func(i int) bool { return ns[i].num > n.num })
	out := append([]tnode{}, ns[:i]...)
	out = append(out, n)
	return append(out, ns[i:]...)
}

// perturbationsOf derives the perturbed trees of one genuine serialization.
func perturbationsOf(md protoreflect.MessageDescriptor, base []tnode, r *hlib.Rng) []perturbation {
	var out []perturbation
	// 1. an extra leading zero on every big-integer / key-material bytes field (one at a time)
	var targets []string
	walk(base, "", func(n *tnode, p string) {
		if !n.isMsg && !n.isStr && n.kind == 'b' && bigIntFields[n.name] {
			targets = append(targets, p)
		}
	})
	for _, t := range targets {
		tr := cloneTree(base)
		walk(tr, "", func(n *tnode, p string) {
			if p == t && !n.isMsg {
				n.b = append([]byte{0}, n.b...)
			}
		})
		out = append(out, perturbation{"leading-zero", t, tr})
	}
	// 2. version = 1, at the top level and in nested messages that have a version field
	addVersion := func(desc protoreflect.MessageDescriptor, ns []tnode, v uint64) ([]tnode, bool) {
		fd := desc.Fields().ByName("version")
		if fd == nil {
			return ns, false
		}
		for _, n := range ns {
			if n.num == int(fd.Number()) {
				return ns, false
			}
		}
		return insertSorted(ns, tnode{wf: wf{num: int(fd.Number()), kind: 'v', u: v}, name: "version"}), true
	}
	if tr, ok := addVersion(md, cloneTree(base), 1); ok {
		out = append(out, perturbation{"version-1", "", tr})
	}
	if tr, ok := addVersion(md, cloneTree(base), 0); ok {
		out = append(out, perturbation{"explicit-default-version-0", "", tr})
	}
	{
		tr := cloneTree(base)
		for i := range tr {
			if tr[i].isMsg {
				if sub, ok := addVersion(tr[i].desc, tr[i].sub, 1); ok {
					tr[i].sub = sub
					out = append(out, perturbation{"version-1", tr[i].name, tr})
					break
				}
			}
		}
	}
	// 3. an unknown enum value (one enum field at a time)
	var enums []string
	walk(base, "", func(n *tnode, p string) {
		if n.isEnum {
			enums = append(enums, p)
		}
	})
	for _, t := range enums {
		tr := cloneTree(base)
		walk(tr, "", func(n *tnode, p string) {
			if p == t {
				n.u = 99
			}
		})
		out = append(out, perturbation{"unknown-enum", t, tr})
	}
	// 4. a trailing unknown field
	{
		tr := append(cloneTree(base), tnode{wf: wf{num: 1000, kind: 'v', u: 7}, name: "?1000"})
		out = append(out, perturbation{"trailing-unknown-field", "", tr})
		tr2 := append(cloneTree(base), tnode{wf: wf{num: 15, kind: 'b', b: r.Bytes(1 + r.Intn(8))}, name: "?15"})
		out = append(out, perturbation{"trailing-unknown-field", "bytes", tr2})
	}
	// 5. fields re-ordered
	if len(base) >= 2 {
		tr := cloneTree(base)
		for i, j := 0, len(tr)-1; i < j; i, j = i+1, j-1 {
			tr[i], tr[j] = tr[j], tr[i]
		}
		out = append(out, perturbation{"reordered", "reversed", tr})
	}
	// 6. a scalar field given twice (the last one wins in protobuf)
	for i := range base {
		if !base[i].isMsg {
			tr := cloneTree(base)
			dup := tr[i]
			dup.b = append([]byte(nil), tr[i].b...)
			if dup.kind == 'b' && len(dup.b) > 0 {
				tr[i].b[0] ^= 0xff // the first occurrence is a decoy
			} else if dup.kind == 'v' {
				tr[i].u++
			}
			tr = append(tr[:i+1], append([]tnode{dup}, tr[i+1:]...)...)
			out = append(out, perturbation{"duplicate-field-last-wins", base[i].name, tr})
			break
		}
	}
	return out
}

func (w *world) tryParse(s *protoserialization.KeySerialization) (k key.Key, err error, pan string) {
	pan = hlib.Recover(func() { k, err = protoserialization.ParseKey(s) })
	return
}

// settle checks the property on a key obtained from a non-canonical serialization: its own
// serialization must parse to an Equal key and re-serialise byte-identically.
func (w *world) settle(class, ctx string, k key.Key) {
	s2, err := protoserialization.SerializeKey(k)
	if err != nil {
		w.violate("perturbed/accepted-key-does-not-serialize/"+class, "%s: %v", ctx, err)
		return
	}
	k3, err, pan := w.tryParse(s2)
	if err != nil || pan != "" {
		w.violate("perturbed/re-serialisation-does-not-parse/"+class, "%s: %v %s", ctx, err, pan)
		return
	}
	if !k3.Equal(k) || !k.Equal(k3) {
		w.violate("perturbed/re-serialisation-parses-to-different-key/"+class, "%s", ctx)
		return
	}
	s3, err := protoserialization.SerializeKey(k3)
	if err != nil || serEqual(s2, s3) != "" {
		w.violate("perturbed/re-serialisation-not-stable/"+class, "%s", ctx)
	}
}

func (w *world) perturbStream(r *hlib.Rng) {
	o := w.o
	var urls []string
	for u := range w.perturb {
		urls = append(urls, u)
	}
	sort.Strings(urls)
	perType := hlib.N(3, 24)
	for _, url := range urls {
		srcs := w.perturb[url]
		tname := typeOfURL(url)
		for n := 0; n < perType && n < len(srcs); n++ {
			src := srcs[(n*7+r.Intn(len(srcs)))%len(srcs)]
			kd := src.s.KeyData()
			m, err := newMsgForURL(url)
			if err != nil || proto.Unmarshal(kd.GetValue(), m.Interface()) != nil {
				continue
			}
			base := treeOf(m)
			id, _ := src.s.IDRequirement()
			mk := func(val []byte) *protoserialization.KeySerialization {
				s, err := protoserialization.NewKeySerialization(&tinkpb.KeyData{TypeUrl: url, Value: val, KeyMaterialType: kd.GetKeyMaterialType()}, src.s.OutputPrefixType(), id)
				if err != nil {
					panic(err)
				}
				return s
			}
			for _, pt := range perturbationsOf(m.Descriptor(), base, r) {
				o.Case()
				val := encTree(pt.tree)
				ctx := fmt.Sprintf("%s[%s] %s %s value=%x prefix=%d id=%d", src.c.typ, src.c.label, pt.kind, pt.where, val, src.s.OutputPrefixType(), id)
				o.Emit("P wire "+hexTok(val), "ok "+showFields(topOf(pt.tree)), true)
				k2, err, pan := w.tryParse(mk(val))
				outcome := ""
				switch {
				case pan != "":
					w.violate("perturbed/ParseKey-panics/"+tname, "%s: %s", ctx, pan)
					outcome = "panic"
				case err != nil:
					outcome = "rejected"
				default:
					w.settle(tname+"/"+pt.kind, ctx, k2)
					if k2.Equal(src.k) && src.k.Equal(k2) {
						outcome = "accepted-equal-to-original"
					} else {
						outcome = "accepted-different-key"
					}
				}
				o.Count(fmt.Sprintf("perturb/%s/%s/%s", pt.kind, tname, outcome))
				o.Count(fmt.Sprintf("perturb-summary/%s/%s", pt.kind, outcome))
			}
			// raw byte-level damage: the typed parser's verdict is the implementation's answer
			for _, raw := range []struct {
				kind string
				b    []byte
			}{
				{"trailing-garbage-00", append(append([]byte{}, kd.GetValue()...), 0)},
				{"trailing-garbage-ff", append(append([]byte{}, kd.GetValue()...), 0xff)},
				{"truncated", kd.GetValue()[:max(0, len(kd.GetValue())-1)]},
			} {
				o.Case()
				m2, _ := newMsgForURL(url)
				uerr := proto.Unmarshal(raw.b, m2.Interface())
				if uerr != nil {
					o.Emit("P wire "+hexTok(raw.b), "reject", true)
				} else if again, err := proto.Marshal(m2.Interface()); err == nil && bytes.Equal(again, raw.b) && len(m2.GetUnknown()) == 0 {
					fs, _, _ := fieldsOf(m2, "")
					o.Emit("P wire "+hexTok(raw.b), "ok "+showFields(fs), true)
				} else {
					o.Count("perturb/" + raw.kind + "/typed-parser-accepts-non-canonical-no-line")
				}
				k2, err, pan := w.tryParse(mk(raw.b))
				outcome := "rejected"
				if pan != "" {
					w.violate("perturbed/ParseKey-panics/"+tname, "%s %x: %s", raw.kind, raw.b, pan)
					outcome = "panic"
				} else if err == nil {
					w.settle(tname+"/"+raw.kind, fmt.Sprintf("%s %s value=%x", tname, raw.kind, raw.b), k2)
					outcome = "accepted"
				}
				o.Count(fmt.Sprintf("perturb/%s/%s/%s", raw.kind, tname, outcome))
				o.Count(fmt.Sprintf("perturb-summary/%s/%s", raw.kind, outcome))
			}
			// a non-minimal varint (Go side only: the strict Lean decoder rejects it by design):
			// version = 0 written as 0x80 0x00 in front of the genuine bytes
			if fd := m.Descriptor().Fields().ByName("version"); fd != nil {
				nm := protowire.AppendTag(nil, fd.Number(), protowire.VarintType)
				nm = append(nm, 0x80, 0x00)
				nm = append(nm, kd.GetValue()...)
				k2, err, pan := w.tryParse(mk(nm))
				outcome := "rejected"
				if pan != "" {
					w.violate("perturbed/ParseKey-panics/"+tname, "non-minimal varint %x: %s", nm, pan)
				} else if err == nil {
					w.settle(tname+"/non-minimal-varint", fmt.Sprintf("%s value=%x", tname, nm), k2)
					outcome = "accepted-different-key"
					if k2.Equal(src.k) {
						outcome = "accepted-equal-to-original"
					}
				}
				o.Count(fmt.Sprintf("perturb-summary/non-minimal-varint(go-only)/%s", outcome))
			}
		}
	}
}

// fallbackKeys: key types without a registered parser (KMS AEAD, KMS envelope AEAD, an unknown
// type URL) go through the fallback proto key.
func (w *world) fallbackKeys() {
	o := w.o
	cases := []struct {
		name string
		kd   *tinkpb.KeyData
	}{
		{"KmsAeadKey", kslibKeyData(urlPrefix+"KmsAeadKey", encFields([]wf{{num: 2, kind: 'b', b: encFields([]wf{{num: 1, kind: 'b', b: []byte("fake-kms://some/key/uri")}})}}), tinkpb.KeyData_REMOTE)},
		{"KmsEnvelopeAeadKey", kslibKeyData(urlPrefix+"KmsEnvelopeAeadKey", encFields([]wf{{num: 2, kind: 'b', b: encFields([]wf{
			{num: 1, kind: 'b', b: []byte("fake-kms://kek")},
			{num: 2, kind: 'b', b: encFields([]wf{{num: 1, kind: 'b', b: []byte(urlPrefix + "AesGcmKey")}, {num: 2, kind: 'b', b: []byte{0x10, 0x10}}, {num: 3, kind: 'v', u: 1}})},
		})}}), tinkpb.KeyData_REMOTE)},
		{"unknown-type-url", kslibKeyData("type.googleapis.com/example.UnknownSymmetricKey", []byte{1, 2, 3}, tinkpb.KeyData_SYMMETRIC)},
		{"unknown-type-url-private", kslibKeyData("type.googleapis.com/example.UnknownPrivateKey", []byte{4, 5, 6}, tinkpb.KeyData_ASYMMETRIC_PRIVATE)},
	}
	for _, c := range cases {
		for _, pf := range []tinkpb.OutputPrefixType{tinkpb.OutputPrefixType_TINK, tinkpb.OutputPrefixType_LEGACY, tinkpb.OutputPrefixType_RAW, tinkpb.OutputPrefixType_CRUNCHY} {
			for _, id := range []uint32{0, 1, 0x7fffffff, 0xffffffff} {
				if pf == tinkpb.OutputPrefixType_RAW && id != 0 {
					continue
				}
				o.Case()
				s1, err := protoserialization.NewKeySerialization(proto.Clone(c.kd).(*tinkpb.KeyData), pf, id)
				if err != nil {
					continue
				}
				k, err, pan := w.tryParse(s1)
				if err != nil || pan != "" {
					w.violate("fallback/ParseKey-fails/"+c.name, "%v %s", err, pan)
					continue
				}
				o.Count(fmt.Sprintf("fallback/%s/%T", c.name, k))
				s2, err := protoserialization.SerializeKey(k)
				if err != nil {
					w.violate("fallback/SerializeKey-fails/"+c.name, "%v", err)
					continue
				}
				w.used["keyserializer|"+reflect.TypeOf(k).String()] = true
				if d := serEqual(s1, s2); d != "" {
					w.violate("fallback/serialization-differs/"+c.name, "%s", d)
				}
				k2, err, _ := w.tryParse(s2)
				if err != nil || !k2.Equal(k) || !k.Equal(k2) {
					w.violate("fallback/not-Equal-after-round-trip/"+c.name, "%v", err)
				}
				kid, req := k.IDRequirement()
				if req != (pf != tinkpb.OutputPrefixType_RAW) || kid != id {
					w.violate("fallback/id-requirement/"+c.name, "got (%d,%v) for prefix %v id %d", kid, req, pf, id)
				}
				if m, err := newMsgForURL(c.kd.GetTypeUrl()); err == nil && proto.Unmarshal(c.kd.GetValue(), m.Interface()) == nil {
					w.emitWire("fallback "+c.name, m, c.kd.GetValue(), true)
				}
			}
		}
	}
}

func kslibKeyData(url string, val []byte, kmt tinkpb.KeyData_KeyMaterialType) *tinkpb.KeyData {
	return &tinkpb.KeyData{TypeUrl: url, Value: val, KeyMaterialType: kmt}
}
