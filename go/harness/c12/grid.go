//go:build verif

package main

// The grid: for every key type registered in protoserialization, the valid parameter combinations
// reachable through the public NewParameters constructors, and how to make keys for them.

import (
	"crypto/ecdh"
	"crypto/rand"
	"crypto/rsa"
	"fmt"
	"math/big"
	"reflect"

	"github.com/tink-crypto/tink-go/v2/aead/aesctrhmac"
	"github.com/tink-crypto/tink-go/v2/aead/aesgcm"
	"github.com/tink-crypto/tink-go/v2/aead/aesgcmsiv"
	"github.com/tink-crypto/tink-go/v2/aead/chacha20poly1305"
	"github.com/tink-crypto/tink-go/v2/aead/xaesgcm"
	"github.com/tink-crypto/tink-go/v2/aead/xchacha20poly1305"
	"github.com/tink-crypto/tink-go/v2/daead/aessiv"
	"github.com/tink-crypto/tink-go/v2/hybrid/ecies"
	"github.com/tink-crypto/tink-go/v2/hybrid/hpke"
	"github.com/tink-crypto/tink-go/v2/internal/keygenregistry"
	"github.com/tink-crypto/tink-go/v2/internal/verifharness/hlib"
	"github.com/tink-crypto/tink-go/v2/jwt/jwtecdsa"
	"github.com/tink-crypto/tink-go/v2/jwt/jwthmac"
	"github.com/tink-crypto/tink-go/v2/jwt/jwtmldsa"
	"github.com/tink-crypto/tink-go/v2/jwt/jwtrsassapkcs1"
	"github.com/tink-crypto/tink-go/v2/jwt/jwtrsassapss"
	"github.com/tink-crypto/tink-go/v2/key"
	"github.com/tink-crypto/tink-go/v2/keyderivation/prfbasedkeyderivation"
	"github.com/tink-crypto/tink-go/v2/mac/aescmac"
	"github.com/tink-crypto/tink-go/v2/mac/hmac"
	"github.com/tink-crypto/tink-go/v2/prf/aescmacprf"
	"github.com/tink-crypto/tink-go/v2/prf/hkdfprf"
	"github.com/tink-crypto/tink-go/v2/prf/hmacprf"
	"github.com/tink-crypto/tink-go/v2/secretdata"
	"github.com/tink-crypto/tink-go/v2/signature/compositemldsa"
	"github.com/tink-crypto/tink-go/v2/signature/ecdsa"
	"github.com/tink-crypto/tink-go/v2/signature/ed25519"
	"github.com/tink-crypto/tink-go/v2/signature/mldsa"
	"github.com/tink-crypto/tink-go/v2/signature/rsassapkcs1"
	"github.com/tink-crypto/tink-go/v2/signature/rsassapss"
	"github.com/tink-crypto/tink-go/v2/signature/slhdsa"
	streamctr "github.com/tink-crypto/tink-go/v2/streamingaead/aesctrhmac"
	streamgcm "github.com/tink-crypto/tink-go/v2/streamingaead/aesgcmhkdf"
)

// gcase is one grid point: parameters plus a way to make a key for a given id requirement.
type gcase struct {
	typ    string // key type (proto message name of the symmetric / private key)
	class  string // primitive class for the keyset stream: aead daead mac sig hyb prf saead jwtmac jwtsig kd
	label  string
	params key.Parameters
	// mk makes a key with the given id requirement (0 when the parameters have none);
	// nil: keygenregistry.CreateKey.
	mk  func(id uint32) (key.Key, error)
	mat string // key material class ("fresh", "lz-d", "lz-x", "lz-y", "lz-dp/dq", "lz-rsa-d", …)
	// lossy: this valid combination cannot be represented in the proto (the serializer drops a
	// parameter); the harness still runs the property check on it and reports the class.
	lossy string
	// noser: the serializer is known to refuse this valid combination (used only to keep such
	// keys out of the keyset stream; the refusal itself is reported as UNSERIALIZABLE).
	noser string
	// docUnserKey / docUnserParams: the three documented classes for which an explicit serializer
	// ERROR is only counted, not reported: AES-GCM with IV size != 12 or tag size != 16 (key and
	// parameters), JWT parameters with the CustomKID strategy (parameters only), and RSA-SSA-PSS
	// keys with salt length 0 (keys only; the salt-0 behaviour itself is a recorded C03 finding).
	docUnserKey    string
	docUnserParams string
	// noKeyset: leave out of the keyset stream (no primitive, too slow, or lossy).
	noKeyset bool
	// paramsLossy: SerializeParameters/ParseParameters cannot give back Equal parameters.
	paramsLossy string
	// ksLossy: a keyset holding such a key can be written but is refused by every reader.
	ksLossy string
	slow    bool
}

func must[T any](v T, err error) T {
	if err != nil {
		panic(err)
	}
	return v
}

// keygenRefused counts, per key type, the valid parameter combinations that the library's own key
// generator (keygenregistry.CreateKey) refuses; the harness then builds the key with NewKey from
// random bytes.
var keygenRefused = map[string]int{}

func (c *gcase) make(id uint32) (k key.Key, err error) {
	if p := hlib.Recover(func() {
		if c.mk != nil {
			k, err = c.mk(id)
			return
		}
		k, err = keygenregistry.CreateKey(c.params, id)
		if err != nil {
			if k2, ok, err2 := directKey(c.params, id); ok {
				keygenRefused[c.typ]++
				k, err = k2, err2
			}
		}
	}); p != "" {
		return nil, fmt.Errorf("panic: %s", p)
	}
	return
}

func randSecret(n int) secretdata.Bytes {
	b := make([]byte, n)
	rand.Read(b)
	return hlib.Secret(b)
}

// directKey builds a key for symmetric parameters from random bytes with the public NewKey
// constructors (no key-generator policy in between).
func directKey(p key.Parameters, id uint32) (key.Key, bool, error) {
	switch p := p.(type) {
	case *aesgcm.Parameters:
		k, err := aesgcm.NewKey(randSecret(p.KeySizeInBytes()), id, p)
		return k, true, err
	case *aesgcmsiv.Parameters:
		k, err := aesgcmsiv.NewKey(randSecret(p.KeySizeInBytes()), id, p)
		return k, true, err
	case *aesctrhmac.Parameters:
		k, err := aesctrhmac.NewKey(aesctrhmac.KeyOpts{AESKeyBytes: randSecret(p.AESKeySizeInBytes()), HMACKeyBytes: randSecret(p.HMACKeySizeInBytes()), IDRequirement: id, Parameters: p})
		return k, true, err
	case *aessiv.Parameters:
		k, err := aessiv.NewKey(randSecret(p.KeySizeInBytes()), id, p)
		return k, true, err
	case *hmac.Parameters:
		k, err := hmac.NewKey(randSecret(p.KeySizeInBytes()), p, id)
		return k, true, err
	case *aescmac.Parameters:
		k, err := aescmac.NewKey(randSecret(p.KeySizeInBytes()), p, id)
		return k, true, err
	case *hkdfprf.Parameters:
		k, err := hkdfprf.NewKey(randSecret(p.KeySizeInBytes()), p)
		return k, true, err
	case *hmacprf.Parameters:
		k, err := hmacprf.NewKey(randSecret(p.KeySizeInBytes()), p)
		return k, true, err
	case *aescmacprf.Parameters:
		k, err := aescmacprf.NewKey(randSecret(p.KeySizeInBytes()))
		return k, true, err
	case *streamgcm.Parameters:
		k, err := streamgcm.NewKey(p, randSecret(p.KeySizeInBytes()))
		return k, true, err
	case *streamctr.Parameters:
		k, err := streamctr.NewKey(p, randSecret(p.KeySizeInBytes()))
		return k, true, err
	case *prfbasedkeyderivation.Parameters:
		pk, ok, err := directKey(p.PRFParameters(), 0)
		if !ok || err != nil {
			return nil, ok, err
		}
		k, err := prfbasedkeyderivation.NewKey(p, pk, id)
		return k, true, err
	}
	return nil, false, nil
}

// ---------------------------------------------------------------- cached expensive material

type rsaMat struct {
	bits    int
	p, q, n *big.Int
	lam     *big.Int
	lzE     []int // public exponents whose d / dp / dq has a leading zero byte when padded
	lzWhat  []string
}

func (m *rsaMat) d(e int) *big.Int {
	return new(big.Int).ModInverse(big.NewInt(int64(e)), m.lam)
}

var rsaCache = map[int]*rsaMat{}

func rsaMaterial(bits int) *rsaMat {
	if m, ok := rsaCache[bits]; ok {
		return m
	}
	k, err := rsa.GenerateKey(rand.Reader, bits)
	if err != nil {
		panic(err)
	}
	m := rsaMatOf(bits, k.Primes[0], k.Primes[1])
	rsaCache[bits] = m
	return m
}

// rsaMatOf derives the cached material (modulus, λ(n), exponents giving leading zeros) of the primes.
func rsaMatOf(bits int, p, q *big.Int) *rsaMat {
	one := big.NewInt(1)
	p1, q1 := new(big.Int).Sub(p, one), new(big.Int).Sub(q, one)
	g := new(big.Int).GCD(nil, nil, p1, q1)
	lam := new(big.Int).Div(new(big.Int).Mul(p1, q1), g)
	m := &rsaMat{bits: bits, p: p, q: q, n: new(big.Int).Mul(p, q), lam: lam}
	// look for exponents that give values needing a leading zero in the fixed-width encodings
	nl, pl, ql := len(m.n.Bytes()), len(p.Bytes()), len(q.Bytes())
	found := map[string]bool{}
	for e := 65539; e < 65539+2*6000 && len(found) < 3; e += 2 {
		d := m.d(e)
		if d == nil {
			continue
		}
		what := ""
		switch {
		case len(d.Bytes()) < nl && !found["d"]:
			what = "d"
		case len(new(big.Int).Mod(d, p1).Bytes()) < pl && !found["dp"]:
			what = "dp"
		case len(new(big.Int).Mod(d, q1).Bytes()) < ql && !found["dq"]:
			what = "dq"
		}
		if what != "" {
			found[what] = true
			m.lzE = append(m.lzE, e)
			m.lzWhat = append(m.lzWhat, what)
		}
	}
	return m
}

// primeWithShortCRTExponent constructs a prime p of the given bit size such that
// e^-1 mod (p-1) is at least one byte shorter than p: choose the short exponent dp first, then
// look for a divisor k of e*dp-1 with p = (e*dp-1)/k + 1 prime (so that e*dp ≡ 1 mod p-1).
func primeWithShortCRTExponent(r *hlib.Rng, bits int, e int64) *big.Int {
	E := big.NewInt(e)
	one := big.NewInt(1)
	for try := 0; try < 200000; try++ {
		b := r.Bytes(bits/8 - 1)
		b[0] |= 0x80
		b[len(b)-1] |= 1
		dp := new(big.Int).SetBytes(b)
		M := new(big.Int).Mul(E, dp)
		M.Sub(M, one)
		lo := new(big.Int).Rsh(M, uint(bits)).Int64()
		hi := new(big.Int).Rsh(M, uint(bits-1)).Int64()
		for k := lo; k <= hi+1; k++ {
			if k < 1 {
				continue
			}
			K := big.NewInt(k)
			if new(big.Int).Mod(M, K).Sign() != 0 {
				continue
			}
			p := new(big.Int).Div(M, K)
			p.Add(p, one)
			if p.BitLen() != bits || p.Bit(0) == 0 || p.Bit(bits-2) == 0 {
				continue
			}
			if p.ProbablyPrime(20) {
				return p
			}
		}
	}
	panic("c12: no prime with a short CRT exponent found")
}

// rsaMaterialShortCRT is a 2048-bit RSA key for e = 65537 whose dp AND dq need a leading zero byte
// in the fixed-width encoding used by the RSA private key protos.
func rsaMaterialShortCRT() *rsaMat {
	if m, ok := rsaCache[-2048]; ok {
		return m
	}
	r := hlib.NewRng(*hlib.FlagSeed, "c12/rsa-short-crt")
	one := big.NewInt(1)
	for {
		p := primeWithShortCRTExponent(r, 1024, 65537)
		q := primeWithShortCRTExponent(r, 1024, 65537)
		n := new(big.Int).Mul(p, q)
		if p.Cmp(q) == 0 || n.BitLen() != 2048 {
			continue
		}
		p1, q1 := new(big.Int).Sub(p, one), new(big.Int).Sub(q, one)
		g := new(big.Int).GCD(nil, nil, p1, q1)
		m := &rsaMat{bits: 2048, p: p, q: q, n: n, lam: new(big.Int).Div(new(big.Int).Mul(p1, q1), g)}
		if m.d(65537) == nil {
			continue
		}
		rsaCache[-2048] = m
		return m
	}
}

type ecMat struct{ dLZ, dX, dY []byte }

var ecCache = map[string]*ecMat{}

func ecdhCurve(name string) ecdh.Curve {
	switch name {
	case "NIST_P256":
		return ecdh.P256()
	case "NIST_P384":
		return ecdh.P384()
	case "NIST_P521":
		return ecdh.P521()
	}
	panic("curve " + name)
}

// ecMaterial finds, deterministically from the seed, private scalars whose own encoding starts
// with zero bytes, and scalars whose public x (resp. y) coordinate starts with a zero byte.
func ecMaterial(curve string) *ecMat {
	if m, ok := ecCache[curve]; ok {
		return m
	}
	c := ecdhCurve(curve)
	n := ecCoordSize(curve)
	r := hlib.NewRng(*hlib.FlagSeed, "c12/ec/"+curve)
	m := &ecMat{}
	for try := 0; try < 200000 && (m.dX == nil || m.dY == nil || m.dLZ == nil); try++ {
		d := r.Bytes(n)
		if curve == "NIST_P521" {
			d[0] &= 1
		}
		lz := m.dLZ == nil && try%3 == 0
		if lz {
			d[0], d[1] = 0, 0
		}
		sk, err := c.NewPrivateKey(d)
		if err != nil {
			continue
		}
		pub := sk.PublicKey().Bytes()
		switch {
		case lz:
			m.dLZ = d
		case pub[1] == 0 && m.dX == nil:
			m.dX = d
		case pub[1+n] == 0 && m.dY == nil:
			m.dY = d
		}
	}
	if m.dX == nil || m.dY == nil || m.dLZ == nil {
		panic("c12: no leading-zero EC material found for " + curve)
	}
	ecCache[curve] = m
	return m
}

func pubPoint(curve string, d []byte) []byte {
	return must(ecdhCurve(curve).NewPrivateKey(d)).PublicKey().Bytes()
}

type slhKey struct{ priv []byte }

var slhCache = map[string]*slhKey{}

func slhMaterial(p *slhdsa.Parameters) []byte {
	id := fmt.Sprintf("%v/%d/%v", p.HashType(), p.KeySize(), p.SignatureType())
	if k, ok := slhCache[id]; ok {
		return k.priv
	}
	np := must(slhdsa.NewParameters(p.HashType(), p.KeySize(), p.SignatureType(), slhdsa.VariantNoPrefix))
	k := must(keygenregistry.CreateKey(np, 0)).(*slhdsa.PrivateKey)
	slhCache[id] = &slhKey{priv: sd(k.PrivateKeyBytes())}
	return slhCache[id].priv
}

// ---------------------------------------------------------------- grids

var quickTier bool

// thin keeps every n-th element in the quick tier (rotating offset so that all values of a
// dimension still occur), everything in the thorough tier.
func thin(cs []gcase, n int) []gcase {
	if !quickTier || n <= 1 {
		return cs
	}
	var out []gcase
	i := 0
	for _, c := range cs {
		if c.mat != "" && c.mat != "fresh" {
			out = append(out, c) // special key material is never thinned out
			continue
		}
		if i%n == (i/n)%n {
			out = append(out, c)
		}
		i++
	}
	return out
}

func gridAESGCM() (out []gcase) {
	for _, ks := range []int{16, 24, 32} {
		for _, iv := range []int{12, 1, 13, 16, 96} {
			for _, tag := range []int{16, 12, 13, 14, 15} {
				for _, v := range []aesgcm.Variant{aesgcm.VariantTink, aesgcm.VariantCrunchy, aesgcm.VariantNoPrefix} {
					p, err := aesgcm.NewParameters(aesgcm.ParametersOpts{KeySizeInBytes: ks, IVSizeInBytes: iv, TagSizeInBytes: tag, Variant: v})
					if err != nil {
						continue
					}
					c := gcase{typ: "AesGcmKey", class: "aead", label: fmt.Sprintf("k%d/iv%d/tag%d/%v", ks, iv, tag, v), params: p}
					if iv != 12 || tag != 16 {
						c.lossy = "AesGcmKey: iv size != 12 or tag size != 16 is not representable in the proto"
						c.paramsLossy = c.lossy
						c.docUnserKey, c.docUnserParams = "aes-gcm-iv-size-not-12-or-tag-size-not-16", "aes-gcm-iv-size-not-12-or-tag-size-not-16"
						c.noKeyset = true
					}
					if ks == 24 {
						c.noKeyset = true // no primitive for 24-byte keys
					}
					out = append(out, c)
				}
			}
		}
	}
	// keep all representable points, thin the lossy ones
	var keep, lossy []gcase
	for _, c := range out {
		if c.lossy == "" {
			keep = append(keep, c)
		} else {
			lossy = append(lossy, c)
		}
	}
	return append(keep, thin(lossy, 6)...)
}

func gridAESGCMSIV() (out []gcase) {
	for _, ks := range []int{16, 32} {
		for _, v := range []aesgcmsiv.Variant{aesgcmsiv.VariantTink, aesgcmsiv.VariantCrunchy, aesgcmsiv.VariantNoPrefix} {
			out = append(out, gcase{typ: "AesGcmSivKey", class: "aead", label: fmt.Sprintf("k%d/%v", ks, v), params: must(aesgcmsiv.NewParameters(ks, v))})
		}
	}
	return
}

func gridAESCTRHMAC() (out []gcase) {
	maxTag := map[aesctrhmac.HashType]int{aesctrhmac.SHA1: 20, aesctrhmac.SHA224: 28, aesctrhmac.SHA256: 32, aesctrhmac.SHA384: 48, aesctrhmac.SHA512: 64}
	for _, aes := range []int{16, 24, 32} {
		for _, hk := range []int{16, 32, 33, 64} {
			for iv := 12; iv <= 16; iv++ {
				for _, h := range []aesctrhmac.HashType{aesctrhmac.SHA1, aesctrhmac.SHA224, aesctrhmac.SHA256, aesctrhmac.SHA384, aesctrhmac.SHA512} {
					for _, tag := range []int{10, 16, maxTag[h]} {
						for _, v := range []aesctrhmac.Variant{aesctrhmac.VariantTink, aesctrhmac.VariantCrunchy, aesctrhmac.VariantNoPrefix} {
							p, err := aesctrhmac.NewParameters(aesctrhmac.ParametersOpts{AESKeySizeInBytes: aes, HMACKeySizeInBytes: hk, IVSizeInBytes: iv,
								TagSizeInBytes: tag, HashType: h, Variant: v})
							if err != nil {
								continue
							}
							out = append(out, gcase{typ: "AesCtrHmacAeadKey", class: "aead", label: fmt.Sprintf("aes%d/hmac%d/iv%d/%v/tag%d/%v", aes, hk, iv, h, tag, v),
								params: p, noKeyset: aes == 24})
						}
					}
				}
			}
		}
	}
	return thin(out, 2)
}

func gridChaCha() (out []gcase) {
	for _, v := range []chacha20poly1305.Variant{chacha20poly1305.VariantTink, chacha20poly1305.VariantCrunchy, chacha20poly1305.VariantNoPrefix} {
		out = append(out, gcase{typ: "ChaCha20Poly1305Key", class: "aead", label: fmt.Sprint(v), params: must(chacha20poly1305.NewParameters(v))})
	}
	for _, v := range []xchacha20poly1305.Variant{xchacha20poly1305.VariantTink, xchacha20poly1305.VariantCrunchy, xchacha20poly1305.VariantNoPrefix} {
		out = append(out, gcase{typ: "XChaCha20Poly1305Key", class: "aead", label: fmt.Sprint(v), params: must(xchacha20poly1305.NewParameters(v))})
	}
	for _, v := range []xaesgcm.Variant{xaesgcm.VariantTink, xaesgcm.VariantNoPrefix} {
		for salt := 8; salt <= 12; salt++ {
			out = append(out, gcase{typ: "XAesGcmKey", class: "aead", label: fmt.Sprintf("salt%d/%v", salt, v), params: must(xaesgcm.NewParameters(v, salt))})
		}
	}
	return
}

func gridAESSIV() (out []gcase) {
	for _, ks := range []int{32, 48, 64} {
		for _, v := range []aessiv.Variant{aessiv.VariantTink, aessiv.VariantCrunchy, aessiv.VariantNoPrefix} {
			out = append(out, gcase{typ: "AesSivKey", class: "daead", label: fmt.Sprintf("k%d/%v", ks, v), params: must(aessiv.NewParameters(ks, v)), noKeyset: ks != 64})
		}
	}
	return
}

func gridMAC() (out []gcase) {
	maxTag := map[hmac.HashType]int{hmac.SHA1: 20, hmac.SHA224: 28, hmac.SHA256: 32, hmac.SHA384: 48, hmac.SHA512: 64}
	var hm []gcase
	for _, ks := range []int{16, 20, 32, 63, 64, 65, 129} {
		for _, h := range []hmac.HashType{hmac.SHA1, hmac.SHA224, hmac.SHA256, hmac.SHA384, hmac.SHA512} {
			for _, tag := range []int{10, 16, maxTag[h] - 1, maxTag[h]} {
				for _, v := range []hmac.Variant{hmac.VariantTink, hmac.VariantCrunchy, hmac.VariantLegacy, hmac.VariantNoPrefix} {
					p := must(hmac.NewParameters(hmac.ParametersOpts{KeySizeInBytes: ks, TagSizeInBytes: tag, HashType: h, Variant: v}))
					hm = append(hm, gcase{typ: "HmacKey", class: "mac", label: fmt.Sprintf("k%d/%v/tag%d/%v", ks, h, tag, v), params: p})
				}
			}
		}
	}
	out = thin(hm, 2)
	for _, ks := range []int{16, 32} {
		for tag := 10; tag <= 16; tag++ {
			for _, v := range []aescmac.Variant{aescmac.VariantTink, aescmac.VariantCrunchy, aescmac.VariantLegacy, aescmac.VariantNoPrefix} {
				p := must(aescmac.NewParameters(aescmac.ParametersOpts{KeySizeInBytes: ks, TagSizeInBytes: tag, Variant: v}))
				out = append(out, gcase{typ: "AesCmacKey", class: "mac", label: fmt.Sprintf("k%d/tag%d/%v", ks, tag, v), params: p, noKeyset: ks != 32})
			}
		}
	}
	return
}

func gridPRF(r *hlib.Rng) (out []gcase) {
	salts := [][]byte{nil, {}, []byte("s"), r.Bytes(20), r.Bytes(100), r.Bytes(300)}
	for _, ks := range []int{16, 32, 33, 64, 128} {
		for _, h := range []hkdfprf.HashType{hkdfprf.SHA1, hkdfprf.SHA224, hkdfprf.SHA256, hkdfprf.SHA384, hkdfprf.SHA512} {
			for si, s := range salts {
				out = append(out, gcase{typ: "HkdfPrfKey", class: "prf", label: fmt.Sprintf("k%d/%v/salt%d:%d", ks, h, si, len(s)), params: must(hkdfprf.NewParameters(ks, h, s)),
					noKeyset: ks < 32 || (h != hkdfprf.SHA256 && h != hkdfprf.SHA512)})
			}
		}
	}
	out = thin(out, 2)
	for _, ks := range []int{16, 32, 33, 64, 128} {
		for _, h := range []hmacprf.HashType{hmacprf.SHA1, hmacprf.SHA224, hmacprf.SHA256, hmacprf.SHA384, hmacprf.SHA512} {
			out = append(out, gcase{typ: "HmacPrfKey", class: "prf", label: fmt.Sprintf("k%d/%v", ks, h), params: must(hmacprf.NewParameters(ks, h))})
		}
	}
	for _, ks := range []int{16, 32} {
		p := must(aescmacprf.NewParameters(ks))
		out = append(out, gcase{typ: "AesCmacPrfKey", class: "prf", label: fmt.Sprintf("k%d", ks), params: &p, noKeyset: ks != 32})
	}
	return
}

func gridECDSA() (out []gcase) {
	type ch struct {
		c ecdsa.CurveType
		h ecdsa.HashType
	}
	for _, x := range []ch{{ecdsa.NistP256, ecdsa.SHA256}, {ecdsa.NistP384, ecdsa.SHA384}, {ecdsa.NistP384, ecdsa.SHA512}, {ecdsa.NistP521, ecdsa.SHA512}} {
		for _, enc := range []ecdsa.SignatureEncoding{ecdsa.DER, ecdsa.IEEEP1363} {
			for _, v := range []ecdsa.Variant{ecdsa.VariantTink, ecdsa.VariantCrunchy, ecdsa.VariantLegacy, ecdsa.VariantNoPrefix} {
				p := must(ecdsa.NewParameters(x.c, x.h, enc, v))
				base := gcase{typ: "EcdsaPrivateKey", class: "sig", label: fmt.Sprintf("%v/%v/%v/%v", x.c, x.h, enc, v), params: p, mat: "fresh"}
				out = append(out, base)
				m := ecMaterial(x.c.String())
				for _, lz := range []struct {
					what string
					d    []byte
				}{{"lz-d", m.dLZ}, {"lz-x", m.dX}, {"lz-y", m.dY}} {
					c := base
					c.mat = lz.what
					d := lz.d
					c.mk = func(id uint32) (key.Key, error) { return ecdsa.NewPrivateKey(hlib.Secret(d), id, p) }
					c.noKeyset = true
					out = append(out, c)
				}
			}
		}
	}
	return
}

func gridEd25519() (out []gcase) {
	for _, v := range []ed25519.Variant{ed25519.VariantTink, ed25519.VariantCrunchy, ed25519.VariantLegacy, ed25519.VariantNoPrefix} {
		p := must(ed25519.NewParameters(v))
		out = append(out, gcase{typ: "Ed25519PrivateKey", class: "sig", label: fmt.Sprint(v), params: &p})
	}
	return
}

func rsaBits() []int {
	if quickTier {
		return []int{2048, 3072}
	}
	return []int{2048, 3072, 4096}
}

// rsaExps returns the public exponents used for the JWT RSA keys of a modulus (their constructors
// accept any valid exponent): F4, one other valid exponent with an invertible d, and the exponents
// found to give leading zeros in d / dp / dq.
func rsaExps(m *rsaMat) (es []int, what []string) {
	es, what = []int{65537}, []string{"fresh"}
	for _, e := range []int{65539, 65541, 1<<31 - 1} {
		if m.d(e) != nil {
			es, what = append(es, e), append(what, "fresh")
			break
		}
	}
	for i, e := range m.lzE {
		es, what = append(es, e), append(what, "lz-"+m.lzWhat[i])
	}
	return
}

type rsaSrc struct {
	m       *rsaMat
	e       int
	mat     string
	pubOnly bool // RSA-SSA private keys can only be built for e = 65537 (the constructor's self test); other exponents are exercised on public keys
}

func rsaSources() (out []rsaSrc) {
	for _, bits := range rsaBits() {
		m := rsaMaterial(bits)
		out = append(out, rsaSrc{m, 65537, "fresh", false})
		out = append(out, rsaSrc{m, 65539, "public-only-e65539", true})
		out = append(out, rsaSrc{m, 1<<31 - 1, "public-only-e2^31-1", true})
	}
	out = append(out, rsaSrc{rsaMaterialShortCRT(), 65537, "lz-dp+dq", false})
	return
}

func gridRSAPKCS1() []gcase { return thin(gridRSAPKCS1Of(rsaSources()), 2) }

// gridRSAPKCS1Of: every hash × variant for each key material source.
func gridRSAPKCS1Of(srcs []rsaSrc) (out []gcase) {
	for si, src := range srcs {
		m, e := src.m, src.e
		for _, h := range []rsassapkcs1.HashType{rsassapkcs1.SHA256, rsassapkcs1.SHA384, rsassapkcs1.SHA512} {
			for _, v := range []rsassapkcs1.Variant{rsassapkcs1.VariantTink, rsassapkcs1.VariantCrunchy, rsassapkcs1.VariantLegacy, rsassapkcs1.VariantNoPrefix} {
				p := must(rsassapkcs1.NewParameters(m.bits, h, e, v))
				c := gcase{typ: "RsaSsaPkcs1PrivateKey", class: "sig", label: fmt.Sprintf("%d/e%d/%v/%v", m.bits, e, h, v), params: p, mat: src.mat, slow: true, noKeyset: si > 0}
				if src.pubOnly {
					c.slow = false
					c.mk = func(id uint32) (key.Key, error) { return rsassapkcs1.NewPublicKey(m.n.Bytes(), id, p) }
				} else {
					d := m.d(e)
					c.mk = func(id uint32) (key.Key, error) {
						pub, err := rsassapkcs1.NewPublicKey(m.n.Bytes(), id, p)
						if err != nil {
							return nil, err
						}
						return rsassapkcs1.NewPrivateKey(pub, rsassapkcs1.PrivateKeyValues{P: hlib.Secret(m.p.Bytes()), Q: hlib.Secret(m.q.Bytes()), D: hlib.Secret(d.Bytes())})
					}
				}
				out = append(out, c)
			}
		}
	}
	return out
}

func gridRSAPSS() []gcase { return thin(gridRSAPSSOf(rsaSources()), 5) }

// gridRSAPSSOf: every hash × salt length × variant for each key material source.
func gridRSAPSSOf(srcs []rsaSrc) (out []gcase) {
	for si, src := range srcs {
		m, e := src.m, src.e
		for _, h := range []rsassapss.HashType{rsassapss.SHA256, rsassapss.SHA384, rsassapss.SHA512} {
			for _, salt := range []int{0, 1, 20, 32, 64} {
				for _, v := range []rsassapss.Variant{rsassapss.VariantTink, rsassapss.VariantCrunchy, rsassapss.VariantLegacy, rsassapss.VariantNoPrefix} {
					p := must(rsassapss.NewParameters(rsassapss.ParametersValues{ModulusSizeBits: m.bits, SigHashType: h, MGF1HashType: h, PublicExponent: e, SaltLengthBytes: salt}, v))
					c := gcase{typ: "RsaSsaPssPrivateKey", class: "sig", label: fmt.Sprintf("%d/e%d/%v/salt%d/%v", m.bits, e, h, salt, v), params: p, mat: src.mat, slow: true, noKeyset: si > 0}
					if src.pubOnly {
						c.slow = false
						c.mk = func(id uint32) (key.Key, error) { return rsassapss.NewPublicKey(m.n.Bytes(), id, p) }
					} else {
						d := m.d(e)
						c.mk = func(id uint32) (key.Key, error) {
							pub, err := rsassapss.NewPublicKey(m.n.Bytes(), id, p)
							if err != nil {
								return nil, err
							}
							return rsassapss.NewPrivateKey(pub, rsassapss.PrivateKeyValues{P: hlib.Secret(m.p.Bytes()), Q: hlib.Secret(m.q.Bytes()), D: hlib.Secret(d.Bytes())})
						}
					}
					if salt == 0 {
						c.noser = "RsaSsaPss: salt length 0 is refused by the serializer (\"salt length zero cannot be serialized\")"
						c.docUnserKey = "rsa-ssa-pss-salt-length-0"
						c.noKeyset = true
					}
					out = append(out, c)
				}
			}
		}
	}
	return out
}

func gridMLDSA() (out []gcase) {
	for _, inst := range []mldsa.Instance{mldsa.MLDSA44, mldsa.MLDSA65, mldsa.MLDSA87} {
		for _, v := range []mldsa.Variant{mldsa.VariantTink, mldsa.VariantNoPrefix, mldsa.VariantNoPrefixWithPrehashID} {
			p, err := mldsa.NewParameters(inst, v)
			if err != nil {
				continue
			}
			c := gcase{typ: "MlDsaPrivateKey", class: "sig", label: fmt.Sprintf("%v/%v", inst, v), params: p}
			if v == mldsa.VariantNoPrefixWithPrehashID {
				c.ksLossy = "ML-DSA VariantNoPrefixWithPrehashID is serialized with OutputPrefixType WITH_ID_REQUIREMENT, which keyset.Validate rejects: a written keyset cannot be read back"
			}
			out = append(out, c)
		}
	}
	return
}

func gridSLHDSA() (out []gcase) {
	for _, h := range []slhdsa.HashType{slhdsa.SHA2, slhdsa.SHAKE} {
		for _, ks := range []int{64, 96, 128} {
			for _, st := range []slhdsa.SignatureType{slhdsa.FastSigning, slhdsa.SmallSignature} {
				for _, v := range []slhdsa.Variant{slhdsa.VariantTink, slhdsa.VariantNoPrefix} {
					p, err := slhdsa.NewParameters(h, ks, st, v)
					if err != nil {
						continue
					}
					out = append(out, gcase{typ: "SlhDsaPrivateKey", class: "sig", label: fmt.Sprintf("%v/%d/%v/%v", h, ks, st, v), params: p, slow: true,
						noKeyset: !(ks == 64 && st == slhdsa.FastSigning),
						mk: func(id uint32) (key.Key, error) {
							return slhdsa.NewPrivateKey(hlib.Secret(slhMaterial(p)), id, p)
						}})
				}
			}
		}
	}
	return
}

func gridComposite() (out []gcase) {
	type combo struct {
		c compositemldsa.ClassicalAlgorithm
		m compositemldsa.MLDSAInstance
	}
	var combos []combo
	for _, c := range []compositemldsa.ClassicalAlgorithm{compositemldsa.Ed25519, compositemldsa.ECDSAP256, compositemldsa.ECDSAP384, compositemldsa.ECDSAP521,
		compositemldsa.RSA3072PSS, compositemldsa.RSA4096PSS, compositemldsa.RSA3072PKCS1, compositemldsa.RSA4096PKCS1} {
		for _, m := range []compositemldsa.MLDSAInstance{compositemldsa.MLDSA65, compositemldsa.MLDSA87} {
			combos = append(combos, combo{c, m})
		}
	}
	for _, x := range combos {
		for _, v := range []compositemldsa.Variant{compositemldsa.VariantTink, compositemldsa.VariantNoPrefix} {
			p, err := compositemldsa.NewParameters(x.c, x.m, v)
			if err != nil {
				continue
			}
			c := gcase{typ: "CompositeMlDsaPrivateKey", class: "sig", label: fmt.Sprintf("%v/%v/%v", x.c, x.m, v), params: p, noKeyset: true}
			bits := 0
			switch x.c {
			case compositemldsa.RSA3072PSS, compositemldsa.RSA3072PKCS1:
				bits = 3072
			case compositemldsa.RSA4096PSS, compositemldsa.RSA4096PKCS1:
				bits = 4096
			}
			if bits == 4096 && quickTier {
				continue // a 4096-bit RSA key generation is left to the thorough tier
			}
			if x.c == compositemldsa.Ed25519 || x.c == compositemldsa.ECDSAP256 {
				c.noKeyset = false
			}
			if bits != 0 {
				c.slow = true
				alg, inst := x.c, x.m
				c.mk = func(id uint32) (key.Key, error) {
					m := rsaMaterial(bits)
					d := hlib.Secret(m.d(65537).Bytes())
					var classical key.Key
					switch alg {
					case compositemldsa.RSA3072PSS, compositemldsa.RSA4096PSS:
						h, salt := rsassapss.SHA256, 32
						if bits == 4096 {
							h, salt = rsassapss.SHA384, 48
						}
						cp := must(rsassapss.NewParameters(rsassapss.ParametersValues{ModulusSizeBits: bits, SigHashType: h, MGF1HashType: h, PublicExponent: 65537, SaltLengthBytes: salt}, rsassapss.VariantNoPrefix))
						pub := must(rsassapss.NewPublicKey(m.n.Bytes(), 0, cp))
						classical = must(rsassapss.NewPrivateKey(pub, rsassapss.PrivateKeyValues{P: hlib.Secret(m.p.Bytes()), Q: hlib.Secret(m.q.Bytes()), D: d}))
					default:
						h := rsassapkcs1.SHA256
						if bits == 4096 {
							h = rsassapkcs1.SHA384
						}
						cp := must(rsassapkcs1.NewParameters(bits, h, 65537, rsassapkcs1.VariantNoPrefix))
						pub := must(rsassapkcs1.NewPublicKey(m.n.Bytes(), 0, cp))
						classical = must(rsassapkcs1.NewPrivateKey(pub, rsassapkcs1.PrivateKeyValues{P: hlib.Secret(m.p.Bytes()), Q: hlib.Secret(m.q.Bytes()), D: d}))
					}
					mi := mldsa.MLDSA65
					if inst == compositemldsa.MLDSA87 {
						mi = mldsa.MLDSA87
					}
					mk := must(keygenregistry.CreateKey(must(mldsa.NewParameters(mi, mldsa.VariantNoPrefix)), 0)).(*mldsa.PrivateKey)
					return compositemldsa.NewPrivateKey(mk, classical, id, p)
				}
			}
			out = append(out, c)
		}
	}
	return
}

func gridHPKE() (out []gcase) {
	curveOf := map[hpke.KEMID]string{hpke.DHKEM_P256_HKDF_SHA256: "NIST_P256", hpke.DHKEM_P384_HKDF_SHA384: "NIST_P384", hpke.DHKEM_P521_HKDF_SHA512: "NIST_P521"}
	for _, kem := range []hpke.KEMID{hpke.DHKEM_P256_HKDF_SHA256, hpke.DHKEM_P384_HKDF_SHA384, hpke.DHKEM_P521_HKDF_SHA512, hpke.DHKEM_X25519_HKDF_SHA256, hpke.X_WING, hpke.ML_KEM768, hpke.ML_KEM1024} {
		for _, kdf := range []hpke.KDFID{hpke.HKDFSHA256, hpke.HKDFSHA384, hpke.HKDFSHA512} {
			for _, ae := range []hpke.AEADID{hpke.AES128GCM, hpke.AES256GCM, hpke.ChaCha20Poly1305} {
				for _, v := range []hpke.Variant{hpke.VariantTink, hpke.VariantCrunchy, hpke.VariantNoPrefix} {
					p := must(hpke.NewParameters(hpke.ParametersOpts{KEMID: kem, KDFID: kdf, AEADID: ae, Variant: v}))
					base := gcase{typ: "HpkePrivateKey", class: "hyb", label: fmt.Sprintf("%v/%v/%v/%v", kem, kdf, ae, v), params: p, mat: "fresh"}
					out = append(out, base)
					if cn, ok := curveOf[kem]; ok && kdf == hpke.HKDFSHA256 && ae == hpke.AES128GCM {
						m := ecMaterial(cn)
						for _, lz := range []struct {
							what string
							d    []byte
						}{{"lz-d", m.dLZ}, {"lz-x", m.dX}, {"lz-y", m.dY}} {
							c := base
							c.mat, c.noKeyset = lz.what, true
							d := lz.d
							c.mk = func(id uint32) (key.Key, error) { return hpke.NewPrivateKey(hlib.Secret(d), id, p) }
							out = append(out, c)
						}
					}
				}
			}
		}
	}
	return thin(out, 2)
}

func demParams() []key.Parameters {
	return []key.Parameters{
		must(aesgcm.NewParameters(aesgcm.ParametersOpts{KeySizeInBytes: 16, IVSizeInBytes: 12, TagSizeInBytes: 16, Variant: aesgcm.VariantNoPrefix})),
		must(aesgcm.NewParameters(aesgcm.ParametersOpts{KeySizeInBytes: 32, IVSizeInBytes: 12, TagSizeInBytes: 16, Variant: aesgcm.VariantNoPrefix})),
		must(aessiv.NewParameters(64, aessiv.VariantNoPrefix)),
		must(xchacha20poly1305.NewParameters(xchacha20poly1305.VariantNoPrefix)),
		must(aesctrhmac.NewParameters(aesctrhmac.ParametersOpts{AESKeySizeInBytes: 16, HMACKeySizeInBytes: 32, IVSizeInBytes: 16, HashType: aesctrhmac.SHA256, TagSizeInBytes: 16, Variant: aesctrhmac.VariantNoPrefix})),
		must(aesctrhmac.NewParameters(aesctrhmac.ParametersOpts{AESKeySizeInBytes: 32, HMACKeySizeInBytes: 32, IVSizeInBytes: 16, HashType: aesctrhmac.SHA256, TagSizeInBytes: 32, Variant: aesctrhmac.VariantNoPrefix})),
	}
}

func gridECIES(r *hlib.Rng) (out []gcase) {
	dems := demParams()
	salts := [][]byte{nil, []byte("salt"), r.Bytes(64)}
	for _, cv := range []ecies.CurveType{ecies.NISTP256, ecies.NISTP384, ecies.NISTP521, ecies.X25519} {
		pfs := []ecies.PointFormat{ecies.CompressedPointFormat, ecies.UncompressedPointFormat, ecies.LegacyUncompressedPointFormat}
		if cv == ecies.X25519 {
			pfs = []ecies.PointFormat{ecies.UnspecifiedPointFormat}
		}
		for _, h := range []ecies.HashType{ecies.SHA1, ecies.SHA224, ecies.SHA256, ecies.SHA384, ecies.SHA512} {
			for _, pf := range pfs {
				for di, dem := range dems {
					for si, salt := range salts {
						for _, v := range []ecies.Variant{ecies.VariantTink, ecies.VariantCrunchy, ecies.VariantNoPrefix} {
							p := must(ecies.NewParameters(ecies.ParametersOpts{CurveType: cv, HashType: h, NISTCurvePointFormat: pf, DEMParameters: dem, Salt: salt, Variant: v}))
							base := gcase{typ: "EciesAeadHkdfPrivateKey", class: "hyb", label: fmt.Sprintf("%v/%v/%v/dem%d/salt%d/%v", cv, h, pf, di, si, v), params: p, mat: "fresh",
								noKeyset: cv == ecies.X25519}
							out = append(out, base)
							if cv != ecies.X25519 && h == ecies.SHA256 && di == 0 && si == 0 {
								m := ecMaterial(cv.String())
								for _, lz := range []struct {
									what string
									d    []byte
								}{{"lz-d", m.dLZ}, {"lz-x", m.dX}, {"lz-y", m.dY}} {
									c := base
									c.mat, c.noKeyset = lz.what, true
									d := lz.d
									c.mk = func(id uint32) (key.Key, error) { return ecies.NewPrivateKey(hlib.Secret(d), id, p) }
									out = append(out, c)
								}
							}
						}
					}
				}
			}
		}
	}
	return thin(out, 3)
}

func gridStreaming() (out []gcase) {
	var a []gcase
	for _, ks := range []int{16, 32, 48} {
		for _, dk := range []int{16, 32} {
			for _, h := range []streamgcm.HashType{streamgcm.SHA1, streamgcm.SHA256, streamgcm.SHA512} {
				for _, seg := range []int32{int32(dk + 25), 4096, 1 << 20, 1<<31 - 1} {
					p, err := streamgcm.NewParameters(streamgcm.ParametersOpts{KeySizeInBytes: ks, DerivedKeySizeInBytes: dk, HKDFHashType: h, SegmentSizeInBytes: seg})
					if err != nil {
						continue
					}
					a = append(a, gcase{typ: "AesGcmHkdfStreamingKey", class: "saead", label: fmt.Sprintf("k%d/dk%d/%v/seg%d", ks, dk, h, seg), params: p, noKeyset: seg != 4096})
				}
			}
		}
	}
	out = a
	var b []gcase
	maxTag := map[streamctr.HashType]int{streamctr.SHA1: 20, streamctr.SHA256: 32, streamctr.SHA512: 64}
	for _, ks := range []int{16, 32, 48} {
		for _, dk := range []int{16, 32} {
			for _, h := range []streamctr.HashType{streamctr.SHA1, streamctr.SHA256, streamctr.SHA512} {
				for _, mh := range []streamctr.HashType{streamctr.SHA1, streamctr.SHA256, streamctr.SHA512} {
					for _, tag := range []int{10, 16, maxTag[mh]} {
						for _, seg := range []int32{int32(dk + 8 + tag + 1), 4096, 1 << 20} {
							p, err := streamctr.NewParameters(streamctr.ParametersOpts{KeySizeInBytes: ks, DerivedKeySizeInBytes: dk, HkdfHashType: h, HmacHashType: mh,
								HmacTagSizeInBytes: tag, SegmentSizeInBytes: seg})
							if err != nil {
								continue
							}
							b = append(b, gcase{typ: "AesCtrHmacStreamingKey", class: "saead", label: fmt.Sprintf("k%d/dk%d/%v/%v/tag%d/seg%d", ks, dk, h, mh, tag, seg), params: p,
								noKeyset: seg != 4096})
						}
					}
				}
			}
		}
	}
	return append(out, thin(b, 3)...)
}

var customKIDs = []string{"", "k", "custom-kid-0123456789", "kid with spaces and ünïcödé ✓", string(make([]byte, 3))}

func gridJWT() (out []gcase) {
	// JWT HMAC
	minSize := map[jwthmac.Algorithm]int{jwthmac.HS256: 32, jwthmac.HS384: 48, jwthmac.HS512: 64}
	for _, alg := range []jwthmac.Algorithm{jwthmac.HS256, jwthmac.HS384, jwthmac.HS512} {
		for _, ks := range []int{minSize[alg], minSize[alg] + 1, 128} {
			for _, st := range []jwthmac.KIDStrategy{jwthmac.Base64EncodedKeyIDAsKID, jwthmac.IgnoredKID, jwthmac.CustomKID} {
				p := must(jwthmac.NewParameters(ks, st, alg))
				if st != jwthmac.CustomKID {
					out = append(out, gcase{typ: "JwtHmacKey", class: "jwtmac", label: fmt.Sprintf("%v/k%d/%v", alg, ks, st), params: p})
					continue
				}
				for ki, kid := range customKIDs {
					out = append(out, gcase{typ: "JwtHmacKey", class: "jwtmac", label: fmt.Sprintf("%v/k%d/%v/kid%d", alg, ks, st, ki), params: p,
						paramsLossy: "JWT CustomKID strategy is not representable in a key template (parses back as IgnoredKID)",
						mk: func(id uint32) (key.Key, error) {
							b := make([]byte, ks)
							rand.Read(b)
							return jwthmac.NewKey(jwthmac.KeyOpts{KeyBytes: hlib.Secret(b), IDRequirement: id, CustomKID: kid, HasCustomKID: true, Parameters: p})
						}})
				}
			}
		}
	}
	// JWT ECDSA
	for _, alg := range []jwtecdsa.Algorithm{jwtecdsa.ES256, jwtecdsa.ES384, jwtecdsa.ES512} {
		cn := jwtCurve(alg)
		for _, st := range []jwtecdsa.KIDStrategy{jwtecdsa.Base64EncodedKeyIDAsKID, jwtecdsa.IgnoredKID, jwtecdsa.CustomKID} {
			p := must(jwtecdsa.NewParameters(st, alg))
			kids := []string{""}
			if st == jwtecdsa.CustomKID {
				kids = customKIDs
			}
			m := ecMaterial(cn)
			for ki, kid := range kids {
				for _, mat := range []struct {
					what string
					d    []byte
				}{{"fresh", nil}, {"lz-d", m.dLZ}, {"lz-x", m.dX}, {"lz-y", m.dY}} {
					if mat.d != nil && ki > 0 {
						continue
					}
					c := gcase{typ: "JwtEcdsaPrivateKey", class: "jwtsig", label: fmt.Sprintf("%v/%v/kid%d", alg, st, ki), params: p, mat: mat.what, noKeyset: mat.d != nil}
					if st == jwtecdsa.CustomKID {
						c.paramsLossy = "JWT CustomKID strategy is not representable in a key template (parses back as IgnoredKID)"
					}
					d0 := mat.d
					custom := st == jwtecdsa.CustomKID
					c.mk = func(id uint32) (key.Key, error) {
						d := d0
						if d == nil {
							d = must(ecdhCurve(cn).GenerateKey(rand.Reader)).Bytes()
						}
						pub, err := jwtecdsa.NewPublicKey(jwtecdsa.PublicKeyOpts{PublicPoint: pubPoint(cn, d), IDRequirement: id, CustomKID: kid, HasCustomKID: custom, Parameters: p})
						if err != nil {
							return nil, err
						}
						return jwtecdsa.NewPrivateKeyFromPublicKey(hlib.Secret(d), pub)
					}
					out = append(out, c)
				}
			}
		}
	}
	// JWT RSA
	var rs []gcase
	for _, bits := range rsaBits() {
		rs = append(rs, gridJWTRSAOf(rsaMaterial(bits), "")...)
	}
	out = append(out, thin(rs, 3)...)
	// JWT ML-DSA
	for _, alg := range []jwtmldsa.Algorithm{jwtmldsa.MLDSA44, jwtmldsa.MLDSA65, jwtmldsa.MLDSA87} {
		for _, st := range []jwtmldsa.KIDStrategy{jwtmldsa.Base64EncodedKeyIDAsKID, jwtmldsa.IgnoredKID, jwtmldsa.CustomKID} {
			p := must(jwtmldsa.NewParameters(st, alg))
			if st != jwtmldsa.CustomKID {
				out = append(out, gcase{typ: "JwtMlDsaPrivateKey", class: "jwtsig", label: fmt.Sprintf("%v/%v", alg, st), params: p})
				continue
			}
			ign := must(jwtmldsa.NewParameters(jwtmldsa.IgnoredKID, alg))
			for ki, kid := range customKIDs[:3] {
				out = append(out, gcase{typ: "JwtMlDsaPrivateKey", class: "jwtsig", label: fmt.Sprintf("%v/%v/kid%d", alg, st, ki), params: p,
					paramsLossy: "JWT CustomKID strategy is not representable in a key template (parses back as IgnoredKID)",
					mk: func(id uint32) (key.Key, error) {
						k0 := must(keygenregistry.CreateKey(ign, 0)).(*jwtmldsa.PrivateKey)
						pub0 := must(k0.PublicKey()).(*jwtmldsa.PublicKey)
						pub, err := jwtmldsa.NewPublicKey(jwtmldsa.PublicKeyOpts{KeyBytes: pub0.KeyBytes(), IDRequirement: id, CustomKID: kid, HasCustomKID: true, Parameters: p})
						if err != nil {
							return nil, err
						}
						return jwtmldsa.NewPrivateKeyFromPublicKey(k0.PrivateKeyValue(), pub)
					}})
			}
		}
	}
	return
}

// gridJWTRSAOf: JWT RS* and PS* grid points (exponents × algorithm × KID strategy × custom kids) on
// one key material. matPrefix names the material class when it is not an ordinary generated key.
func gridJWTRSAOf(m *rsaMat, matPrefix string) (rs []gcase) {
	bits := m.bits
	matOf := func(what string) string {
		switch {
		case matPrefix == "":
			return what
		case what == "fresh":
			return matPrefix
		}
		return matPrefix + "+" + what
	}
	es, what := rsaExps(m)
	for ei, e := range es {
		d := m.d(e)
		for ai := 0; ai < 3; ai++ {
			for _, st := range []int{1, 2, 3} {
				kids := []string{""}
				if st == 3 {
					kids = customKIDs[:3]
				}
				for ki, kid := range kids {
					custom := st == 3
					lossy := ""
					if custom {
						lossy = "JWT CustomKID strategy is not representable in a key template (parses back as IgnoredKID)"
					} else if e != 65537 {
						lossy = "JWT RSA: the key template is always written with public exponent F4 (65537), whatever the parameters say"
					}
					{
						p := must(jwtrsassapkcs1.NewParameters(jwtrsassapkcs1.ParametersOpts{ModulusSizeInBits: bits, PublicExponent: e,
							Algorithm: []jwtrsassapkcs1.Algorithm{jwtrsassapkcs1.RS256, jwtrsassapkcs1.RS384, jwtrsassapkcs1.RS512}[ai], KidStrategy: jwtrsassapkcs1.KIDStrategy(st)}))
						rs = append(rs, gcase{typ: "JwtRsaSsaPkcs1PrivateKey", class: "jwtsig", label: fmt.Sprintf("%d/e%d/%v/%v/kid%d", bits, e, p.Algorithm(), p.KIDStrategy(), ki), params: p,
							mat: matOf(what[ei]), slow: true, paramsLossy: lossy, noKeyset: ei > 0,
							mk: func(id uint32) (key.Key, error) {
								pub, err := jwtrsassapkcs1.NewPublicKey(jwtrsassapkcs1.PublicKeyOpts{Modulus: m.n.Bytes(), IDRequirement: id, CustomKID: kid, HasCustomKID: custom, Parameters: p})
								if err != nil {
									return nil, err
								}
								return jwtrsassapkcs1.NewPrivateKey(jwtrsassapkcs1.PrivateKeyOpts{PublicKey: pub, D: hlib.Secret(d.Bytes()), P: hlib.Secret(m.p.Bytes()), Q: hlib.Secret(m.q.Bytes())})
							}})
					}
					{
						p := must(jwtrsassapss.NewParameters(jwtrsassapss.ParametersOpts{ModulusSizeInBits: bits, PublicExponent: e,
							Algorithm: []jwtrsassapss.Algorithm{jwtrsassapss.PS256, jwtrsassapss.PS384, jwtrsassapss.PS512}[ai], KidStrategy: jwtrsassapss.KIDStrategy(st)}))
						rs = append(rs, gcase{typ: "JwtRsaSsaPssPrivateKey", class: "jwtsig", label: fmt.Sprintf("%d/e%d/%v/%v/kid%d", bits, e, p.Algorithm(), p.KIDStrategy(), ki), params: p,
							mat: matOf(what[ei]), slow: true, paramsLossy: lossy, noKeyset: ei > 0,
							mk: func(id uint32) (key.Key, error) {
								pub, err := jwtrsassapss.NewPublicKey(jwtrsassapss.PublicKeyOpts{Modulus: m.n.Bytes(), IDRequirement: id, CustomKID: kid, HasCustomKID: custom, Parameters: p})
								if err != nil {
									return nil, err
								}
								return jwtrsassapss.NewPrivateKey(jwtrsassapss.PrivateKeyOpts{PublicKey: pub, D: hlib.Secret(d.Bytes()), P: hlib.Secret(m.p.Bytes()), Q: hlib.Secret(m.q.Bytes())})
							}})
					}
				}
			}
		}
	}
	return rs
}

func gridKD(r *hlib.Rng) (out []gcase) {
	cm := must(aescmacprf.NewParameters(32))
	prfs := []key.Parameters{
		must(hkdfprf.NewParameters(32, hkdfprf.SHA256, nil)),
		must(hkdfprf.NewParameters(64, hkdfprf.SHA512, r.Bytes(16))),
		must(hmacprf.NewParameters(32, hmacprf.SHA256)),
		&cm,
	}
	edT := must(ed25519.NewParameters(ed25519.VariantTink))
	edL := must(ed25519.NewParameters(ed25519.VariantLegacy))
	derived := []key.Parameters{
		must(aesgcm.NewParameters(aesgcm.ParametersOpts{KeySizeInBytes: 16, IVSizeInBytes: 12, TagSizeInBytes: 16, Variant: aesgcm.VariantTink})),
		must(aesgcm.NewParameters(aesgcm.ParametersOpts{KeySizeInBytes: 32, IVSizeInBytes: 12, TagSizeInBytes: 16, Variant: aesgcm.VariantCrunchy})),
		must(aesgcm.NewParameters(aesgcm.ParametersOpts{KeySizeInBytes: 32, IVSizeInBytes: 12, TagSizeInBytes: 16, Variant: aesgcm.VariantNoPrefix})),
		must(xchacha20poly1305.NewParameters(xchacha20poly1305.VariantTink)),
		must(aessiv.NewParameters(64, aessiv.VariantTink)),
		must(hmac.NewParameters(hmac.ParametersOpts{KeySizeInBytes: 32, TagSizeInBytes: 16, HashType: hmac.SHA256, Variant: hmac.VariantLegacy})),
		must(hkdfprf.NewParameters(32, hkdfprf.SHA256, []byte("x"))),
		&edT, &edL,
		must(ecdsa.NewParameters(ecdsa.NistP256, ecdsa.SHA256, ecdsa.DER, ecdsa.VariantTink)),
		must(streamgcm.NewParameters(streamgcm.ParametersOpts{KeySizeInBytes: 32, DerivedKeySizeInBytes: 32, HKDFHashType: streamgcm.SHA256, SegmentSizeInBytes: 4096})),
		must(jwthmac.NewParameters(32, jwthmac.Base64EncodedKeyIDAsKID, jwthmac.HS256)),
	}
	for pi, pp := range prfs {
		for di, dp := range derived {
			p, err := prfbasedkeyderivation.NewParameters(pp, dp)
			if err != nil {
				continue
			}
			// only derivable key types can be used through keyderivation.New; the others are still keys
			nk := (di >= 8 && di != 10) || pi > 1
			out = append(out, gcase{typ: "PrfBasedDeriverKey", class: "kd", label: fmt.Sprintf("prf%d/derived%d:%T", pi, di, dp), params: p, noKeyset: nk})
		}
	}
	return
}

// allGrids returns every grid point, grouped by key type in a fixed order.
func allGrids(seed uint64) []gcase {
	r := hlib.NewRng(seed, "c12/grid")
	var out []gcase
	out = append(out, gridAESGCM()...)
	out = append(out, gridAESGCMSIV()...)
	out = append(out, gridAESCTRHMAC()...)
	out = append(out, gridChaCha()...)
	out = append(out, gridAESSIV()...)
	out = append(out, gridMAC()...)
	out = append(out, gridPRF(r)...)
	out = append(out, gridECDSA()...)
	out = append(out, gridEd25519()...)
	out = append(out, gridRSAPKCS1()...)
	out = append(out, gridRSAPSS()...)
	out = append(out, gridMLDSA()...)
	out = append(out, gridSLHDSA()...)
	out = append(out, gridComposite()...)
	out = append(out, gridHPKE()...)
	out = append(out, gridECIES(r)...)
	out = append(out, gridStreaming()...)
	out = append(out, gridJWT()...)
	out = append(out, gridKD(r)...)
	markCustomKID(out)
	return out
}

// markCustomKID: JWT parameters with the CustomKID strategy have no key template (documented refusal).
func markCustomKID(out []gcase) {
	for i := range out {
		if m := reflect.ValueOf(out[i].params).MethodByName("KIDStrategy"); m.IsValid() && fmt.Sprint(m.Call(nil)[0].Interface()) == "CustomKID" {
			out[i].docUnserParams = "jwt-custom-kid-strategy"
		}
	}
}
