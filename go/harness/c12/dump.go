//go:build verif

package main

// Typed view of serialized protos. Everything the harness tells the Lean wire codec about a byte
// string is computed from the TYPED message (proto.Unmarshal into the generated Go type named by
// the type URL, then a protoreflect walk in field-number order), never by a second generic wire
// parser: the Lean strict decoder is the only generic parser involved, and it must see exactly the
// fields the typed message has, in field-number order, in canonical (minimal varint) encoding.

import (
	"encoding/hex"
	"fmt"
	"sort"
	"strings"

	"google.golang.org/protobuf/encoding/protowire"
	"google.golang.org/protobuf/proto"
	"google.golang.org/protobuf/reflect/protoreflect"
	"google.golang.org/protobuf/reflect/protoregistry"
)

// wf is one wire field of a message: number, wire kind ('v' varint, 'b' length-delimited) and value.
type wf struct {
	num  int
	kind byte
	u    uint64
	b    []byte
}

func hexTok(b []byte) string {
	if len(b) == 0 {
		return "-"
	}
	return hex.EncodeToString(b)
}

// showFields prints a field list in the driver's dump format.
func showFields(fs []wf) string {
	if len(fs) == 0 {
		return "-"
	}
	ss := make([]string, len(fs))
	for i, f := range fs {
		if f.kind == 'v' {
			ss[i] = fmt.Sprintf("%d:v%d", f.num, f.u)
		} else {
			ss[i] = fmt.Sprintf("%d:b%s", f.num, hexTok(f.b))
		}
	}
	return strings.Join(ss, ",")
}

// encFields encodes a field list with the protobuf library's low-level wire helpers (used only for
// the deliberately perturbed inputs, whose dump is known by construction).
func encFields(fs []wf) []byte {
	var out []byte
	for _, f := range fs {
		if f.kind == 'v' {
			out = protowire.AppendTag(out, protowire.Number(f.num), protowire.VarintType)
			out = protowire.AppendVarint(out, f.u)
		} else {
			out = protowire.AppendTag(out, protowire.Number(f.num), protowire.BytesType)
			out = protowire.AppendBytes(out, f.b)
		}
	}
	return out
}

// nested is a populated sub-message found by the walk.
type nested struct {
	path string
	msg  protoreflect.Message
}

// fieldsOf walks the populated fields of a typed message in field-number order and returns its
// top-level wire fields; sub-messages appear as 'b' fields holding their own marshalling and are
// also returned for recursive treatment. problem is non-empty if the message uses something the
// key protos are not supposed to use (maps, packed scalars, floats, unknown fields).
func fieldsOf(m protoreflect.Message, path string) (fs []wf, subs []nested, problem string) {
	if len(m.GetUnknown()) > 0 {
		problem = "unknown fields present"
	}
	fds := m.Descriptor().Fields()
	order := make([]protoreflect.FieldDescriptor, 0, fds.Len())
	for i := 0; i < fds.Len(); i++ {
		order = append(order, fds.Get(i))
	}
	sort.Slice(order, func(i, j int) bool { return order[i].Number() < order[j].Number() })
	one := func(fd protoreflect.FieldDescriptor, v protoreflect.Value, p string) {
		n := int(fd.Number())
		switch fd.Kind() {
		case protoreflect.EnumKind:
			fs = append(fs, wf{num: n, kind: 'v', u: uint64(int64(v.Enum()))})
		case protoreflect.Uint32Kind, protoreflect.Uint64Kind:
			fs = append(fs, wf{num: n, kind: 'v', u: v.Uint()})
		case protoreflect.Int32Kind, protoreflect.Int64Kind:
			fs = append(fs, wf{num: n, kind: 'v', u: uint64(v.Int())})
		case protoreflect.BoolKind:
			var u uint64
			if v.Bool() {
				u = 1
			}
			fs = append(fs, wf{num: n, kind: 'v', u: u})
		case protoreflect.BytesKind:
			fs = append(fs, wf{num: n, kind: 'b', b: v.Bytes()})
		case protoreflect.StringKind:
			fs = append(fs, wf{num: n, kind: 'b', b: []byte(v.String())})
		case protoreflect.MessageKind:
			sub := v.Message()
			b, err := proto.Marshal(sub.Interface())
			if err != nil {
				problem = "marshal of nested message failed: " + err.Error()
			}
			fs = append(fs, wf{num: n, kind: 'b', b: b})
			subs = append(subs, nested{path: p, msg: sub})
		default:
			problem = fmt.Sprintf("field %s has kind %v, not expected in a key proto", fd.FullName(), fd.Kind())
		}
	}
	for _, fd := range order {
		if !m.Has(fd) {
			continue
		}
		p := string(fd.Name())
		if path != "" {
			p = path + "." + p
		}
		if fd.IsMap() {
			problem = "map field " + string(fd.FullName())
			continue
		}
		if fd.IsList() {
			if fd.Kind() != protoreflect.MessageKind && fd.Kind() != protoreflect.BytesKind && fd.Kind() != protoreflect.StringKind {
				problem = "repeated scalar field " + string(fd.FullName())
				continue
			}
			l := m.Get(fd).List()
			for i := 0; i < l.Len(); i++ {
				one(fd, l.Get(i), fmt.Sprintf("%s[%d]", p, i))
			}
			continue
		}
		one(fd, m.Get(fd), p)
	}
	return
}

// leaf is a populated scalar reached by the recursive walk, or the presence of a sub-message.
type leaf struct {
	isBytes bool
	isMsg   bool
	u       uint64
	b       []byte
}

func (l leaf) String() string {
	switch {
	case l.isMsg:
		return "<message>"
	case l.isBytes:
		return "b" + hexTok(l.b)
	}
	return fmt.Sprintf("v%d", l.u)
}

func leafEq(a, b leaf) bool {
	return a.isBytes == b.isBytes && a.isMsg == b.isMsg && a.u == b.u && string(a.b) == string(b.b)
}

// leavesOf flattens a typed message into path → value for every populated scalar, plus "path/"
// markers for every populated sub-message (so that an empty-but-present message is visible).
func leavesOf(m protoreflect.Message, path string, out map[string]leaf) {
	fs, subs, _ := fieldsOf(m, path)
	fds := m.Descriptor().Fields()
	si := 0
	for _, f := range fs {
		fd := fds.ByNumber(protoreflect.FieldNumber(f.num))
		p := string(fd.Name())
		if path != "" {
			p = path + "." + p
		}
		if fd.Kind() == protoreflect.MessageKind {
			sub := subs[si]
			si++
			out[sub.path+"/"] = leaf{isMsg: true}
			leavesOf(sub.msg, sub.path, out)
			continue
		}
		if f.kind == 'v' {
			out[p] = leaf{u: f.u}
		} else {
			out[p] = leaf{isBytes: true, b: f.b}
		}
	}
}

// expect is the accessor-side description of a serialized message: path → value, built by hand
// per key type from the key's accessors and the enum numbers of /repo/proto/*.proto.
type expect map[string]leaf

// U records a varint field (proto3: zero is absent).
func (e expect) U(path string, v uint64) {
	if v != 0 {
		e[path] = leaf{u: v}
		e.parents(path)
	}
}

// B records a bytes/string field (proto3: empty is absent).
func (e expect) B(path string, b []byte) {
	if len(b) != 0 {
		e[path] = leaf{isBytes: true, b: append([]byte(nil), b...)}
		e.parents(path)
	}
}

// M records that a sub-message is present even if all its fields are default.
func (e expect) M(path string) {
	e[path+"/"] = leaf{isMsg: true}
	e.parents(path)
}

func (e expect) parents(path string) {
	for i := 0; i < len(path); i++ {
		if path[i] == '.' {
			e[path[:i]+"/"] = leaf{isMsg: true}
		}
	}
}

// diffLeaves compares the accessor-side expectation with the typed message's leaves.
func diffLeaves(want expect, got map[string]leaf) string {
	var d []string
	for p, w := range want {
		g, ok := got[p]
		if !ok {
			d = append(d, fmt.Sprintf("%s: accessor says %v, serialization has nothing", p, w))
		} else if !leafEq(w, g) {
			d = append(d, fmt.Sprintf("%s: accessor says %v, serialization has %v", p, w, g))
		}
	}
	for p, g := range got {
		if _, ok := want[p]; !ok {
			d = append(d, fmt.Sprintf("%s: serialization has %v, accessors say absent", p, g))
		}
	}
	sort.Strings(d)
	if len(d) > 6 {
		d = append(d[:6], fmt.Sprintf("… %d more", len(d)-6))
	}
	return strings.Join(d, "; ")
}

// newMsgForURL returns a fresh typed message for a type URL ("type.googleapis.com/<full name>").
func newMsgForURL(url string) (protoreflect.Message, error) {
	mt, err := protoregistry.GlobalTypes.FindMessageByURL(url)
	if err != nil {
		return nil, err
	}
	return mt.New(), nil
}

// formatNameForURL maps a key type URL to the full name of its key-format message
// (XxxKey / XxxPrivateKey → XxxKeyFormat).
func formatNameForURL(url string) string {
	name := url
	if i := strings.LastIndex(name, "/"); i >= 0 {
		name = name[i+1:]
	}
	switch {
	case strings.HasSuffix(name, "PrivateKey"):
		name = strings.TrimSuffix(name, "PrivateKey") + "KeyFormat"
	case strings.HasSuffix(name, "Key"):
		name = strings.TrimSuffix(name, "Key") + "KeyFormat"
	}
	return name
}

func newFormatForURL(url string) (protoreflect.Message, error) {
	mt, err := protoregistry.GlobalTypes.FindMessageByName(protoreflect.FullName(formatNameForURL(url)))
	if err != nil {
		return nil, err
	}
	return mt.New(), nil
}

func typeOfURL(url string) string {
	if i := strings.LastIndex(url, "."); i >= 0 {
		return url[i+1:]
	}
	return url
}
