//go:build verif

// Harness c12: keys, parameters and keysets survive serialization unchanged (property C12).
//
// Stream 1 (keys.go, grid.go, expect.go): for every key type registered in protoserialization ×
// the grid of valid parameter combinations reachable through the public NewParameters constructors
// × variants × id classes {0, 1, 2^31-1, 2^32-1, random} × fresh (and leading-zero) key material:
// SerializeKey → ParseKey → Equal (both directions) → byte-identical re-serialisation; the
// serialized value is unmarshalled into its generated Go type, walked with protoreflect, compared
// field by field with a hand-written accessor dump (enum numbers copied from the .proto files),
// and sent to the Lean strict wire decoder (`P wire`), which must accept it, find exactly the
// typed fields in field-number order and re-encode it byte-identically. The same for parameters
// and key templates.
// A serializer ERROR on an object the constructors accepted is reported as "UNSERIALIZABLE <type>"
// except for three explicit, deliberate refusals that are only counted (AES-GCM iv != 12 / tag != 16,
// JWT CustomKID parameters, RSA-SSA-PSS salt length 0). Key types without a parser (KMS AEAD, KMS
// envelope, unknown URLs) go through the fallback proto key; the registry is read through an export
// hook so that a registered type that was not exercised is listed in the histogram.
// Stream 2 (perturb.go): non-canonical / perturbed serializations.
// Stream 3 (keysets.go): keysets through every writer/reader pair; 3b: handles holding an
// unserializable key must make every writer fail.
// Stream 5 (large.go): keysets of 64 KiB .. 1 MiB+ (binary form) through every writer/reader pair.
// Stream 4 (bigint.go): leading-zero handling of big integers: the real helpers
// (BigIntBytesToFixedSizeBuffer, Pad, AdjustEncodingLengths, removeLeadingZeros, the ECDSA point
// helpers) and the big-integer fields of real EC / RSA keys vs the Lean model (`N` lines).
// Stream 6 (rsaodd.go): RSA keys of all four families whose modulus bit length is not a multiple of 8
// (2049, 2050, …) or whose primes have different byte lengths, through all of the above.
package main

import (
	"fmt"
	"os"
	"sort"
	"time"

	"github.com/tink-crypto/tink-go/v2/internal/verifharness/hlib"
	"github.com/tink-crypto/tink-go/v2/internal/verifharness/kslib"
)

func main() {
	o := hlib.Open("C12")
	defer o.Close()
	seed := *hlib.FlagSeed
	quickTier = !hlib.Thorough()
	kslib.InstallDetRand(seed)
	w := &world{o: o, seed: seed, seen: map[string]bool{}, reported: map[string]int{}, pools: map[string][]*gcase{}, perturb: map[string][]perturbSrc{}, unserN: map[string]int{}, used: map[string]bool{}}
	t0 := time.Now()
	lap := func(what string) {
		fmt.Fprintf(os.Stderr, "c12: %-28s %6.1fs  lines=%d\n", what, time.Since(t0).Seconds(), o.N)
	}

	grid := allGrids(seed)
	lap("grid built")
	r := hlib.NewRng(seed, "c12/keys")
	perType := map[string]int{}
	for i := range grid {
		perType[grid[i].typ]++
	}
	for i := range grid {
		c := &grid[i]
		o.Count("grid-points/" + c.typ)
		// small grids get every id class, large ones two per point (all five in the thorough tier)
		all := hlib.Thorough() || perType[c.typ] <= 40
		if c.slow && !hlib.Thorough() {
			all = false
		}
		w.runKeyCase(c, r, all)
		if c.mat == "" || c.mat == "fresh" {
			w.checkParams(c)
		}
		if !c.noKeyset && c.lossy == "" && c.noser == "" {
			w.pools[c.class] = append(w.pools[c.class], c)
		}
	}
	lap("stream 1: keys + parameters")
	w.fallbackKeys()
	w.registryCoverage()
	lap("fallback (KMS) keys")
	w.perturbStream(hlib.NewRng(seed, "c12/perturb"))
	lap("stream 2: perturbed inputs")
	w.keysetStream(hlib.NewRng(seed, "c12/keysets"))
	lap("stream 3: keysets")
	w.unserializableKeysets(hlib.NewRng(seed, "c12/unser"))
	lap("stream 3b: unserializable keys")
	w.bigintStream(grid, hlib.NewRng(seed, "c12/bigint"))
	lap("stream 4: big-integer helpers")
	w.largeKeysetStream(hlib.NewRng(seed, "c12/large"))
	lap("stream 5: large keysets")
	w.rsaOddStream(hlib.NewRng(seed, "c12/rsa-odd"))
	lap("stream 6: RSA off-grid sizes")

	for t, n := range keygenRefused {
		o.Hist["keygen-refuses-valid-parameters(built-with-NewKey)/"+t] = n
	}
	var cl []string
	for c := range w.reported {
		cl = append(cl, c)
	}
	sort.Strings(cl)
	for _, c := range cl {
		fmt.Fprintf(os.Stderr, "c12: violation class %q ×%d\n", c, w.reported[c])
	}
}
