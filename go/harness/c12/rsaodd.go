//go:build verif

package main

// Stream 6 (rsaodd.go): RSA keys off the standard size grid, as REAL key objects of all four RSA
// families (RSA-SSA-PKCS1, RSA-SSA-PSS, JWT RS*, JWT PS*), private and public:
//
//   - modulus bit lengths that are not a multiple of 8 (2049, 2050, 2052, 2055, 2057, 2060; more,
//     plus 3073 / 3079 / 4095, in the thorough tier). The parameters only demand >= 2048 bits, key
//     generation / signing / verifying work for every such size; 8*len(n) != BitLen(n), the top
//     byte of n is 0x01..0x7f, d is almost always shorter than n (a leading zero in the fixed-width
//     field), and for 8k+1 bits crypto/rsa makes p one BYTE longer than q;
//   - primes of different byte lengths (len(p) != len(q)): the 2049-bit key and its p<->q swap, and
//     hand-made 2048-bit keys from a 1040-bit and a 1008-bit prime in both orders (thorough: more
//     splits) — keys other libraries produce and crypto/rsa's generator never does.
//
// Every such key goes through everything the harness does for the standard sizes: the stream-1 key
// round trip on the private and the public key (SerializeKey → ParseKey → Equal → byte-identical
// re-serialisation, accessor dump, `P wire` / `P enc` lines), the parameters ↔ key template round
// trip, the `!N rsaser / rsaadjust / rsaparse` lines of stream 4 (Lean big-integer model on the
// real key's fields, leading-zero variants through the real parser), and keysets through every
// writer/reader pair of stream 3 (cleartext / encrypted × binary / JSON / mem, Public() →
// WriteWithNoSecrets → ReadWithNoSecrets, primitives of the original and the re-read handle
// interoperate). The keysets are built deterministically so that every (material, family) pair
// occurs in one.
//
// The stream runs last and has its own rng; the keys are generated after everything else, so the
// lines of the earlier streams do not depend on it.

import (
	"crypto/rand"
	"fmt"
	"math/big"
	"os"
	"strings"
	"time"

	"github.com/tink-crypto/tink-go/v2/internal/verifharness/hlib"
)

// oddSrc is one RSA key material off the standard grid.
type oddSrc struct {
	m    *rsaMat
	mat  string // material class (gcase.mat)
	note string // appended to the labels: the concrete sizes
}

func describeRSAMat(m *rsaMat) string {
	return fmt.Sprintf("{n:%d-bit/%dB p:%d-bit/%dB q:%d-bit/%dB}", m.n.BitLen(), len(m.n.Bytes()), m.p.BitLen(), len(m.p.Bytes()), m.q.BitLen(), len(m.q.Bytes()))
}

// rsaMaterialPrimes makes an RSA key from two fresh primes of the given bit lengths (top two bits
// set, so the modulus has exactly pBits+qBits bits) that is usable with e = 65537.
func rsaMaterialPrimes(pBits, qBits int) *rsaMat {
	ck := -(pBits*100000 + qBits)
	if m, ok := rsaCache[ck]; ok {
		return m
	}
	for {
		p := must(rand.Prime(rand.Reader, pBits))
		q := must(rand.Prime(rand.Reader, qBits))
		if p.Cmp(q) == 0 || new(big.Int).Mul(p, q).BitLen() != pBits+qBits {
			continue
		}
		m := rsaMatOf(pBits+qBits, p, q)
		if m.d(65537) == nil {
			continue
		}
		rsaCache[ck] = m
		return m
	}
}

func rsaOddBits() []int {
	if quickTier {
		return []int{2049, 2050, 2052, 2055, 2057, 2060}
	}
	return []int{2049, 2050, 2051, 2052, 2053, 2055, 2056, 2057, 2060, 2063, 2100, 3073, 3079, 4095}
}

func rsaOddSources() (out []oddSrc) {
	add := func(m *rsaMat, mat string) {
		if m.n.BitLen() != m.bits {
			panic(fmt.Sprintf("c12: RSA material of %d bits where %d were asked for", m.n.BitLen(), m.bits))
		}
		out = append(out, oddSrc{m, mat, describeRSAMat(m)})
	}
	swaps := map[int]bool{2049: true}
	if !quickTier {
		swaps[2057], swaps[3073] = true, true
	}
	for _, bits := range rsaOddBits() {
		m := rsaMaterial(bits)
		add(m, fmt.Sprintf("modulus-%d-bits", bits))
		if swaps[bits] {
			add(rsaMatOf(bits, m.q, m.p), fmt.Sprintf("modulus-%d-bits-primes-swapped", bits))
		}
	}
	splits := [][2]int{{1040, 1008}}
	if !quickTier {
		splits = append(splits, [2]int{1032, 1016}, [2]int{1280, 768}, [2]int{1041, 1008}, [2]int{1544, 1528})
	}
	for _, s := range splits {
		m := rsaMaterialPrimes(s[0], s[1])
		add(m, fmt.Sprintf("primes-%d+%d-bits", s[0], s[1]))
		add(rsaMatOf(m.bits, m.q, m.p), fmt.Sprintf("primes-%d+%d-bits", s[1], s[0]))
	}
	return
}

// thinRot keeps every n-th grid point with an offset that rotates with the position (and with
// off, the index of the key material), so that all values of every dimension still occur.
func thinRot(cs []gcase, n, off int) (out []gcase) {
	if n <= 1 {
		return cs
	}
	for i := range cs {
		j := i + off
		if j%n == (j/n)%n {
			out = append(out, cs[i])
		}
	}
	if len(out) == 0 && len(cs) > 0 {
		out = append(out, cs[off%len(cs)])
	}
	return
}

// rsaOddGrid: the grid points of one key material, by family: the complete grids of the standard
// sizes (gridRSAPKCS1Of / gridRSAPSSOf / gridJWTRSAOf), thinned.
func rsaOddGrid(src oddSrc, si int) (out []gcase) {
	m := src.m
	ssa := []rsaSrc{{m, 65537, src.mat, false}, {m, 65539, "public-only-e65539/" + src.mat, true}, {m, 1<<31 - 1, "public-only-e2^31-1/" + src.mat, true}}
	split := func(cs []gcase) (priv, pub []gcase) {
		for _, c := range cs {
			if strings.HasPrefix(c.mat, "public-only") {
				pub = append(pub, c)
			} else {
				priv = append(priv, c)
			}
		}
		return
	}
	p1priv, p1pub := split(gridRSAPKCS1Of(ssa))
	pspriv, pspub := split(gridRSAPSSOf(ssa))
	var jp1, jps []gcase
	for _, c := range gridJWTRSAOf(m, src.mat) {
		if c.typ == "JwtRsaSsaPkcs1PrivateKey" {
			jp1 = append(jp1, c)
		} else {
			jps = append(jps, c)
		}
	}
	// thinning factors: (quick, thorough)
	tier := func(q, t int) int {
		if quickTier {
			return q
		}
		return t
	}
	out = append(out, thinRot(p1priv, tier(6, 2), si)...) // 12 points
	out = append(out, thinRot(p1pub, tier(12, 4), si)...) // 24
	var psOK, psSalt0 []gcase                             // 48 serializable points + 12 with salt length 0 (the serializer refuses: counted only)
	for _, c := range pspriv {
		if c.noser != "" {
			psSalt0 = append(psSalt0, c)
		} else {
			psOK = append(psOK, c)
		}
	}
	out = append(out, thinRot(psOK, tier(16, 4), si)...)
	out = append(out, thinRot(psSalt0, 12, si)...)
	out = append(out, thinRot(pspub, tier(40, 10), si)...) // 120
	// JWT: 15 points per exponent; only e = 65537 keys have a primitive (and go into keysets)
	for fi, js := range [][]gcase{jp1, jps} {
		var f4, other []gcase
		for _, c := range js {
			if strings.Contains(c.label, "/e65537/") {
				f4 = append(f4, c)
			} else {
				c.noKeyset = true
				other = append(other, c)
			}
		}
		out = append(out, thinRot(f4, tier(8, 3), si+fi)...)
		out = append(out, thinRot(other, tier(30, 6), si+2*fi)...)
	}
	markCustomKID(out)
	for i := range out {
		c := &out[i]
		c.label += " " + src.note
		c.slow = false // the keyset builder below chooses the keys itself
		c.noKeyset = c.noser != "" || strings.HasPrefix(c.mat, "public-only") || (c.class == "jwtsig" && !strings.Contains(c.label, "/e65537/"))
	}
	return
}

func (w *world) rsaOddStream(r *hlib.Rng) {
	o := w.o
	t0 := time.Now()
	lap := func(what string) {
		fmt.Fprintf(os.Stderr, "c12:   rsa-odd %-22s %6.1fs  lines=%d\n", what, time.Since(t0).Seconds(), o.N)
	}
	srcs := rsaOddSources()
	lap("key material")
	type fam struct{ typ, class string }
	fams := []fam{{"RsaSsaPkcs1PrivateKey", "sig"}, {"RsaSsaPssPrivateKey", "sig"}, {"JwtRsaSsaPkcs1PrivateKey", "jwtsig"}, {"JwtRsaSsaPssPrivateKey", "jwtsig"}}
	var grid []gcase
	bySrc := make([][]int, len(srcs)) // indices into grid
	for si, src := range srcs {
		o.Count("rsa-odd/material/" + src.mat)
		if len(src.m.p.Bytes()) != len(src.m.q.Bytes()) {
			o.Count("rsa-odd/material-with-len(p)!=len(q)")
		}
		if src.m.n.BitLen()%8 != 0 {
			o.Count("rsa-odd/material-with-bitlen(n)%8!=0")
		}
		for _, c := range rsaOddGrid(src, si) {
			bySrc[si] = append(bySrc[si], len(grid))
			grid = append(grid, c)
		}
	}
	// ---- keys (private and public) and parameters
	paramsDone := map[string]bool{}
	for i := range grid {
		c := &grid[i]
		o.Count("rsa-odd/grid-points/" + c.typ)
		w.runKeyCase(c, r, hlib.Thorough())
		pk := c.typ + "|" + strings.SplitN(c.label, " ", 2)[0]
		if !paramsDone[pk] {
			paramsDone[pk] = true
			w.checkParams(c)
		}
	}
	lap("keys + parameters")
	// ---- the Lean big-integer model on the fields of the real keys
	var forBig []gcase
	per := hlib.N(1, 3)
	for si := range srcs {
		n := map[string]int{}
		for _, gi := range bySrc[si] {
			c := grid[gi]
			if c.noKeyset || n[c.typ] >= per {
				continue
			}
			n[c.typ]++
			forBig = append(forBig, c)
		}
	}
	w.bigintKeys(forBig, r)
	lap("big-integer lines")
	// ---- keysets
	run := newKsRun(r)
	run.nCombos = 8 // the (kek, ad, format, api) combinations rotate over the keysets of the stream
	if quickTier {
		run.nCombos = 3
	}
	it := 0
	for si, src := range srcs {
		for _, class := range []string{"sig", "jwtsig"} {
			// the usable points of this material, the two families of the class alternating
			var byFam [2][]*gcase
			for _, gi := range bySrc[si] {
				c := &grid[gi]
				if c.noKeyset || c.class != class {
					continue
				}
				for fi, f := range fams {
					if f.typ == c.typ {
						byFam[fi%2] = append(byFam[fi%2], c)
					}
				}
			}
			if len(byFam[0]) == 0 || len(byFam[1]) == 0 {
				w.violate("rsa-odd/no-usable-grid-point", "%s %s: %d + %d points", src.mat, class, len(byFam[0]), len(byFam[1]))
				continue
			}
			rounds := hlib.N(1, 3)
			for round := 0; round < rounds; round++ {
				n := 2 + r.Intn(3)
				if round == 0 {
					n = 2 // the smallest keyset holding both families
				}
				base := r.Intn(1 << 20)
				pick := func(i int) *gcase {
					f := byFam[(i+round)%2]
					return f[(base+i/2)%len(f)]
				}
				o.Case()
				es, h, err := w.genKeysetFrom(pick, n, r)
				if err != nil {
					w.violate("keyset/build-fails/"+class, "%s: %v", src.mat, err)
					continue
				}
				o.Count("rsa-odd/keyset/" + class)
				w.keysetRoundTrips(run, class, it, es, h)
				it++
			}
		}
	}
	lap("keysets per material")
	// ---- mixed keysets: different materials (and standard-size keys from the pools) side by side
	for _, class := range []string{"sig", "jwtsig"} {
		var all []*gcase
		for i := range grid {
			if c := &grid[i]; !c.noKeyset && c.class == class {
				all = append(all, c)
			}
		}
		pool := w.pools[class]
		for k := 0; k < hlib.N(2, 10); k++ {
			n := 3 + r.Intn(3)
			pick := func(i int) *gcase {
				if i == 1 && len(pool) > 0 {
					for try := 0; try < 50; try++ {
						if c := pool[r.Intn(len(pool))]; !c.slow {
							return c
						}
					}
				}
				return all[r.Intn(len(all))]
			}
			o.Case()
			es, h, err := w.genKeysetFrom(pick, n, r)
			if err != nil {
				w.violate("keyset/build-fails/"+class, "mixed: %v", err)
				continue
			}
			o.Count("rsa-odd/mixed-keyset/" + class)
			w.keysetRoundTrips(run, class, it, es, h)
			it++
		}
	}
}
