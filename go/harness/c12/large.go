//go:build verif

package main

// Stream 5: large keysets. Keysets whose BINARY serialization exceeds 64 KiB, 256 KiB and 1 MiB
// (30 / 100 / 400 ML-DSA-87 private keys, ~2.7 KB each), a keyset of 3000 small HMAC keys, and two
// HMAC keysets tuned so that byte 65536 of the binary form falls (a) exactly on a key-entry
// boundary (a reader that stops there sees a VALID, shorter keyset) and (b) in the middle of a key
// with the primary key behind the cut, go through every writer/reader pair the harness uses
// (binary, JSON, mem × cleartext, encrypted with associated data, public-only / no-secrets). The
// re-read handle must have the same entries (count, ids, statuses, primary, key Equal).
// (Found missing by a seeded change that read binary keysets through a 64 KiB io.LimitReader.)

import (
	"bytes"
	"fmt"

	"github.com/tink-crypto/tink-go/v2/insecurecleartextkeyset"
	"github.com/tink-crypto/tink-go/v2/internal/internalapi"
	"github.com/tink-crypto/tink-go/v2/internal/keygenregistry"
	"github.com/tink-crypto/tink-go/v2/internal/verifharness/hlib"
	"github.com/tink-crypto/tink-go/v2/key"
	"github.com/tink-crypto/tink-go/v2/keyset"
	"github.com/tink-crypto/tink-go/v2/mac/hmac"
	"github.com/tink-crypto/tink-go/v2/signature/mldsa"
)

type largeEntry struct {
	k       key.Key
	status  keyset.KeyStatus
	primary bool
}

func largeHandle(es []largeEntry) (*keyset.Handle, error) {
	km := keyset.NewManager()
	for _, e := range es {
		opts := []keyset.KeyOpts{keyset.WithStatus(e.status)}
		if e.primary {
			opts = append(opts, keyset.AsPrimary())
		}
		if _, err := km.AddKeyWithOpts(e.k, internalapi.Token{}, opts...); err != nil {
			return nil, err
		}
	}
	return km.Handle()
}

func binaryLen(h *keyset.Handle) int {
	var buf bytes.Buffer
	if err := insecurecleartextkeyset.Write(h, keyset.NewBinaryWriter(&buf)); err != nil {
		return -1
	}
	return buf.Len()
}

func hmacEntry(r *hlib.Rng, id uint32, keyLen int, primary bool) largeEntry {
	p := must(hmac.NewParameters(hmac.ParametersOpts{KeySizeInBytes: keyLen, TagSizeInBytes: 16, HashType: hmac.SHA256, Variant: hmac.VariantTink}))
	st := keyset.Enabled
	if !primary && id%7 == 3 {
		st = keyset.Disabled
	}
	return largeEntry{must(hmac.NewKey(hlib.Secret(r.Bytes(keyLen)), p, id)), st, primary}
}

func mldsaEntries(n int, primaryAt int) []largeEntry {
	p := must(mldsa.NewParameters(mldsa.MLDSA87, mldsa.VariantTink))
	var es []largeEntry
	for i := 0; i < n; i++ {
		st := keyset.Enabled
		if i != primaryAt && i%5 == 4 {
			st = keyset.Disabled
		}
		es = append(es, largeEntry{must(keygenregistry.CreateKey(p, uint32(1000+i))), st, i == primaryAt})
	}
	return es
}

// hmacBoundary builds an HMAC keyset whose binary form has a key-entry boundary exactly at byte
// `cut`, followed by `after` more entries; the primary is the first key, so the first `cut` bytes
// are a valid keyset on their own.
func hmacBoundary(r *hlib.Rng, cut, after int) ([]largeEntry, bool) {
	var es []largeEntry
	id := uint32(1)
	add := func(l int, primary bool) {
		es = append(es, hmacEntry(r, id, l, primary))
		id++
	}
	add(32, true)
	h := must(largeHandle(es))
	for binaryLen(h) < cut-900 {
		for i := 0; i < 8; i++ {
			add(32, false)
		}
		h = must(largeHandle(es))
	}
	for binaryLen(h) < cut-400 {
		add(32, false)
		h = must(largeHandle(es))
	}
	// one final entry of tuned key length closes the gap exactly
	base := len(es)
	for extra := 0; extra < 3; extra++ {
		l := 16
		for try := 0; try < 12; try++ {
			cand := append(append([]largeEntry{}, es[:base+extra]...), hmacEntry(r, id, l, false))
			d := cut - binaryLen(must(largeHandle(cand)))
			if d == 0 {
				es = cand
				id++
				for i := 0; i < after; i++ {
					add(32, false)
				}
				return es, true
			}
			l += d
			if l < 16 {
				break
			}
		}
		add(32, false) // cannot hit the boundary with this count (a length varint grew): shift by one entry
	}
	return nil, false
}

func (w *world) largeKeyset(class string, es []largeEntry, asym bool, keks []kek, r *hlib.Rng) {
	o := w.o
	o.Case()
	h, err := largeHandle(es)
	if err != nil {
		w.violate("large-keyset/build-fails", "%s: %v", class, err)
		return
	}
	desc := fmt.Sprintf("%s (%d keys, binary %d bytes)", class, len(es), binaryLen(h))
	o.Hist["large-keyset-binary-bytes/"+class] = binaryLen(h)
	check := func(pair string, want, got *keyset.Handle, err error) {
		switch {
		case err != nil:
			w.violate("large-keyset/read-fails/"+pair, "%s: %v", desc, err)
		case sameHandle(want, got) != "":
			w.violate("large-keyset/re-read-differs/"+pair, "%s: %s", desc, sameHandle(want, got))
		default:
			o.Count("large-keyset/" + class + "/" + pair)
		}
	}
	ad := []byte("c12 large keyset")
	kk := keks[r.Intn(len(keks))]
	for _, f := range formats {
		// cleartext
		var buf bytes.Buffer
		mem := &keyset.MemReaderWriter{}
		if err := insecurecleartextkeyset.Write(h, f.writer(&buf, mem)); err != nil {
			w.violate("large-keyset/write-fails/cleartext/"+f.name, "%s: %v", desc, err)
		} else {
			got, err := insecurecleartextkeyset.Read(f.reader(&buf, mem))
			check("cleartext/"+f.name, h, got, err)
			if f.name == "binary" && err == nil {
				// written again from the re-read handle: byte-identical
				var buf2 bytes.Buffer
				if err := insecurecleartextkeyset.Write(got, keyset.NewBinaryWriter(&buf2)); err != nil || !bytes.Equal(buf.Bytes(), buf2.Bytes()) {
					w.violate("large-keyset/binary-rewrite-not-identical", "%s: %v (%d vs %d bytes)", desc, err, buf.Len(), buf2.Len())
				}
			}
		}
		// encrypted, with and without associated data
		for _, withAD := range []bool{false, true} {
			var buf bytes.Buffer
			mem := &keyset.MemReaderWriter{}
			pair := "encrypted/" + f.name
			var err error
			if withAD {
				pair += "/ad"
				err = h.WriteWithAssociatedData(f.writer(&buf, mem), kk.a, ad)
			} else {
				err = h.Write(f.writer(&buf, mem), kk.a)
			}
			if err != nil {
				w.violate("large-keyset/write-fails/"+pair, "%s kek=%s: %v", desc, kk.name, err)
				continue
			}
			var got *keyset.Handle
			if withAD {
				got, err = keyset.ReadWithAssociatedData(f.reader(&buf, mem), kk.a, ad)
			} else {
				got, err = keyset.Read(f.reader(&buf, mem), kk.a)
			}
			check(pair, h, got, err)
		}
		// public-only / no secrets
		if asym {
			pub, err := h.Public()
			if err != nil {
				w.violate("large-keyset/Public-fails", "%s: %v", desc, err)
				continue
			}
			var buf bytes.Buffer
			mem := &keyset.MemReaderWriter{}
			if err := pub.WriteWithNoSecrets(f.writer(&buf, mem)); err != nil {
				w.violate("large-keyset/write-fails/public/"+f.name, "%s: %v", desc, err)
				continue
			}
			got, err := keyset.ReadWithNoSecrets(f.reader(&buf, mem))
			check("public/"+f.name, pub, got, err)
		}
	}
}

func (w *world) largeKeysetStream(r *hlib.Rng) {
	keks := makeKEKs(r)
	// > 64 KiB, > 256 KiB, > 1 MiB of ML-DSA-87 keys; primary first / in the middle / last
	w.largeKeyset("64KiB+/ml-dsa-87x30", mldsaEntries(30, 0), true, keks, r)
	w.largeKeyset("256KiB+/ml-dsa-87x100", mldsaEntries(100, 57), true, keks, r)
	w.largeKeyset("1MiB+/ml-dsa-87x400", mldsaEntries(400, 399), true, keks, r)
	if !quickTier {
		w.largeKeyset("64KiB-/ml-dsa-87x23", mldsaEntries(23, 22), true, keks, r)
		w.largeKeyset("64KiB+/ml-dsa-87x25", mldsaEntries(25, 24), true, keks, r)
		w.largeKeyset("4MiB+/ml-dsa-87x1600", mldsaEntries(1600, 800), true, keks, r)
	}
	// many small entries
	var es []largeEntry
	for i := 0; i < 3000; i++ {
		es = append(es, hmacEntry(r, uint32(i+1), 16+i%17, i == 2999))
	}
	w.largeKeyset("256KiB+/hmac-x3000", es, false, keks, r)
	// byte 65536 exactly on an entry boundary, primary first: the first 64 KiB are a valid keyset
	if es, ok := hmacBoundary(r, 1<<16, 9); ok {
		w.largeKeyset("64KiB-cut-on-entry-boundary/hmac", es, false, keks, r)
	} else {
		w.o.Count("large-keyset/boundary-construction-failed")
	}
	// byte 65536 in the middle of a key, primary behind the cut
	es = nil
	for i := 0; i < 700; i++ {
		es = append(es, hmacEntry(r, uint32(i+1), 64, i == 690))
	}
	w.largeKeyset("64KiB-cut-inside-a-key/hmac", es, false, keks, r)
}
