//go:build verif

package main

// Stream 4: leading-zero handling of big integers (`N …` lines, Lean model
// TinkVerif/Model/BigIntBytes.lean, theorems TinkVerif/Props/C12BigInt.lean).
//
// 4a  the helpers themselves on systematic inputs: ec.BigIntBytesToFixedSizeBuffer, signature.Pad,
//     signature.AdjustEncodingLengths, the four removeLeadingZeros copies, and the unexported ECDSA
//     point helpers (through hooks): every input length 0..2n+2, every number of leading zeros
//     0..n+2, payload classes 0, 1, 256^k-1, 256^k, top bit set, random; n = the three NIST
//     coordinate sizes (and size+1, the width the serializers write), small sizes, RSA sizes.
// 4b  real keys from the grid (ECDSA / ECIES / JWT-ECDSA with forced leading-zero x, y, d; RSA with
//     forced leading-zero d / dp / dq; JWT RSA with a leading-zero modulus): the big-integer proto
//     fields the real serializer produced vs the model applied to the key's accessor bytes, and
//     the accessor bytes of the key the real parser builds from re-padded / stripped / over-long
//     fields vs the model's parser.

import (
	"bytes"
	"fmt"
	"math/big"
	"strings"

	"github.com/tink-crypto/tink-go/v2/hybrid/ecies"
	"github.com/tink-crypto/tink-go/v2/internal/ec"
	"github.com/tink-crypto/tink-go/v2/internal/protoserialization"
	isig "github.com/tink-crypto/tink-go/v2/internal/signature"
	"github.com/tink-crypto/tink-go/v2/internal/verifharness/hlib"
	"github.com/tink-crypto/tink-go/v2/jwt/jwtecdsa"
	"github.com/tink-crypto/tink-go/v2/jwt/jwtrsassapkcs1"
	"github.com/tink-crypto/tink-go/v2/jwt/jwtrsassapss"
	"github.com/tink-crypto/tink-go/v2/key"
	"github.com/tink-crypto/tink-go/v2/signature/ecdsa"
	"github.com/tink-crypto/tink-go/v2/signature/rsassapkcs1"
	"github.com/tink-crypto/tink-go/v2/signature/rsassapss"
	"google.golang.org/protobuf/proto"
	"google.golang.org/protobuf/reflect/protoreflect"

	tinkpb "github.com/tink-crypto/tink-go/v2/proto/tink_go_proto"
)

func optTok(b []byte, err error) string {
	if err != nil {
		return "err"
	}
	return hexTok(b)
}

// ---------------------------------------------------------------- 4a: helpers

// payloads returns the payload classes of k bytes (the part after the leading zeros).
func payloads(r *hlib.Rng, k int) [][]byte {
	if k == 0 {
		return [][]byte{{}}
	}
	mk := func(first, rest byte) []byte {
		b := bytes.Repeat([]byte{rest}, k)
		b[0] = first
		return b
	}
	one := make([]byte, k)
	one[k-1] = 1
	rnd := r.Bytes(k)
	if rnd[0] == 0 {
		rnd[0] = 0x5a
	}
	return [][]byte{
		make([]byte, k),  // value 0 (all of it is leading zeros)
		one,              // value 1
		mk(0xff, 0xff),   // 256^k - 1
		mk(0x01, 0x00),   // 256^(k-1)
		mk(0x80, 0x00),   // top bit set
		rnd,              // random, first byte non-zero
		r.Bytes(k),       // random
	}
}

func (w *world) emitToFixed(in []byte, n int) {
	o := w.o
	got, err := ec.BigIntBytesToFixedSizeBuffer(bytes.Clone(in), n)
	o.Emit(fmt.Sprintf("!N tofixed %s %d", hexTok(in), n), optTok(got, err), true)
	o.Count("bigint/tofixed")
	// independent oracle (math/big): succeeds iff the value fits, and then is the n-byte encoding
	v := new(big.Int).SetBytes(in)
	fits := v.BitLen() <= 8*n
	switch {
	case fits != (err == nil):
		w.violate("bigint/BigIntBytesToFixedSizeBuffer-acceptance", "in=%x size=%d: err=%v but value fits=%v", in, n, err, fits)
	case fits && !bytes.Equal(got, v.FillBytes(make([]byte, n))):
		w.violate("bigint/BigIntBytesToFixedSizeBuffer-value", "in=%x size=%d: got %x, want %x", in, n, got, v.FillBytes(make([]byte, n)))
	}
	if err != nil {
		o.Count("bigint/tofixed/err")
	}
}

func (w *world) emitPad(in []byte, n int) {
	got, err := isig.Pad(bytes.Clone(in), n)
	w.o.Emit(fmt.Sprintf("!N pad %s %d", hexTok(in), n), optTok(got, err), true)
	w.o.Count("bigint/pad")
	if (err == nil) != (len(in) <= n) || (err == nil && (len(got) != n || new(big.Int).SetBytes(got).Cmp(new(big.Int).SetBytes(in)) != 0)) {
		w.violate("bigint/Pad", "in=%x length=%d: got %x err %v", in, n, got, err)
	}
}

func (w *world) emitMinimal(in []byte) {
	a := rsassapkcs1.VerifRemoveLeadingZeros(bytes.Clone(in))
	for i, b := range [][]byte{rsassapss.VerifRemoveLeadingZeros(bytes.Clone(in)), jwtrsassapkcs1.VerifRemoveLeadingZeros(bytes.Clone(in)), jwtrsassapss.VerifRemoveLeadingZeros(bytes.Clone(in))} {
		if !bytes.Equal(a, b) {
			w.violate("bigint/removeLeadingZeros-copies-disagree", "in=%x: rsassapkcs1 %x, copy %d %x", in, a, i+1, b)
		}
	}
	w.o.Emit("!N minimal "+hexTok(in), hexTok(a), true)
	w.o.Count("bigint/minimal")
}

func (w *world) bigintHelpers(r *hlib.Rng) {
	o := w.o
	seen := map[string]bool{}
	once := func(k string) bool {
		if seen[k] {
			return false
		}
		seen[k] = true
		return true
	}
	o.Case()
	// ---- BigIntBytesToFixedSizeBuffer (and Pad / removeLeadingZeros on a subset of the same inputs)
	for _, n := range []int{0, 1, 2, 3, 32, 33, 48, 49, 66, 67} {
		for L := 0; L <= 2*n+2; L++ {
			for z := 0; z <= n+2 && z <= L; z++ {
				// boundary positions get every payload class, the others one in rotation (all of them in the thorough tier)
				edge := z <= 2 || z >= L-1 || (z >= L-n-1 && z <= L-n+1) || n <= 3
				ps := payloads(r, L-z)
				for ci, p := range ps {
					if !edge && quickTier && ci != (L+z)%7 {
						continue
					}
					in := append(make([]byte, z), p...)
					if !once(fmt.Sprintf("f%d|%x", n, in)) {
						continue
					}
					w.emitToFixed(in, n)
					if z <= 1 || z == L {
						w.emitPad(in, n)
						if once(fmt.Sprintf("m|%x", in)) {
							w.emitMinimal(in)
						}
					}
				}
			}
		}
	}
	// ---- Pad / removeLeadingZeros at RSA sizes
	for _, n := range []int{127, 128, 192, 256, 384, 512} {
		for _, L := range []int{0, 1, n - 2, n - 1, n, n + 1, n + 2} {
			for _, z := range []int{0, 1, 2, L} {
				if z > L {
					continue
				}
				for _, p := range payloads(r, L-z) {
					in := append(make([]byte, z), p...)
					if !once(fmt.Sprintf("p%d|%x", n, in)) {
						continue
					}
					w.emitPad(in, n)
					w.emitToFixed(in, n)
					if once(fmt.Sprintf("m|%x", in)) {
						w.emitMinimal(in)
					}
				}
			}
		}
	}
	// ---- big.Int.Bytes() of the public exponents the serializers write
	for _, v := range []uint64{0, 1, 3, 255, 256, 65537, 65539, 1<<31 - 1, 1 << 32, 1<<63 - 1} {
		o.Emit(fmt.Sprintf("!N natbytes %d", v), hexTok(new(big.Int).SetUint64(v).Bytes()), true)
	}
	// ---- AdjustEncodingLengths
	o.Case()
	w.bigintAdjust(r)
	// ---- the ECDSA point helpers and the three coordinate-size tables
	o.Case()
	w.bigintPoints(r)
}

func adjustTok(d, dp, dq, crt []byte, err error) string {
	if err != nil {
		f := err.Error()
		if i := strings.Index(f, ":"); i >= 0 {
			f = f[:i]
		}
		return "err " + f
	}
	return hexTok(d) + " " + hexTok(dp) + " " + hexTok(dq) + " " + hexTok(crt)
}

func (w *world) emitAdjust(n, p, q, d, dp, dq, crt []byte) {
	cl := bytes.Clone
	D, DP, DQ, CRT, err := isig.AdjustEncodingLengths(cl(n), cl(p), cl(q), cl(d), cl(dp), cl(dq), cl(crt))
	w.o.Emit(fmt.Sprintf("!N rsaadjust %s %s %s %s %s %s %s", hexTok(n), hexTok(p), hexTok(q), hexTok(d), hexTok(dp), hexTok(dq), hexTok(crt)),
		adjustTok(D, DP, DQ, CRT, err), true)
	w.o.Count("bigint/rsaadjust")
	if err != nil {
		w.o.Count("bigint/rsaadjust/err")
	}
}

func (w *world) bigintAdjust(r *hlib.Rng) {
	rb := func(n int) []byte {
		if n <= 0 {
			return nil
		}
		b := r.Bytes(n)
		if r.Intn(3) == 0 {
			b[0] = 0 // values with leading zeros of their own
		} else if b[0] == 0 {
			b[0] = 1
		}
		return b
	}
	lens := func(l int, ds ...int) (out []int) {
		for _, d := range ds {
			if v := l + d; v >= 0 {
				out = append(out, v)
			}
		}
		return append(out, 0)
	}
	type tup struct{ nl, pl, ql int }
	// small shapes: the full product of field lengths around the limits (p and q of different lengths)
	for _, t := range []tup{{0, 0, 0}, {1, 1, 1}, {4, 2, 3}, {4, 3, 2}, {5, 3, 3}} {
		n, p, q := rb(t.nl), rb(t.pl), rb(t.ql)
		for _, dl := range lens(t.nl, -2, -1, 0, 1) {
			for _, dpl := range lens(t.pl, -1, 0, 1) {
				for _, dql := range lens(t.ql, -1, 0, 1) {
					for _, cl := range lens(t.pl, -1, 0, 1) {
						w.emitAdjust(n, p, q, rb(dl), rb(dpl), rb(dql), rb(cl))
					}
				}
			}
		}
	}
	// RSA shapes: one field at a time, then combinations of over-long fields (error precedence)
	for _, t := range []tup{{256, 128, 128}, {256, 128, 127}, {256, 127, 128}, {256, 129, 128}, {384, 192, 192}, {512, 256, 256}, {512, 257, 255}} {
		n, p, q := rb(t.nl), rb(t.pl), rb(t.ql)
		base := [4]int{t.nl, t.pl, t.ql, t.pl} // d, dp, dq, crt at full length
		try := func(l [4]int) {
			w.emitAdjust(n, p, q, rb(l[0]), rb(l[1]), rb(l[2]), rb(l[3]))
		}
		try(base)
		for f := 0; f < 4; f++ {
			for _, d := range []int{-3, -2, -1, 1, 2} {
				l := base
				l[f] += d
				try(l)
			}
			l := base
			l[f] = 0
			try(l)
		}
		for mask := 1; mask < 16; mask++ {
			l := base
			for f := 0; f < 4; f++ {
				if mask>>f&1 == 1 {
					l[f]++
				}
			}
			try(l)
		}
		// dq between len(q) and len(p), crt between len(p) and len(q) (which prime is the limit?)
		if t.pl != t.ql {
			try([4]int{t.nl, t.pl, t.pl, t.pl})
			try([4]int{t.nl, t.ql, t.ql, t.ql})
			try([4]int{t.nl, t.pl, t.ql, t.ql})
		}
	}
}

var bigintCurves = []struct {
	bits  int
	ecdsa ecdsa.CurveType
	ecies ecies.CurveType
	jwt   jwtecdsa.Algorithm
}{
	{256, ecdsa.NistP256, ecies.NISTP256, jwtecdsa.ES256},
	{384, ecdsa.NistP384, ecies.NISTP384, jwtecdsa.ES384},
	{521, ecdsa.NistP521, ecies.NISTP521, jwtecdsa.ES512},
}

func sizeTok(n int, err error) string {
	if err != nil {
		return "err"
	}
	return fmt.Sprint(n)
}

func (w *world) bigintPoints(r *hlib.Rng) {
	o := w.o
	for _, c := range bigintCurves {
		// the three copies of the curve → coordinate size table
		op := fmt.Sprintf("!N curve %d", c.bits)
		o.Emit(op, sizeTok(ecdsa.VerifCoordinateSizeForCurve(c.ecdsa)), true)
		o.Emit(op, sizeTok(ecies.VerifCoordinateSizeForCurve(c.ecies)), true)
		o.Emit(op, sizeTok(jwtecdsa.VerifCoordinateSizeFromAlgorithm(c.jwt)), true)
	}
	o.Emit("!N curve 0", sizeTok(ecdsa.VerifCoordinateSizeForCurve(ecdsa.UnknownCurveType)), true)
	o.Emit("!N curve 0", sizeTok(ecies.VerifCoordinateSizeForCurve(ecies.UnknownCurveType)), true)
	o.Emit("!N curve 25519", sizeTok(ecies.VerifCoordinateSizeForCurve(ecies.X25519)), true)
	o.Emit("!N curve 0", sizeTok(jwtecdsa.VerifCoordinateSizeFromAlgorithm(jwtecdsa.UnknownAlgorithm)), true)

	coord := func(cs, z int) []byte { // a coordinate of cs bytes starting with z zero bytes
		b := r.Bytes(cs)
		for i := range b {
			if i < z {
				b[i] = 0
			} else if i == z && b[i] == 0 {
				b[i] = 0x3c
			}
		}
		return b
	}
	for _, c := range bigintCurves {
		cs, _ := ecdsa.VerifCoordinateSizeForCurve(c.ecdsa)
		// validateEncodingAndGetCoordinates: good points with leading-zero coordinates, bad lengths, bad first bytes
		emitCoords := func(pt []byte) {
			var res string
			var x, y []byte
			var err error
			if p := hlib.Recover(func() { x, y, err = ecdsa.VerifValidateEncodingAndGetCoordinates(bytes.Clone(pt), c.ecdsa) }); p != "" {
				res = "panic"
			} else if err != nil {
				res = "err"
			} else {
				res = hexTok(x) + " " + hexTok(y)
			}
			o.Emit(fmt.Sprintf("!N coords %d %s", cs, hexTok(pt)), res, true)
			o.Count("bigint/coords")
		}
		for _, zx := range []int{0, 1, 2, cs - 1, cs} {
			for _, zy := range []int{0, 1, 3, cs} {
				emitCoords(append(append([]byte{4}, coord(cs, zx)...), coord(cs, zy)...))
			}
		}
		good := append(append([]byte{4}, coord(cs, 0)...), coord(cs, 1)...)
		for _, first := range []byte{0, 1, 2, 3, 5, 6, 7, 0x84, 0xff} {
			bad := bytes.Clone(good)
			bad[0] = first
			emitCoords(bad)
		}
		for _, l := range []int{0, 1, 2, cs, cs + 1, 2 * cs, 2*cs + 2, 2*cs + 3, 4*cs + 1} {
			pt := append([]byte{4}, r.Bytes(4*cs+4)...)[:l]
			emitCoords(pt)
			if l > 0 {
				pt = append([]byte{4}, make([]byte, 4*cs+4)...)[:l]
				emitCoords(pt)
			}
		}
		// encodePoint: every pair of lengths 0..cs on a thinned grid. The unexported helper's only
		// call site passes coordinates of exactly cs bytes and its contract is len ≤ cs; what it does
		// beyond that (the original overwrites the 0x04 at cs+1 and panics at cs+2) is not behaviour
		// C12 speaks about, and a behaviour-preserving rewrite may change it (false alarm on the
		// harmless refactoring C09C12-3, see DESIGN §9.6).
		ls := []int{0, 1, 2, cs / 2, cs - 2, cs - 1, cs}
		for _, lx := range ls {
			for _, ly := range ls {
				x, y := r.Bytes(lx), r.Bytes(ly)
				for i := range x {
					x[i] |= 1 // non-zero bytes: an overwritten position is visible
				}
				for i := range y {
					y[i] |= 1
				}
				var res string
				if p := hlib.Recover(func() { res = hexTok(ecdsa.VerifEncodePoint(bytes.Clone(x), bytes.Clone(y), cs)) }); p != "" {
					res = "panic"
				}
				o.Emit(fmt.Sprintf("!N encpoint %d %s %s", cs, hexTok(x), hexTok(y)), res, true)
				o.Count("bigint/encpoint")
			}
		}
		// privateKeyValue: lengths around the coordinate size, with and without leading zeros
		for L := 0; L <= 2*cs+2; L++ {
			if quickTier && L > 3 && (L < cs-3 || L > cs+3) && L%7 != 0 {
				continue
			}
			for _, z := range []int{0, 1, L - cs - 1, L - cs, L - cs + 1, L} {
				if z < 0 || z > L {
					continue
				}
				for ci, p := range payloads(r, L-z) {
					if ci != 2 && ci != 5 {
						continue
					}
					in := append(make([]byte, z), p...)
					got, err := ecdsa.VerifPrivateKeyValue(c.ecdsa, bytes.Clone(in))
					o.Emit(fmt.Sprintf("!N privval %d %s", cs, hexTok(in)), optTok(got, err), true)
					o.Count("bigint/privval")
				}
			}
		}
	}
}

// ---------------------------------------------------------------- 4b: real keys

type ecView struct {
	cs       int
	point, d []byte
	style    string // "e": the parser assembles the point with encodePoint; "c": slices.Concat
}

func ecViewOf(k key.Key) (v ecView, ok bool) {
	pk, isPriv := k.(pubber)
	if !isPriv {
		return v, false
	}
	pub, err := pk.PublicKey()
	if err != nil {
		return v, false
	}
	switch k := k.(type) {
	case *ecdsa.PrivateKey:
		v.cs, _ = ecdsa.VerifCoordinateSizeForCurve(k.Parameters().(*ecdsa.Parameters).CurveType())
		v.point, v.d, v.style = pub.(*ecdsa.PublicKey).PublicPoint(), sd(k.PrivateKeyValue()), "e"
	case *ecies.PrivateKey:
		ct := k.Parameters().(*ecies.Parameters).CurveType()
		if ct == ecies.X25519 {
			return v, false
		}
		v.cs, _ = ecies.VerifCoordinateSizeForCurve(ct)
		v.point, v.d, v.style = pub.(*ecies.PublicKey).PublicKeyBytes(), sd(k.PrivateKeyBytes()), "c"
	case *jwtecdsa.PrivateKey:
		v.cs, _ = jwtecdsa.VerifCoordinateSizeFromAlgorithm(k.Parameters().(*jwtecdsa.Parameters).Algorithm())
		v.point, v.d, v.style = pub.(*jwtecdsa.PublicKey).PublicPoint(), sd(k.PrivateKeyValue()), "c"
	default:
		return v, false
	}
	return v, true
}

type rsaView struct {
	jwt                          bool
	n, e, p, q, d, dp, dq, crt   []byte
	eInt                         int
}

func (v rsaView) toks() string {
	var s []string
	for _, b := range [][]byte{v.n, v.e, v.p, v.q, v.d, v.dp, v.dq, v.crt} {
		s = append(s, hexTok(b))
	}
	return strings.Join(s, " ")
}

func rsaViewOf(k key.Key) (v rsaView, ok bool) {
	pk, isPriv := k.(pubber)
	rp, isRSA := k.(rsaPriv)
	if !isPriv || !isRSA {
		return v, false
	}
	pub, err := pk.PublicKey()
	if err != nil {
		return v, false
	}
	switch pub := pub.(type) {
	case *rsassapkcs1.PublicKey:
		v.n, v.eInt = pub.Modulus(), pub.Parameters().(*rsassapkcs1.Parameters).PublicExponent()
	case *rsassapss.PublicKey:
		v.n, v.eInt = pub.Modulus(), pub.Parameters().(*rsassapss.Parameters).PublicExponent()
	case *jwtrsassapkcs1.PublicKey:
		v.n, v.eInt, v.jwt = pub.Modulus(), pub.Parameters().(*jwtrsassapkcs1.Parameters).PublicExponent(), true
	case *jwtrsassapss.PublicKey:
		v.n, v.eInt, v.jwt = pub.Modulus(), pub.Parameters().(*jwtrsassapss.Parameters).PublicExponent(), true
	default:
		return v, false
	}
	v.e = minimalBE(v.eInt)
	v.p, v.q, v.d, v.dp, v.dq, v.crt = sd(rp.P()), sd(rp.Q()), sd(rp.D()), sd(rp.DP()), sd(rp.DQ()), sd(rp.QInv())
	return v, true
}

func fieldOf(m protoreflect.Message, path []string) (protoreflect.Message, protoreflect.FieldDescriptor) {
	for _, name := range path[:len(path)-1] {
		fd := m.Descriptor().Fields().ByName(protoreflect.Name(name))
		m = m.Mutable(fd).Message()
	}
	return m, m.Descriptor().Fields().ByName(protoreflect.Name(path[len(path)-1]))
}

func getB(m protoreflect.Message, path ...string) []byte {
	mm, fd := fieldOf(m, path)
	return mm.Get(fd).Bytes()
}

func setB(m protoreflect.Message, v []byte, path ...string) {
	mm, fd := fieldOf(m, path)
	mm.Set(fd, protoreflect.ValueOfBytes(v))
}

var (
	ecPaths  = [][]string{{"public_key", "x"}, {"public_key", "y"}, {"key_value"}}
	rsaPaths = [][]string{{"public_key", "n"}, {"public_key", "e"}, {"p"}, {"q"}, {"d"}, {"dp"}, {"dq"}, {"crt"}}
)

// reparse replaces the given fields in the serialized private key and runs the real parser.
func reparse(s *protoserialization.KeySerialization, paths [][]string, vals [][]byte) (k key.Key, err error) {
	m, err := newMsgForURL(s.KeyData().GetTypeUrl())
	if err != nil {
		return nil, err
	}
	if err := proto.Unmarshal(s.KeyData().GetValue(), m.Interface()); err != nil {
		return nil, err
	}
	for i, p := range paths {
		setB(m, vals[i], p...)
	}
	b, err := proto.Marshal(m.Interface())
	if err != nil {
		return nil, err
	}
	id, _ := s.IDRequirement()
	s2, err := protoserialization.NewKeySerialization(&tinkpb.KeyData{TypeUrl: s.KeyData().GetTypeUrl(), Value: b, KeyMaterialType: s.KeyData().GetKeyMaterialType()}, s.OutputPrefixType(), id)
	if err != nil {
		return nil, err
	}
	if p := hlib.Recover(func() { k, err = protoserialization.ParseKey(s2) }); p != "" {
		return nil, fmt.Errorf("panic: %s", p)
	}
	return k, err
}

func stripZeros(b []byte) []byte {
	for len(b) > 0 && b[0] == 0 {
		b = b[1:]
	}
	return b
}

func (w *world) bigintECKey(ctx string, k key.Key, v ecView, r *hlib.Rng) {
	o := w.o
	s, err := protoserialization.SerializeKey(k)
	if err != nil {
		w.violate("bigint/ec-key-unserializable", "%s: %v", ctx, err)
		return
	}
	m, err := newMsgForURL(s.KeyData().GetTypeUrl())
	if err != nil || proto.Unmarshal(s.KeyData().GetValue(), m.Interface()) != nil {
		w.violate("bigint/ec-key-proto", "%s: %v", ctx, err)
		return
	}
	cs := v.cs
	f := [][]byte{getB(m, ecPaths[0]...), getB(m, ecPaths[1]...), getB(m, ecPaths[2]...)}
	for _, b := range f {
		if len(b) < 2 {
			w.violate("bigint/ec-proto-field-too-short", "%s: x=%x y=%x key_value=%x", ctx, f[0], f[1], f[2])
			return
		}
	}
	// serializer: model on the accessor bytes vs the proto fields Go wrote
	o.Emit(fmt.Sprintf("!N eckeyser %d %s %s", cs, hexTok(v.point), hexTok(v.d)), hexTok(f[0])+" "+hexTok(f[1])+" "+hexTok(f[2]), true)
	if len(v.point) == 2*cs+1 {
		for i, c := range [][]byte{v.point[1 : 1+cs], v.point[1+cs:], v.d} {
			o.Emit(fmt.Sprintf("!N ecproto %d %s", cs, hexTok(c)), hexTok(f[i]), true)
		}
	}
	o.Count("bigint/ec-key-serialized")
	// parser: the real ParseKey on variants of the three fields vs the model's parser
	type variant struct {
		what string
		vals [][]byte
	}
	pre := func(b []byte, p ...byte) []byte { return append(append([]byte{}, p...), b...) }
	vs := []variant{
		{"own", f},
		{"stripped", [][]byte{stripZeros(f[0]), stripZeros(f[1]), stripZeros(f[2])}},
		{"exact", [][]byte{f[0][1:], f[1][1:], f[2][1:]}},
		{"x+zeros", [][]byte{pre(f[0], make([]byte, 1+r.Intn(3))...), f[1], f[2]}},
		{"y+zeros", [][]byte{f[0], pre(f[1], make([]byte, 1+r.Intn(3))...), f[2]}},
		{"d+zeros", [][]byte{f[0], f[1], pre(f[2], make([]byte, 1+r.Intn(3))...)}},
		{"all+zeros", [][]byte{pre(f[0], make([]byte, r.Intn(4))...), pre(f[1], make([]byte, r.Intn(4))...), pre(f[2], make([]byte, r.Intn(70))...)}},
		{"x-too-big", [][]byte{pre(f[0][1:], 1), f[1], f[2]}},
		{"y-too-big", [][]byte{f[0], pre(f[1], 0, 2), f[2]}},
		{"d-too-big", [][]byte{f[0], f[1], pre(f[2][1:], 0x80)}},
	}
	for _, vr := range vs {
		k2, err := reparse(s, ecPaths, vr.vals)
		res := "err"
		if err == nil {
			v2, ok := ecViewOf(k2)
			if !ok {
				w.violate("bigint/ec-parsed-key-type", "%s %s: %T", ctx, vr.what, k2)
				continue
			}
			res = hexTok(v2.point) + " " + hexTok(v2.d)
			if !strings.HasSuffix(vr.what, "too-big") && !k2.Equal(k) {
				w.violate("bigint/ec-leading-zeros-change-the-key", "%s %s: parsed key is not Equal to the original", ctx, vr.what)
			}
		}
		o.Emit(fmt.Sprintf("!N eckeyparse %d %s %s %s %s", cs, v.style, hexTok(vr.vals[0]), hexTok(vr.vals[1]), hexTok(vr.vals[2])), res, true)
		o.Count("bigint/ec-key-parsed/" + vr.what)
		if vr.what == "own" && err == nil {
			// field by field: proto field → coordinate of the parsed key
			v2, _ := ecViewOf(k2)
			if len(v2.point) == 2*cs+1 {
				for i, c := range [][]byte{v2.point[1 : 1+cs], v2.point[1+cs:], v2.d} {
					o.Emit(fmt.Sprintf("!N ecparse %d %s", cs, hexTok(f[i])), hexTok(c), true)
				}
			}
		}
	}
}

func (w *world) bigintRSAKey(ctx string, k key.Key, v rsaView, r *hlib.Rng) {
	o := w.o
	s, err := protoserialization.SerializeKey(k)
	if err != nil {
		if strings.Contains(err.Error(), "salt length zero") {
			return
		}
		w.violate("bigint/rsa-key-unserializable", "%s: %v", ctx, err)
		return
	}
	m, err := newMsgForURL(s.KeyData().GetTypeUrl())
	if err != nil || proto.Unmarshal(s.KeyData().GetValue(), m.Interface()) != nil {
		w.violate("bigint/rsa-key-proto", "%s: %v", ctx, err)
		return
	}
	var f [][]byte
	var ft []string
	for _, p := range rsaPaths {
		f = append(f, getB(m, p...))
		ft = append(ft, hexTok(f[len(f)-1]))
	}
	// serializer: model on the accessor bytes vs the proto fields Go wrote
	o.Emit("!N rsaser "+v.toks(), strings.Join(ft, " "), true)
	o.Emit(fmt.Sprintf("!N rsaadjust %s %s %s %s %s %s %s", hexTok(v.n), hexTok(v.p), hexTok(v.q), hexTok(v.d), hexTok(v.dp), hexTok(v.dq), hexTok(v.crt)),
		strings.Join(ft[4:], " "), true)
	o.Emit(fmt.Sprintf("!N natbytes %d", v.eInt), ft[1], true)
	o.Count("bigint/rsa-key-serialized")
	for i, name := range []string{"d", "dp", "dq", "crt"} {
		if len(f[4+i]) > 0 && f[4+i][0] == 0 {
			o.Count("bigint/rsa-field-with-leading-zero/" + name)
		}
	}
	if len(v.p) != len(v.q) {
		o.Count("bigint/rsa-key-with-len(p)!=len(q)")
	}
	// parser
	type variant struct {
		what string
		vals [][]byte
	}
	zs := func(max int) [][]byte {
		var out [][]byte
		for _, b := range f {
			out = append(out, append(make([]byte, r.Intn(max+1)), b...))
		}
		return out
	}
	one := make([][]byte, len(f))
	stripped := make([][]byte, len(f))
	for i, b := range f {
		one[i] = append([]byte{0}, b...)
		stripped[i] = stripZeros(b)
	}
	vs := []variant{{"own", f}, {"stripped", stripped}, {"all+1zero", one}, {"all+zeros", zs(3)}}
	if !quickTier {
		vs = append(vs, variant{"all+zeros", zs(5)})
	}
	for _, vr := range vs {
		k2, err := reparse(s, rsaPaths, vr.vals)
		res := "err"
		if err == nil {
			v2, ok := rsaViewOf(k2)
			if !ok {
				w.violate("bigint/rsa-parsed-key-type", "%s %s: %T", ctx, vr.what, k2)
				continue
			}
			res = v2.toks()
			// leading zeros must not change the key (JWT: the modulus is kept verbatim, a known discrepancy)
			if eq := k2.Equal(k); !eq && !(v.jwt && !bytes.Equal(vr.vals[0], f[0])) {
				w.violate("bigint/rsa-leading-zeros-change-the-key", "%s %s: parsed key is not Equal to the original", ctx, vr.what)
			} else if !eq {
				o.Count("bigint/jwt-rsa-modulus-kept-verbatim(not-Equal)")
			}
		} else {
			w.violate("bigint/rsa-leading-zeros-rejected", "%s %s: %v", ctx, vr.what, err)
		}
		var ts []string
		for _, b := range vr.vals {
			ts = append(ts, hexTok(b))
		}
		o.Emit(fmt.Sprintf("!N rsaparse %s %s", hlib.B01(v.jwt), strings.Join(ts, " ")), res, true)
		o.Count("bigint/rsa-key-parsed/" + vr.what)
	}
}

// jwtLeadingZeroModulus rebuilds a JWT RSA private key on the modulus 0x00‖n (the JWT key types
// keep the caller's modulus bytes verbatim).
func jwtLeadingZeroModulus(k key.Key, zeros int) (key.Key, error) {
	v, ok := rsaViewOf(k)
	if !ok || !v.jwt {
		return nil, fmt.Errorf("not a JWT RSA private key")
	}
	id, _ := k.IDRequirement()
	n := append(make([]byte, zeros), v.n...)
	switch k := k.(type) {
	case *jwtrsassapkcs1.PrivateKey:
		pub0, _ := k.PublicKey()
		kid, has := pub0.(*jwtrsassapkcs1.PublicKey).KID()
		custom := k.Parameters().(*jwtrsassapkcs1.Parameters).KIDStrategy() == jwtrsassapkcs1.CustomKID
		pub, err := jwtrsassapkcs1.NewPublicKey(jwtrsassapkcs1.PublicKeyOpts{Modulus: n, IDRequirement: id, CustomKID: kid, HasCustomKID: custom && has, Parameters: k.Parameters().(*jwtrsassapkcs1.Parameters)})
		if err != nil {
			return nil, err
		}
		return jwtrsassapkcs1.NewPrivateKey(jwtrsassapkcs1.PrivateKeyOpts{PublicKey: pub, D: k.D(), P: k.P(), Q: k.Q()})
	case *jwtrsassapss.PrivateKey:
		pub0, _ := k.PublicKey()
		kid, has := pub0.(*jwtrsassapss.PublicKey).KID()
		custom := k.Parameters().(*jwtrsassapss.Parameters).KIDStrategy() == jwtrsassapss.CustomKID
		pub, err := jwtrsassapss.NewPublicKey(jwtrsassapss.PublicKeyOpts{Modulus: n, IDRequirement: id, CustomKID: kid, HasCustomKID: custom && has, Parameters: k.Parameters().(*jwtrsassapss.Parameters)})
		if err != nil {
			return nil, err
		}
		return jwtrsassapss.NewPrivateKey(jwtrsassapss.PrivateKeyOpts{PublicKey: pub, D: k.D(), P: k.P(), Q: k.Q()})
	}
	return nil, fmt.Errorf("not a JWT RSA private key")
}

func (w *world) bigintKeys(grid []gcase, r *hlib.Rng) {
	o := w.o
	perGroup := hlib.N(2, 6)
	taken := map[string]int{}
	for i := range grid {
		c := &grid[i]
		switch c.typ {
		case "EcdsaPrivateKey", "EciesAeadHkdfPrivateKey", "JwtEcdsaPrivateKey",
			"RsaSsaPkcs1PrivateKey", "RsaSsaPssPrivateKey", "JwtRsaSsaPkcs1PrivateKey", "JwtRsaSsaPssPrivateKey":
		default:
			continue
		}
		if c.noser != "" || strings.HasPrefix(c.mat, "public-only") {
			continue
		}
		// the group is known only after the key exists for EC (curve); use the label's leading component
		grp := c.typ + "|" + orFresh(c.mat) + "|" + strings.SplitN(c.label, "/", 2)[0]
		if taken[grp] >= perGroup {
			continue
		}
		id := uint32(0)
		if c.params.HasIDRequirement() {
			id = uint32(r.U64())
		}
		k, err := c.make(id)
		if err != nil {
			continue // reported by stream 1
		}
		ctx := fmt.Sprintf("%s[%s] material=%s", c.typ, c.label, orFresh(c.mat))
		if v, ok := ecViewOf(k); ok {
			taken[grp]++
			o.Case()
			o.Count("bigint/ec-key/" + c.typ + "/" + orFresh(c.mat))
			w.bigintECKey(ctx, k, v, r)
		} else if v, ok := rsaViewOf(k); ok {
			taken[grp]++
			o.Case()
			o.Count("bigint/rsa-key/" + c.typ + "/" + orFresh(c.mat))
			w.bigintRSAKey(ctx, k, v, r)
			if v.jwt && taken[grp] == 1 {
				for _, z := range []int{1, 3} {
					kz, err := jwtLeadingZeroModulus(k, z)
					if err != nil {
						w.violate("bigint/jwt-rsa-leading-zero-modulus-refused", "%s: %v", ctx, err)
						continue
					}
					vz, _ := rsaViewOf(kz)
					o.Case()
					o.Count("bigint/rsa-key/" + c.typ + "/lz-n")
					w.bigintRSAKey(ctx+fmt.Sprintf(" modulus with %d leading zero bytes", z), kz, vz, r)
				}
			}
		}
	}
}

func (w *world) bigintStream(grid []gcase, r *hlib.Rng) {
	w.bigintHelpers(r)
	w.bigintKeys(grid, r)
}
