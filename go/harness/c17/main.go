//go:build verif

// placeholder: harness c17 is being written
package main

import "github.com/tink-crypto/tink-go/v2/internal/verifharness/hlib"

func main() {
	o := hlib.Open("c17")
	defer o.Close()
	o.Emit("P enc 1:v128,3:b48656c6c6f", "0880011a0548656c6c6f", true)
	o.Emit("V derive 5:E:0:5:1;7:E:1:-:3", "ok 5:E:0:1;7:E:1:3", true)
}
