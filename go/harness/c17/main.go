//go:build verif

// Harness c17: keyset derivation (property C17). Deriver keysets of 1..5 PRF-based deriver keys over
// every derivable key type × variant × status × primary choice × PRF hash / salt / key size are
// built (internal AddKeyWithOpts, the public manager API, key templates, parameters), then
// keyderivation.New(handle).DeriveKeyset(salt) is run for salts empty / short / 1 KiB.
//
//	!V derive <entries>                              structure of the derived handle vs the manager model
//	!V material <hash> <prfKey> <prfSalt> <salt> <n>  key bytes of every derived key vs RFC 5869 over the reference hash
//
// Directly on the implementation (o.Violate): one ENABLED key per ENABLED deriver key, in order,
// same id / primary / parameters (variant) / output prefix; derived key Equal to an ordinary key
// built from the same bytes; two derivations Equal; other salt, PRF key, PRF salt or PRF hash gives
// other keys (and leaves the other entries' keys alone); the keyset re-read from its serialization
// derives the same; every derived key works through the public primitive factories.
// A keyset.Config handing the factory doctored key derivers reaches the factory's error paths (id
// requirement of the derived key ≠ key id) and its legacy-primitive wrapper.
// prefix.go: hand-written serialized deriver keysets over the (entry prefix type × template prefix
// type × key type) grid (!V accept, behaviour lines !X / !A / !G for the entry's prefix type).
// history.go: one deriver object, one salt buffer overwritten / re-sliced / restored between calls.
// limits.go: derived key sizes around the HKDF output limit 255·hashLen (!V hkdfkey), multi-key keysets in which one
// key fails at derivation time, at every position and in every role (!V derivef).
package main

import (
	"bytes"
	"fmt"
	"strings"

	"github.com/tink-crypto/tink-go/v2/aead"
	"github.com/tink-crypto/tink-go/v2/daead"
	"github.com/tink-crypto/tink-go/v2/insecurecleartextkeyset"
	"github.com/tink-crypto/tink-go/v2/internal/internalapi"
	"github.com/tink-crypto/tink-go/v2/internal/protoserialization"
	"github.com/tink-crypto/tink-go/v2/internal/registryconfig/legacyprimitive"
	"github.com/tink-crypto/tink-go/v2/internal/verifharness/hlib"
	"github.com/tink-crypto/tink-go/v2/key"
	"github.com/tink-crypto/tink-go/v2/keyderivation"
	"github.com/tink-crypto/tink-go/v2/keyderivation/prfbasedkeyderivation"
	"github.com/tink-crypto/tink-go/v2/keyset"
	"github.com/tink-crypto/tink-go/v2/mac"
	"github.com/tink-crypto/tink-go/v2/prf"
	"github.com/tink-crypto/tink-go/v2/prf/aescmacprf"
	"github.com/tink-crypto/tink-go/v2/prf/hkdfprf"
	"github.com/tink-crypto/tink-go/v2/prf/hmacprf"
	tinkpb "github.com/tink-crypto/tink-go/v2/proto/tink_go_proto"
	"github.com/tink-crypto/tink-go/v2/signature"
	"github.com/tink-crypto/tink-go/v2/streamingaead"
)

var itok = internalapi.Token{}

type world struct {
	o   *hlib.Out
	rng *hlib.Rng
}

func statusCode(s keyset.KeyStatus) string {
	switch s {
	case keyset.Enabled:
		return "E"
	case keyset.Disabled:
		return "D"
	case keyset.Destroyed:
		return "X"
	}
	return "U"
}

// ---------- deriver keys and keysets ----------

// plan: what the generator wants one deriver keyset entry to be.
type plan struct {
	spec    dspec
	prfHash int // index into hashNames
	prfKey  []byte
	prfSalt []byte
	id      uint32
	status  keyset.KeyStatus
	primary bool
}

// ent: one entry of a deriver keyset as read back from the handle.
type ent struct {
	id      uint32
	status  keyset.KeyStatus
	primary bool
	dk      *prfbasedkeyderivation.Key
	dparams key.Parameters
	spec    dspec
	hasID   bool
	prfHash int
	prfKey  []byte
	prfSalt []byte
}

func mkPRFKey(hash int, kb, salt []byte) (*hkdfprf.Key, error) {
	ps, err := hkdfprf.NewParameters(len(kb), hkdfprf.HashType(hash+1), salt)
	if err != nil {
		return nil, err
	}
	return hkdfprf.NewKey(hlib.Secret(kb), ps)
}

func mkDeriverParams(p plan) (*prfbasedkeyderivation.Parameters, error) {
	ps, err := hkdfprf.NewParameters(len(p.prfKey), hkdfprf.HashType(p.prfHash+1), p.prfSalt)
	if err != nil {
		return nil, err
	}
	dp, err := p.spec.params()
	if err != nil {
		return nil, err
	}
	return prfbasedkeyderivation.NewParameters(ps, dp)
}

func mkDeriverKey(p plan) (*prfbasedkeyderivation.Key, error) {
	pk, err := mkPRFKey(p.prfHash, p.prfKey, p.prfSalt)
	if err != nil {
		return nil, err
	}
	pp, err := mkDeriverParams(p)
	if err != nil {
		return nil, err
	}
	id := p.id
	if !pp.HasIDRequirement() {
		id = 0
	}
	return prfbasedkeyderivation.NewKey(pp, pk, id)
}

// view reads the deriver keyset back through the handle's public API.
func view(h *keyset.Handle) []ent {
	es := make([]ent, h.Len())
	for i := range es {
		e, err := h.Entry(i)
		if err != nil {
			panic(err)
		}
		dk, ok := e.Key().(*prfbasedkeyderivation.Key)
		if !ok {
			panic(fmt.Sprintf("deriver keyset entry of type %T", e.Key()))
		}
		pp := dk.Parameters().(*prfbasedkeyderivation.Parameters)
		pk, ok := dk.PRFKey().(*hkdfprf.Key)
		if !ok {
			panic(fmt.Sprintf("PRF key of type %T", dk.PRFKey()))
		}
		pps := pk.Parameters().(*hkdfprf.Parameters)
		spec, ok := specOf(pp.DerivedKeyParameters())
		if !ok {
			panic(fmt.Sprintf("derived parameters of type %T", pp.DerivedKeyParameters()))
		}
		_, has := dk.IDRequirement()
		es[i] = ent{id: e.KeyID(), status: e.KeyStatus(), primary: e.IsPrimary(), dk: dk, dparams: pp.DerivedKeyParameters(),
			spec: spec, hasID: has, prfHash: int(pps.HashType()) - 1, prfKey: pk.KeyBytes().Data(stok), prfSalt: pps.Salt()}
	}
	return es
}

func plansOf(es []ent) []plan {
	ps := make([]plan, len(es))
	for i, e := range es {
		ps[i] = plan{spec: e.spec, prfHash: e.prfHash, prfKey: e.prfKey, prfSalt: e.prfSalt, id: e.id, status: e.status, primary: e.primary}
	}
	return ps
}

// buildOpts assembles the keyset with the internal AddKeyWithOpts: every id, status (DESTROYED
// included) and primary position is reachable.
func buildOpts(ps []plan) (*keyset.Handle, error) {
	km := keyset.NewManager()
	for _, p := range ps {
		dk, err := mkDeriverKey(p)
		if err != nil {
			return nil, err
		}
		opts := []keyset.KeyOpts{keyset.WithFixedID(p.id)}
		if p.primary {
			opts = append(opts, keyset.AsPrimary())
		} else {
			opts = append(opts, keyset.WithStatus(p.status))
		}
		if _, err := km.AddKeyWithOpts(dk, itok, opts...); err != nil {
			return nil, err
		}
	}
	return km.Handle()
}

// finish applies primary / status through the public manager API (DESTROYED is not reachable: DISABLED).
func finish(km *keyset.Manager, ids []uint32, ps []plan) (*keyset.Handle, error) {
	for i, p := range ps {
		if p.primary {
			if err := km.SetPrimary(ids[i]); err != nil {
				return nil, err
			}
		}
	}
	for i, p := range ps {
		if !p.primary && p.status != keyset.Enabled {
			if err := km.Disable(ids[i]); err != nil {
				return nil, err
			}
		}
	}
	return km.Handle()
}

// buildPublic: keys made by the harness, added with the public AddKey (random ids for the keys
// without id requirement — drawn from the deterministic tape).
func buildPublic(ps []plan) (*keyset.Handle, error) {
	km := keyset.NewManager()
	ids := make([]uint32, len(ps))
	for i, p := range ps {
		dk, err := mkDeriverKey(p)
		if err != nil {
			return nil, err
		}
		id, err := km.AddKey(dk)
		if err != nil {
			return nil, err
		}
		ids[i] = id
	}
	return finish(km, ids, ps)
}

// buildParams: keys generated by the library from prfbasedkeyderivation.Parameters.
func buildParams(ps []plan) (*keyset.Handle, error) {
	km := keyset.NewManager()
	ids := make([]uint32, len(ps))
	for i, p := range ps {
		pp, err := mkDeriverParams(p)
		if err != nil {
			return nil, err
		}
		id, err := km.AddNewKeyFromParameters(pp)
		if err != nil {
			return nil, err
		}
		ids[i] = id
	}
	return finish(km, ids, ps)
}

var namedDerived = []func() *tinkpb.KeyTemplate{
	aead.AES128GCMKeyTemplate, aead.AES256GCMKeyTemplate, aead.AES256GCMNoPrefixKeyTemplate, aead.XChaCha20Poly1305KeyTemplate,
	daead.AESSIVKeyTemplate,
	mac.HMACSHA256Tag128KeyTemplate, mac.HMACSHA256Tag256KeyTemplate, mac.HMACSHA512Tag256KeyTemplate, mac.HMACSHA512Tag512KeyTemplate,
	prf.HKDFSHA256PRFKeyTemplate, prf.HMACSHA256PRFKeyTemplate, prf.HMACSHA512PRFKeyTemplate,
	signature.ED25519KeyTemplate,
	streamingaead.AES128GCMHKDF4KBKeyTemplate, streamingaead.AES128GCMHKDF1MBKeyTemplate, streamingaead.AES256GCMHKDF4KBKeyTemplate, streamingaead.AES256GCMHKDF1MBKeyTemplate,
}

func (w *world) templateOf(p plan) (*tinkpb.KeyTemplate, error) {
	var prfT, derT *tinkpb.KeyTemplate
	if w.rng.Chance(40) {
		prfT = prf.HKDFSHA256PRFKeyTemplate()
	} else {
		ps, err := hkdfprf.NewParameters(len(p.prfKey), hkdfprf.HashType(p.prfHash+1), p.prfSalt)
		if err != nil {
			return nil, err
		}
		if prfT, err = protoserialization.SerializeParameters(ps); err != nil {
			return nil, err
		}
	}
	if w.rng.Chance(50) {
		derT = namedDerived[w.rng.Intn(len(namedDerived))]()
	} else {
		dp, err := p.spec.params()
		if err != nil {
			return nil, err
		}
		if derT, err = protoserialization.SerializeParameters(dp); err != nil {
			return nil, err
		}
	}
	return keyderivation.CreatePRFBasedKeyTemplate(prfT, derT)
}

// buildTemplates: keyset.NewHandle(template) for one key, Manager.Add(template) otherwise.
func (w *world) buildTemplates(ps []plan) (*keyset.Handle, error) {
	if len(ps) == 1 {
		t, err := w.templateOf(ps[0])
		if err != nil {
			return nil, err
		}
		return keyset.NewHandle(t)
	}
	km := keyset.NewManager()
	ids := make([]uint32, len(ps))
	for i, p := range ps {
		t, err := w.templateOf(p)
		if err != nil {
			return nil, err
		}
		id, err := km.Add(t)
		if err != nil {
			return nil, err
		}
		ids[i] = id
	}
	return finish(km, ids, ps)
}

// ---------- generation ----------

func (w *world) prfMaterial() (hash int, kb, salt []byte, class string) {
	rng := w.rng
	hash = rng.Pick(2, 4)
	ksz := rng.Pick(32, 48, 64, 32, 64, 33+rng.Intn(96))
	kb = rng.Bytes(ksz)
	switch rng.Intn(5) {
	case 0:
		salt, class = nil, "salt0"
	case 1:
		salt, class = rng.Bytes(16), "salt16"
	case 2:
		salt, class = rng.Bytes(64), "salt64"
	case 3:
		salt, class = rng.Bytes(hashLens[hash]), "saltHashLen"
	default:
		salt, class = rng.Bytes(1+rng.Intn(200)), "saltOther"
	}
	kc := "other"
	if ksz == 32 || ksz == 48 || ksz == 64 {
		kc = fmt.Sprint(ksz)
	}
	return hash, kb, salt, hashNames[hash] + "/key" + kc + "/" + class
}

func (w *world) plans(nk int) []plan {
	rng := w.rng
	ps := make([]plan, nk)
	used := map[uint32]bool{}
	prim := rng.Intn(nk)
	var fam string
	homogeneous := rng.Chance(35) // all keys of one primitive family: the derived keyset works as a whole
	for i := range ps {
		p := &ps[i]
		for {
			p.spec = randSpec(rng)
			if !homogeneous || i == 0 || (p.spec.family() == fam && p.spec.std()) {
				break
			}
		}
		if i == 0 {
			fam = p.spec.family()
			if homogeneous && !p.spec.std() {
				homogeneous = false
			}
		}
		var cls string
		p.prfHash, p.prfKey, p.prfSalt, cls = w.prfMaterial()
		w.o.Count("prf/" + cls)
		if i > 0 && rng.Chance(12) { // the same PRF key under two entries
			q := ps[rng.Intn(i)]
			p.prfHash, p.prfKey, p.prfSalt = q.prfHash, q.prfKey, q.prfSalt
			w.o.Count("prf/shared-between-entries")
		}
		id := rng.KeyID()
		for used[id] {
			id++
		}
		used[id] = true
		p.id = id
		p.primary = i == prim
		p.status = keyset.Enabled
		if !p.primary {
			switch r := rng.Intn(100); {
			case r < 25:
				p.status = keyset.Disabled
			case r < 40:
				p.status = keyset.Destroyed
			}
		}
	}
	return ps
}

func (w *world) salts() ([][]byte, []string) {
	rng := w.rng
	one := func() ([]byte, string) {
		switch rng.Intn(8) {
		case 0:
			return nil, "nil"
		case 1:
			return []byte{}, "empty"
		case 2, 3:
			return rng.Bytes(1 + rng.Intn(40)), "short"
		case 4:
			return rng.Bytes(41 + rng.Intn(260)), "medium"
		case 5, 6:
			return rng.Bytes(1024), "1KiB"
		}
		return rng.Bytes(1025 + rng.Intn(3072)), "over1KiB"
	}
	var ss [][]byte
	var cs []string
	for i := 0; i < 2; i++ {
		s, c := one()
		ss, cs = append(ss, s), append(cs, c)
	}
	// a third salt close to the first one: one bit, one more / one fewer byte, nil vs empty
	s0 := ss[0]
	var s []byte
	c := "near"
	switch {
	case len(s0) == 0 && rng.Bool():
		if s0 == nil {
			s = []byte{}
		} else {
			s = nil
		}
		c = "nil-vs-empty"
	case len(s0) == 0:
		s = []byte{0}
	default:
		s = append([]byte(nil), s0...)
		switch rng.Intn(3) {
		case 0:
			s[rng.Intn(len(s))] ^= 1 << uint(rng.Intn(8))
		case 1:
			s = append(s, 0)
		default:
			s = s[:len(s)-1]
		}
	}
	return append(ss, s), append(cs, c)
}

// ---------- dumps ----------

type deriver interface {
	DeriveKey(salt []byte) (key.Key, error)
}

// entriesTok prints the deriver keyset for the model: id:S:p:idReq:key.
func entriesTok(es []ent, idReq []string) string {
	ss := make([]string, len(es))
	for i, e := range es {
		ss[i] = fmt.Sprintf("%d:%s:%s:%s:%d", e.id, statusCode(e.status), hlib.B01(e.primary), idReq[i], i)
	}
	return strings.Join(ss, ";")
}

func naturalIDReq(es []ent) []string {
	r := make([]string, len(es))
	for i, e := range es {
		r[i] = "-"
		if e.hasID {
			idr, _ := e.dk.IDRequirement()
			r[i] = fmt.Sprint(idr)
		}
	}
	return r
}

func enabledIdx(es []ent) []int {
	var ix []int
	for i, e := range es {
		if e.status == keyset.Enabled {
			ix = append(ix, i)
		}
	}
	return ix
}

// dumpDerived prints the derived handle (public API) in Driver.Mgr.showEntries format. A derived
// key is named after the deriver entry whose own key deriver yields it (singles[i], derived one
// key at a time outside the factory); 999 if no entry does.
func dumpDerived(dh *keyset.Handle, es []ent, singles []key.Key) string {
	if dh.Len() == 0 {
		return "-"
	}
	en := enabledIdx(es)
	ss := make([]string, dh.Len())
	for j := range ss {
		e, err := dh.Entry(j)
		if err != nil {
			panic(err)
		}
		name := 999
		if j < len(en) && singles[en[j]] != nil && singles[en[j]].Equal(e.Key()) {
			name = en[j]
		} else {
			for _, i := range en {
				if singles[i] != nil && singles[i].Equal(e.Key()) {
					name = i
					break
				}
			}
		}
		ss[j] = fmt.Sprintf("%d:%s:%s:%d", e.KeyID(), statusCode(e.KeyStatus()), hlib.B01(e.IsPrimary()), name)
	}
	return strings.Join(ss, ";")
}

func handleEqual(a, b *keyset.Handle) bool {
	if a.Len() != b.Len() {
		return false
	}
	for i := 0; i < a.Len(); i++ {
		x, err1 := a.Entry(i)
		y, err2 := b.Entry(i)
		if err1 != nil || err2 != nil {
			return false
		}
		if x.KeyID() != y.KeyID() || x.KeyStatus() != y.KeyStatus() || x.IsPrimary() != y.IsPrimary() || !x.Key().Equal(y.Key()) || !y.Key().Equal(x.Key()) {
			return false
		}
	}
	return true
}

func keysOf(h *keyset.Handle) []key.Key {
	ks := make([]key.Key, h.Len())
	for i := range ks {
		e, err := h.Entry(i)
		if err != nil {
			panic(err)
		}
		ks[i] = e.Key()
	}
	return ks
}

// ---------- the checks on one derivation ----------

// singlesOf derives, outside the keyset factory, the key of every ENABLED entry on its own.
func singlesOf(es []ent, salt []byte) []key.Key {
	out := make([]key.Key, len(es))
	for i, e := range es {
		if e.status != keyset.Enabled {
			continue
		}
		d, err := prfbasedkeyderivation.NewKeyDeriver(e.dk, itok)
		if err != nil {
			continue
		}
		k, err := d.DeriveKey(salt)
		if err == nil {
			out[i] = k
		}
	}
	return out
}

// materialLine emits the reference line for one derived key.
func (w *world) materialLine(e ent, salt []byte, k key.Key, what string) []byte {
	kb, ok := keyBytesOf(k)
	if !ok {
		w.o.Violate("%s: derived key of unexpected type %T", what, k)
		return nil
	}
	need := e.spec.need()
	if len(kb) != need {
		w.o.Violate("%s: derived %s key has %d key bytes, its rule takes %d", what, e.spec.label(), len(kb), need)
	}
	w.o.Emit(fmt.Sprintf("!V material %s %s %s %s %d", hashNames[e.prfHash], hlib.Tok(e.prfKey), hlib.Tok(e.prfSalt), hlib.Tok(salt), need), hlib.Tok(kb), true)
	return kb
}

// derive runs DeriveKeyset on a well-formed deriver keyset and checks everything about the result.
// Returns the derived handle (nil on failure).
func (w *world) derive(kd keyderivation.KeysetDeriver, h *keyset.Handle, es []ent, salt []byte, what string) *keyset.Handle {
	o := w.o
	keep := append([]byte(nil), salt...)
	dh, err := kd.DeriveKeyset(salt)
	if !bytes.Equal(keep, salt) {
		o.Violate("%s: DeriveKeyset modified the caller's salt", what)
	}
	line := "!V derive " + entriesTok(es, naturalIDReq(es))
	if err != nil {
		o.Emit(line, "err", true)
		o.Violate("%s: DeriveKeyset failed on a well-formed deriver keyset: %v", what, err)
		return nil
	}
	singles := singlesOf(es, salt)
	o.Emit(line, "ok "+dumpDerived(dh, es, singles), true)

	en := enabledIdx(es)
	if dh.Len() != len(en) {
		o.Violate("%s: %d derived keys for %d ENABLED deriver keys", what, dh.Len(), len(en))
		return dh
	}
	nprim := 0
	for j, i := range en {
		src := es[i]
		de, err := dh.Entry(j)
		if err != nil {
			o.Violate("%s: Entry(%d) of the derived handle: %v", what, j, err)
			continue
		}
		tag := fmt.Sprintf("%s: derived key %d (from entry %d, id %d, %s/%s)", what, j, i, src.id, src.spec.label(), vNames[src.spec.variant])
		if de.KeyID() != src.id {
			o.Violate("%s has id %d", tag, de.KeyID())
		}
		if de.KeyStatus() != keyset.Enabled {
			o.Violate("%s has status %s", tag, statusCode(de.KeyStatus()))
		}
		if de.IsPrimary() != src.primary {
			o.Violate("%s: primary=%v, deriver entry primary=%v", tag, de.IsPrimary(), src.primary)
		}
		if de.IsPrimary() {
			nprim++
		}
		k := de.Key()
		if !k.Parameters().Equal(src.dparams) || !src.dparams.Equal(k.Parameters()) {
			o.Violate("%s: parameters differ from the deriver key's derived-key parameters", tag)
		}
		idr, has := k.IDRequirement()
		if has != src.hasID || (has && idr != src.id) {
			o.Violate("%s: id requirement (%d,%v), want (%d,%v)", tag, idr, has, src.id, src.hasID)
		}
		if pre, ok := outputPrefixOf(k); ok {
			if !bytes.Equal(pre, wantPrefix(src.spec.variant, src.id)) {
				o.Violate("%s: output prefix %x, want %x", tag, pre, wantPrefix(src.spec.variant, src.id))
			}
		} else if src.spec.variant != vR {
			o.Violate("%s: key without OutputPrefix for a prefixed variant", tag)
		}
		if ds, err := protoserialization.SerializeKey(k); err == nil {
			if ss, err := protoserialization.SerializeKey(src.dk); err == nil && ss.OutputPrefixType() != ds.OutputPrefixType() {
				o.Violate("%s: serialized prefix type %v, deriver key's %v", tag, ds.OutputPrefixType(), ss.OutputPrefixType())
			}
		}
		if singles[i] == nil || !singles[i].Equal(k) {
			o.Violate("%s differs from the key the entry's own key deriver yields", tag)
		}
		kb := w.materialLine(src, salt, k, tag)
		if kb != nil {
			direct, err := src.spec.build(src.id, kb)
			if err != nil {
				o.Violate("%s: an ordinary key cannot be built from the derived bytes: %v", tag, err)
			} else if !direct.Equal(k) || !k.Equal(direct) {
				o.Violate("%s is not Equal to the ordinary key built from its bytes", tag)
			}
		}
	}
	if nprim != 1 {
		o.Violate("%s: %d primaries in the derived handle", what, nprim)
	}
	if pe, err := dh.Primary(); err != nil {
		o.Violate("%s: derived handle has no primary: %v", what, err)
	} else {
		for _, e := range es {
			if e.primary && pe.KeyID() != e.id {
				o.Violate("%s: derived primary id %d, deriver primary id %d", what, pe.KeyID(), e.id)
			}
		}
	}
	// determinism: same deriver, same salt (another slice) → Equal; a fresh deriver → Equal
	dh2, err := kd.DeriveKeyset(append([]byte(nil), keep...))
	if err != nil || !handleEqual(dh, dh2) {
		o.Violate("%s: two DeriveKeyset calls with equal salts are not Equal (err=%v)", what, err)
	}
	if kd2, err := keyderivation.New(h); err != nil {
		o.Violate("%s: second keyderivation.New failed: %v", what, err)
	} else if dh3, err := kd2.DeriveKeyset(keep); err != nil || !handleEqual(dh, dh3) {
		o.Violate("%s: a second deriver of the same keyset gives a different keyset (err=%v)", what, err)
	}
	return dh
}

// allDiffer: derivations under different salts (or PRF keys) share no key.
func (w *world) allDiffer(a, b *keyset.Handle, what string) {
	if a == nil || b == nil || a.Len() != b.Len() {
		return
	}
	ka, kb := keysOf(a), keysOf(b)
	for j := range ka {
		x, _ := keyBytesOf(ka[j])
		y, _ := keyBytesOf(kb[j])
		if ka[j].Equal(kb[j]) || bytes.Equal(x, y) {
			w.o.Violate("%s: derived key %d is the same", what, j)
		}
	}
}

// ---------- variations of the deriver keyset ----------

// vary: the keyset with entry t's PRF key / PRF salt / PRF hash / PRF key length changed derives a
// different key at t and the very same keys elsewhere.
func (w *world) vary(es []ent, salt []byte, dh *keyset.Handle, what string) {
	o, rng := w.o, w.rng
	en := enabledIdx(es)
	if dh == nil || dh.Len() != len(en) {
		return
	}
	pos := rng.Intn(len(en))
	t := en[pos]
	ps := plansOf(es)
	p := &ps[t]
	p.prfKey = append([]byte(nil), p.prfKey...)
	p.prfSalt = append([]byte(nil), p.prfSalt...)
	var kind string
	switch rng.Intn(5) {
	case 0, 1:
		kind = "prf-key-bit"
		p.prfKey[rng.Intn(len(p.prfKey))] ^= 1 << uint(rng.Intn(8))
	case 2:
		kind = "prf-salt"
		if len(p.prfSalt) == 0 || rng.Bool() {
			p.prfSalt = append(p.prfSalt, byte(1+rng.Intn(255))) // not 0: HMAC pads its key (the HKDF salt) with zeros
		} else {
			p.prfSalt[rng.Intn(len(p.prfSalt))] ^= 1 << uint(rng.Intn(8))
		}
	case 3:
		kind = "prf-hash"
		p.prfHash = 6 - p.prfHash // SHA256 <-> SHA512
	default:
		kind = "prf-key-length"
		if len(p.prfKey) > 32 && rng.Bool() {
			p.prfKey = p.prfKey[:len(p.prfKey)-1]
		} else {
			p.prfKey = append(p.prfKey, 0)
		}
	}
	h2, err := buildOpts(ps)
	if err != nil {
		panic(fmt.Sprintf("vary: %v", err))
	}
	kd2, err := keyderivation.New(h2)
	if err != nil {
		o.Violate("%s: keyderivation.New failed on the varied keyset (%s): %v", what, kind, err)
		return
	}
	dh2, err := kd2.DeriveKeyset(salt)
	if err != nil || dh2.Len() != dh.Len() {
		o.Violate("%s: DeriveKeyset failed on the varied keyset (%s): %v", what, kind, err)
		return
	}
	o.Count("vary/" + kind)
	ka, kb := keysOf(dh), keysOf(dh2)
	es2 := view(h2)
	for j, i := range en {
		if j == pos {
			x, _ := keyBytesOf(ka[j])
			y, _ := keyBytesOf(kb[j])
			if ka[j].Equal(kb[j]) || bytes.Equal(x, y) {
				o.Violate("%s: %s changed, derived key %d did not", what, kind, j)
			}
			w.materialLine(es2[i], salt, kb[j], what+" varied "+kind)
		} else if !ka[j].Equal(kb[j]) {
			// an entry sharing the varied entry's PRF key is a different entry: it must not move
			o.Violate("%s: %s of entry %d changed, derived key %d (entry %d) changed too", what, kind, t, j, i)
		}
	}
}

// reread: the deriver keyset written and read back (binary / JSON cleartext) derives the same keyset.
func (w *world) reread(h *keyset.Handle, es []ent, salt []byte, dh *keyset.Handle, what string) {
	o := w.o
	if dh == nil {
		return
	}
	var buf bytes.Buffer
	json := w.rng.Bool()
	var err error
	if json {
		err = insecurecleartextkeyset.Write(h, keyset.NewJSONWriter(&buf))
	} else {
		err = insecurecleartextkeyset.Write(h, keyset.NewBinaryWriter(&buf))
	}
	if err != nil {
		for _, e := range es {
			if !serializable(e) {
				o.Count("reread/not-serializable-parameters")
				return
			}
		}
		o.Violate("%s: writing the deriver keyset failed: %v", what, err)
		return
	}
	var h2 *keyset.Handle
	if json {
		h2, err = insecurecleartextkeyset.Read(keyset.NewJSONReader(&buf))
	} else {
		h2, err = insecurecleartextkeyset.Read(keyset.NewBinaryReader(&buf))
	}
	if err != nil {
		o.Violate("%s: reading the deriver keyset back failed: %v", what, err)
		return
	}
	if !handleEqual(h, h2) {
		// AES-GCM parameters with an IV size other than 12 or a tag size other than 16 serialize
		// without error and parse back as 12/16: the re-read keyset is another keyset.
		lossy := false
		for _, e := range es {
			if !faithful(e) {
				lossy = true
				o.Count("reread/lossy-serialization/" + e.spec.label())
			}
		}
		if !lossy {
			o.Violate("%s: the deriver keyset read back is not Equal", what)
		}
		return
	}
	kd, err := keyderivation.New(h2)
	if err != nil {
		o.Violate("%s: keyderivation.New failed on the re-read keyset: %v", what, err)
		return
	}
	dh2, err := kd.DeriveKeyset(salt)
	if err != nil || !handleEqual(dh, dh2) {
		o.Violate("%s: the re-read keyset derives a different keyset (err=%v)", what, err)
		return
	}
	o.Emit("!V derive "+entriesTok(view(h2), naturalIDReq(view(h2))), "ok "+dumpDerived(dh2, view(h2), singlesOf(view(h2), salt)), true)
	if json {
		o.Count("reread/json")
	} else {
		o.Count("reread/binary")
	}
}

func serializable(e ent) bool {
	_, err := protoserialization.SerializeKey(e.dk)
	return err == nil
}

// faithful: the deriver key survives serialization unchanged.
func faithful(e ent) bool {
	ks, err := protoserialization.SerializeKey(e.dk)
	if err != nil {
		return false
	}
	k, err := protoserialization.ParseKey(ks)
	return err == nil && k.Equal(e.dk)
}

// ---------- the main case ----------

func posClass(es []ent) string {
	for i, e := range es {
		if e.primary {
			switch {
			case len(es) == 1:
				return "only"
			case i == 0:
				return "first"
			case i == len(es)-1:
				return "last"
			}
			return "middle"
		}
	}
	return "none"
}

func (w *world) build(ps []plan) (*keyset.Handle, string) {
	method := "opts"
	switch r := w.rng.Intn(100); {
	case r < 55:
	case r < 70:
		method = "public-addkey"
	case r < 85:
		method = "templates"
	default:
		method = "parameters"
	}
	if method == "templates" || method == "parameters" {
		// what the registry generates: standard parameters only
		for _, p := range ps {
			pp, err := mkDeriverParams(p)
			if err != nil {
				panic(err)
			}
			if _, err := protoserialization.SerializeParameters(pp); err != nil || !p.spec.std() {
				method = "opts"
				break
			}
		}
	}
	var h *keyset.Handle
	var err error
	switch method {
	case "opts":
		h, err = buildOpts(ps)
	case "public-addkey":
		h, err = buildPublic(ps)
	case "templates":
		h, err = w.buildTemplates(ps)
	default:
		h, err = buildParams(ps)
	}
	if err != nil {
		panic(fmt.Sprintf("building a deriver keyset (%s): %v", method, err))
	}
	return h, method
}

func (w *world) count(es []ent, method string) {
	o := w.o
	o.Count("method/" + method)
	o.Count(fmt.Sprintf("nkeys/%d", len(es)))
	o.Count("primary-position/" + posClass(es))
	o.Count(fmt.Sprintf("enabled-keys/%d", len(enabledIdx(es))))
	for _, e := range es {
		o.Count("type/" + e.spec.label())
		o.Count("kind-variant/" + e.spec.kind + "/" + vNames[e.spec.variant])
		o.Count("status/" + statusCode(e.status))
		if !e.spec.std() {
			o.Count("nonstandard-parameters/" + e.spec.kind)
		}
		switch e.id {
		case 0:
			o.Count("id/0")
		case 0xFFFFFFFF:
			o.Count("id/max")
		}
	}
}

func (w *world) mainCase() {
	o, rng := w.o, w.rng
	nk := rng.Pick(1, 1, 2, 2, 3, 3, 4, 5, 5)
	ps := w.plans(nk)
	h, method := w.build(ps)
	es := view(h)
	w.count(es, method)
	what := fmt.Sprintf("%s keyset of %d", method, nk)
	kd, err := keyderivation.New(h)
	if err != nil {
		o.Violate("%s: keyderivation.New failed on a well-formed deriver keyset: %v", what, err)
		return
	}
	salts, classes := w.salts()
	dhs := make([]*keyset.Handle, len(salts))
	for i, s := range salts {
		o.Count("salt/" + classes[i])
		dhs[i] = w.derive(kd, h, es, s, fmt.Sprintf("%s, salt %s(%d)", what, classes[i], len(s)))
	}
	for i := range salts {
		for j := i + 1; j < len(salts); j++ {
			if dhs[i] == nil || dhs[j] == nil {
				continue
			}
			if bytes.Equal(salts[i], salts[j]) { // nil and empty are the same salt
				if !handleEqual(dhs[i], dhs[j]) {
					o.Violate("%s: nil and empty salt derive different keysets", what)
				}
				o.Count("salt-pair/equal")
			} else {
				w.allDiffer(dhs[i], dhs[j], fmt.Sprintf("%s, salts %x… and %x…", what, salts[i][:min(4, len(salts[i]))], salts[j][:min(4, len(salts[j]))]))
				o.Count("salt-pair/different")
			}
		}
	}
	u := rng.Intn(len(salts))
	w.vary(es, salts[u], dhs[u], what)
	if rng.Chance(50) {
		w.reread(h, es, salts[u], dhs[u], what)
	}
	// usability
	if dh := dhs[u]; dh != nil && dh.Len() == len(enabledIdx(es)) {
		en := enabledIdx(es)
		ks := keysOf(dh)
		var specs []dspec
		var ids []uint32
		prim := 0
		for j, i := range en {
			specs = append(specs, es[i].spec)
			ids = append(ids, es[i].id)
			if es[i].primary {
				prim = j
			}
			kb, ok := keyBytesOf(ks[j])
			if !ok {
				continue
			}
			direct, err := es[i].spec.build(es[i].id, kb)
			if err != nil {
				continue
			}
			w.useKey(es[i].spec, es[i].id, ks[j], direct, fmt.Sprintf("%s, derived %s/%s key id %d", what, es[i].spec.label(), vNames[es[i].spec.variant], es[i].id))
		}
		w.useHandle(dh, specs, ids, prim, what)
	}
}

// ---------- the factory under a doctored configuration ----------

const (
	pSame        = iota // the entry's real key deriver
	pLegacy             // the real deriver offered as a legacy (non-full) primitive: the factory stamps id and prefix
	pLegacyTwist        // a legacy primitive whose keys carry a wrong id / variant: the factory's stamp wins
	pForeign            // derived key with an id requirement other than the entry's id → AddKeyWithOpts refuses
	pStrip              // derived key without id requirement under a prefixed deriver key → accepted
	pAddID              // derived key requiring the entry's id under a deriver key without requirement → accepted
	pAddForeign         // … requiring another id → refused
)

var planNames = []string{"same", "legacy", "legacy-twisted", "foreign-id", "stripped-id", "added-id", "added-foreign-id"}

// twist rebuilds the real derived key with another variant / id requirement.
type twist struct {
	raw  deriver
	spec dspec
	id   uint32
}

func (t *twist) DeriveKey(salt []byte) (key.Key, error) {
	k, err := t.raw.DeriveKey(salt)
	if err != nil {
		return nil, err
	}
	kb, ok := keyBytesOf(k)
	if !ok {
		return nil, fmt.Errorf("twist: key type %T", k)
	}
	return t.spec.build(t.id, kb)
}

type probeCfg struct {
	es    []ent
	plans []int
	other []uint32 // the foreign id per entry
	asked int
}

func (c *probeCfg) index(k key.Key) int {
	for i, e := range c.es {
		if key.Key(e.dk) == k {
			return i
		}
	}
	for i, e := range c.es {
		if e.dk.Equal(k) {
			return i
		}
	}
	return -1
}

// full is the full primitive the plan stands for (nil for the legacy plans).
func (c *probeCfg) prim(i int) (d deriver, legacy bool, err error) {
	e := c.es[i]
	raw, err := prfbasedkeyderivation.NewKeyDeriver(e.dk, itok)
	if err != nil {
		return nil, false, err
	}
	s := e.spec
	switch c.plans[i] {
	case pSame:
		return raw, false, nil
	case pLegacy:
		return raw, true, nil
	case pLegacyTwist:
		vs := variantsOf(s.kind)
		s.variant = vs[int(c.other[i])%len(vs)]
		return &twist{raw, s, c.other[i]}, true, nil
	case pForeign:
		return &twist{raw, s, c.other[i]}, false, nil
	case pStrip:
		s.variant = vR
		return &twist{raw, s, 0}, false, nil
	case pAddID:
		s.variant = variantsOf(s.kind)[0]
		return &twist{raw, s, e.id}, false, nil
	default:
		s.variant = variantsOf(s.kind)[0]
		return &twist{raw, s, c.other[i]}, false, nil
	}
}

func (c *probeCfg) PrimitiveFromKey(k key.Key, _ internalapi.Token) (any, error) {
	c.asked++
	i := c.index(k)
	if i < 0 {
		return nil, fmt.Errorf("probeCfg: unknown key")
	}
	d, legacy, err := c.prim(i)
	if err != nil {
		return nil, err
	}
	if legacy {
		return legacyprimitive.New(d), nil
	}
	return d, nil
}

func (w *world) probeCase() {
	o, rng := w.o, w.rng
	nk := rng.Pick(1, 2, 2, 3, 3, 4, 5)
	ps := w.plans(nk)
	h, err := buildOpts(ps)
	if err != nil {
		panic(err)
	}
	es := view(h)
	cfg := &probeCfg{es: es, plans: make([]int, nk), other: make([]uint32, nk)}
	idReq := naturalIDReq(es)
	wantErr := false
	for i, e := range es {
		other := rng.KeyID()
		if rng.Chance(40) {
			other = e.id ^ (1 << uint(rng.Intn(32)))
		}
		if other == e.id {
			other++
		}
		cfg.other[i] = other
		pl := pSame
		multi := len(variantsOf(e.spec.kind)) > 1
		if rng.Chance(65) {
			switch {
			case e.hasID:
				pl = rng.Pick(pLegacy, pLegacyTwist, pForeign, pStrip, pStrip)
			case multi:
				pl = rng.Pick(pLegacy, pLegacyTwist, pAddID, pAddID, pAddForeign)
			default:
				pl = pLegacy
			}
		}
		if (pl == pLegacy || pl == pLegacyTwist) && !faithful(e) {
			pl = pSame
		}
		cfg.plans[i] = pl
		if e.status != keyset.Enabled {
			continue
		}
		o.Count("config/" + planNames[pl])
		switch pl {
		case pForeign, pAddForeign:
			idReq[i] = fmt.Sprint(other)
			wantErr = true
		case pStrip:
			idReq[i] = "-"
		case pAddID:
			idReq[i] = fmt.Sprint(e.id)
		}
	}
	what := fmt.Sprintf("doctored configuration, keyset of %d", nk)
	kd, err := keyderivation.NewWithConfig(h, cfg)
	if err != nil {
		o.Violate("%s: NewWithConfig failed: %v", what, err)
		return
	}
	en := enabledIdx(es)
	if cfg.asked != len(en) {
		o.Violate("%s: the factory asked for %d primitives, the keyset has %d ENABLED keys", what, cfg.asked, len(en))
	}
	salt := rng.Bytes(rng.Pick(0, 5, 32, 1024))
	dh, err := kd.DeriveKeyset(salt)
	line := "!V derive " + entriesTok(es, idReq)
	if err != nil {
		o.Emit(line, "err", true)
		if !wantErr {
			o.Violate("%s: DeriveKeyset failed although every derived key fits its id: %v", what, err)
		}
		if _, err := kd.DeriveKeyset(salt); err == nil {
			o.Violate("%s: DeriveKeyset failed once and then succeeded", what)
		}
		o.Count("config/result-err")
		return
	}
	// expected keys: what each plan's primitive yields; legacy ones are re-stamped to the natural key
	singles := make([]key.Key, nk)
	natural := singlesOf(es, salt)
	for _, i := range en {
		d, legacy, err := cfg.prim(i)
		if err != nil {
			continue
		}
		if legacy {
			singles[i] = natural[i]
		} else if k, err := d.DeriveKey(salt); err == nil {
			singles[i] = k
		}
	}
	o.Emit(line, "ok "+dumpDerived(dh, es, singles), true)
	o.Count("config/result-ok")
	if wantErr {
		o.Violate("%s: DeriveKeyset accepted a derived key whose id requirement differs from the key id", what)
	}
	if dh.Len() != len(en) {
		o.Violate("%s: %d derived keys for %d ENABLED deriver keys", what, dh.Len(), len(en))
		return
	}
	for j, i := range en {
		de, _ := dh.Entry(j)
		if de.KeyID() != es[i].id || de.KeyStatus() != keyset.Enabled || de.IsPrimary() != es[i].primary {
			o.Violate("%s: derived entry %d is (%d,%s,%v), deriver entry (%d,E,%v)", what, j, de.KeyID(), statusCode(de.KeyStatus()), de.IsPrimary(), es[i].id, es[i].primary)
		}
		if singles[i] == nil || !singles[i].Equal(de.Key()) {
			o.Violate("%s: derived entry %d (plan %s, %s/%s) is not the key its primitive yields: got %+v want %+v", what, j, planNames[cfg.plans[i]], es[i].spec.label(), vNames[es[i].spec.variant], dbg(de.Key()), dbg(singles[i]))
		}
		if pl := cfg.plans[i]; pl == pLegacy || pl == pLegacyTwist {
			// the factory's wrapper: id requirement = key id, prefix type = the deriver key's
			if pre, ok := outputPrefixOf(de.Key()); ok && !bytes.Equal(pre, wantPrefix(es[i].spec.variant, es[i].id)) {
				o.Violate("%s: legacy-wrapped derived key %d has prefix %x, want %x", what, j, pre, wantPrefix(es[i].spec.variant, es[i].id))
			}
		}
		w.materialLine(es[i], salt, de.Key(), what)
	}
	if dh2, err := kd.DeriveKeyset(salt); err != nil || !handleEqual(dh, dh2) {
		o.Violate("%s: two derivations differ (err=%v)", what, err)
	}
}

// ---------- outside the domain: what must be refused ----------

var underivable = []struct {
	name string
	t    func() *tinkpb.KeyTemplate
}{
	{"chacha20poly1305", aead.ChaCha20Poly1305KeyTemplate}, {"aes-ctr-hmac", aead.AES128CTRHMACSHA256KeyTemplate},
	{"aes-gcm-siv", aead.AES128GCMSIVKeyTemplate}, {"x-aes-gcm", aead.XAES256GCM192BitNonceKeyTemplate},
	{"aes-cmac", mac.AESCMACTag128KeyTemplate}, {"aes-cmac-prf", prf.AESCMACPRFKeyTemplate},
	{"ecdsa-p256", signature.ECDSAP256KeyTemplate}, {"aes-ctr-hmac-streaming", streamingaead.AES128CTRHMACSHA256Segment4KBKeyTemplate},
}

func (w *world) negativeCase() {
	o, rng := w.o, w.rng
	good := plan{spec: dspec{kind: "aesgcm", ksz: 16, iv: 12, tag: 16, variant: vT}, prfHash: 2, prfKey: rng.Bytes(32), id: 7, status: keyset.Enabled, primary: true}
	switch rng.Intn(6) {
	case 0: // a derived key type without key deriver
		u := underivable[rng.Intn(len(underivable))]
		o.Count("refused/underivable-type/" + u.name)
		if _, err := keyderivation.CreatePRFBasedKeyTemplate(prf.HKDFSHA256PRFKeyTemplate(), u.t()); err == nil {
			o.Violate("CreatePRFBasedKeyTemplate accepted the underivable key type %s", u.name)
		}
		dp, err := protoserialization.ParseParameters(u.t())
		if err != nil {
			panic(err)
		}
		pk, err := mkPRFKey(2, rng.Bytes(32), nil)
		if err != nil {
			panic(err)
		}
		pp, err := prfbasedkeyderivation.NewParameters(pk.Parameters(), dp)
		if err != nil {
			return
		}
		id := uint32(0)
		if pp.HasIDRequirement() {
			id = 5
		}
		dk, err := prfbasedkeyderivation.NewKey(pp, pk, id)
		if err != nil {
			return
		}
		h, err := hlib.HandleOf(dk)
		if err != nil {
			return
		}
		kd, err := keyderivation.New(h)
		if err != nil {
			return
		}
		if msg := hlib.Recover(func() {
			if dh, err := kd.DeriveKeyset([]byte("salt")); err == nil {
				o.Violate("a deriver key for the underivable type %s derived a keyset of %d keys", u.name, dh.Len())
			}
		}); msg != "" {
			o.Violate("DeriveKeyset panicked for the underivable type %s: %s", u.name, msg)
		}
	case 1: // PRF keys the streaming PRF refuses
		p := good
		if rng.Bool() {
			p.prfHash = rng.Pick(0, 1, 3)
			o.Count("refused/prf-hash-" + hashNames[p.prfHash])
		} else {
			p.prfKey = rng.Bytes(16 + rng.Intn(16))
			o.Count("refused/prf-key-shorter-than-32")
		}
		h, err := buildOpts([]plan{p})
		if err != nil {
			return
		}
		if _, err := keyderivation.New(h); err == nil {
			o.Violate("keyderivation.New accepted a deriver key with PRF hash %s and a %d-byte PRF key", hashNames[p.prfHash], len(p.prfKey))
		}
	case 2: // PRF key types other than HKDF
		dp, _ := good.spec.params()
		var pk key.Key
		if rng.Bool() {
			ps, err := hmacprf.NewParameters(32, hmacprf.SHA256)
			if err != nil {
				panic(err)
			}
			pk, err = hmacprf.NewKey(hlib.Secret(rng.Bytes(32)), ps)
			if err != nil {
				panic(err)
			}
			o.Count("refused/prf-type-hmac")
		} else {
			var err error
			pk, err = aescmacprf.NewKey(hlib.Secret(rng.Bytes(32)))
			if err != nil {
				panic(err)
			}
			o.Count("refused/prf-type-aes-cmac")
		}
		pp, err := prfbasedkeyderivation.NewParameters(pk.Parameters(), dp)
		if err != nil {
			return
		}
		dk, err := prfbasedkeyderivation.NewKey(pp, pk, 7)
		if err != nil {
			return
		}
		h, err := hlib.HandleOf(dk)
		if err != nil {
			return
		}
		if _, err := keyderivation.New(h); err == nil {
			o.Violate("keyderivation.New accepted a deriver key with a %T PRF key", pk)
		}
	case 3: // not a deriver keyset / no keyset
		o.Count("refused/not-a-deriver-keyset")
		h, err := keyset.NewHandle(aead.AES128GCMKeyTemplate())
		if err != nil {
			panic(err)
		}
		if _, err := keyderivation.New(h); err == nil {
			o.Violate("keyderivation.New accepted an AES-GCM keyset")
		}
		if msg := hlib.Recover(func() {
			if _, err := keyderivation.New(nil); err == nil {
				o.Violate("keyderivation.New accepted a nil handle")
			}
		}); msg != "" {
			o.Violate("keyderivation.New(nil) panicked: %s", msg)
		}
	default: // the end of the HKDF stream: 255 blocks can be read, one byte more cannot
		hash := rng.Pick(2, 4)
		max := 255 * hashLens[hash]
		p := good
		p.prfHash = hash
		p.prfKey = rng.Bytes(rng.Pick(32, 64))
		p.prfSalt = rng.Bytes(rng.Pick(0, 16))
		p.spec = dspec{kind: "hmac", hash: rng.Intn(5), ksz: max, tag: 16, variant: rng.Pick(vT, vR)}
		over := rng.Bool()
		if over {
			p.spec.ksz = max + 1 + rng.Intn(3)
		}
		h, err := buildOpts([]plan{p})
		if err != nil {
			panic(err)
		}
		kd, err := keyderivation.New(h)
		if err != nil {
			o.Violate("keyderivation.New failed for an HMAC key of %d bytes: %v", p.spec.ksz, err)
			return
		}
		salt := rng.Bytes(rng.Pick(0, 7, 100))
		if over {
			o.Count("hkdf-limit/beyond-255-blocks-" + hashNames[hash])
			if _, err := kd.DeriveKeyset(salt); err == nil {
				o.Violate("DeriveKeyset produced a %d-byte key from HKDF-%s (limit %d)", p.spec.ksz, hashNames[hash], max)
			}
		} else {
			o.Count("hkdf-limit/exactly-255-blocks-" + hashNames[hash])
			w.derive(kd, h, view(h), salt, "HMAC key of 255 HKDF blocks")
		}
	}
}

func main() {
	o := hlib.Open("C17")
	defer o.Close()
	seed := *hlib.FlagSeed
	tape := hlib.InstallTape(seed) // tink's own randomness (generated PRF keys, random key ids, nonces) is a function of the seed
	w := &world{o: o, rng: hlib.NewRng(seed, "c17")}
	n := hlib.N(9000, 90000)
	for c := 0; c < n; c++ {
		o.Case()
		tape.Reset()
		switch r := w.rng.Intn(100); {
		case r < 78:
			w.mainCase()
		case r < 94:
			w.probeCase()
		default:
			w.negativeCase()
		}
	}
	// doctored serialized keysets: the (entry prefix type × template prefix type × key type) grid, then random ones
	w.prefixGrid(hlib.N(1, 5), tape.Reset)
	for c, m := 0, hlib.N(500, 5000); c < m; c++ {
		o.Case()
		tape.Reset()
		w.prefixRandom()
	}
	// histories on one deriver object with one salt buffer
	for c, m := 0, hlib.N(400, 4000); c < m; c++ {
		o.Case()
		tape.Reset()
		w.historyCase()
	}
	// limits.go: derived key sizes around the HKDF output limit; keysets holding a key that cannot be derived
	limits(o, seed, tape.Reset)
}

func dbg(k key.Key) string {
	if k == nil {
		return "nil"
	}
	s, _ := specOf(k.Parameters())
	kb, _ := keyBytesOf(k)
	id, has := k.IDRequirement()
	return fmt.Sprintf("%+v id=%d,%v key=%x", s, id, has, kb[:4])
}
