//go:build verif

package main

// "derived keys are usable as ordinary keys of their type": every derived key is put to work
// through the public factories, alone and against a key built directly from the same bytes.

import (
	"bytes"
	"fmt"
	"io"

	"github.com/tink-crypto/tink-go/v2/aead"
	"github.com/tink-crypto/tink-go/v2/daead"
	"github.com/tink-crypto/tink-go/v2/internal/verifharness/hlib"
	"github.com/tink-crypto/tink-go/v2/key"
	"github.com/tink-crypto/tink-go/v2/keyset"
	"github.com/tink-crypto/tink-go/v2/mac"
	"github.com/tink-crypto/tink-go/v2/prf"
	"github.com/tink-crypto/tink-go/v2/signature"
	"github.com/tink-crypto/tink-go/v2/streamingaead"
)

// user is one family's way of using a handle: produce an output under `a`, have `b` accept it.
// It returns an error when a's primitive cannot be built (errNoPrim) or the exchange fails.
type noPrim struct{ err error }

func (e noPrim) Error() string { return "no primitive: " + e.err.Error() }

// twin: a and b hold the same key, so deterministic outputs must coincide.
func sealOpen(fam string, a, b *keyset.Handle, msg, ad []byte, wantPrefix []byte, twin bool) error {
	switch fam {
	case "aead":
		pa, err := aead.New(a)
		if err != nil {
			return noPrim{err}
		}
		pb, err := aead.New(b)
		if err != nil {
			return noPrim{err}
		}
		ct, err := pa.Encrypt(msg, ad)
		if err != nil {
			return fmt.Errorf("Encrypt: %v", err)
		}
		if wantPrefix != nil && !bytes.HasPrefix(ct, wantPrefix) {
			return fmt.Errorf("ciphertext prefix %x, want %x", ct[:min(5, len(ct))], wantPrefix)
		}
		pt, err := pb.Decrypt(ct, ad)
		if err != nil {
			return fmt.Errorf("Decrypt: %v", err)
		}
		if !bytes.Equal(pt, msg) {
			return fmt.Errorf("round trip changed the plaintext")
		}
		if len(ct) > 0 {
			bad := append([]byte(nil), ct...)
			bad[len(bad)-1] ^= 1
			if _, err := pb.Decrypt(bad, ad); err == nil {
				return fmt.Errorf("modified ciphertext accepted")
			}
		}
	case "daead":
		pa, err := daead.New(a)
		if err != nil {
			return noPrim{err}
		}
		pb, err := daead.New(b)
		if err != nil {
			return noPrim{err}
		}
		ct, err := pa.EncryptDeterministically(msg, ad)
		if err != nil {
			return fmt.Errorf("EncryptDeterministically: %v", err)
		}
		if wantPrefix != nil && !bytes.HasPrefix(ct, wantPrefix) {
			return fmt.Errorf("ciphertext prefix %x, want %x", ct[:min(5, len(ct))], wantPrefix)
		}
		if twin {
			ct2, err := pb.EncryptDeterministically(msg, ad)
			if err != nil || !bytes.Equal(ct, ct2) {
				return fmt.Errorf("the two keys do not encrypt deterministically alike")
			}
		}
		pt, err := pb.DecryptDeterministically(ct, ad)
		if err != nil {
			return fmt.Errorf("DecryptDeterministically: %v", err)
		}
		if !bytes.Equal(pt, msg) {
			return fmt.Errorf("round trip changed the plaintext")
		}
	case "mac":
		pa, err := mac.New(a)
		if err != nil {
			return noPrim{err}
		}
		pb, err := mac.New(b)
		if err != nil {
			return noPrim{err}
		}
		tag, err := pa.ComputeMAC(msg)
		if err != nil {
			return fmt.Errorf("ComputeMAC: %v", err)
		}
		if wantPrefix != nil && !bytes.HasPrefix(tag, wantPrefix) {
			return fmt.Errorf("tag prefix %x, want %x", tag[:min(5, len(tag))], wantPrefix)
		}
		if err := pb.VerifyMAC(tag, msg); err != nil {
			return fmt.Errorf("VerifyMAC: %v", err)
		}
		bad := append([]byte(nil), tag...)
		bad[len(bad)-1] ^= 1
		if err := pb.VerifyMAC(bad, msg); err == nil {
			return fmt.Errorf("modified tag accepted")
		}
	case "prf":
		pa, err := prf.NewPRFSet(a)
		if err != nil {
			return noPrim{err}
		}
		pb, err := prf.NewPRFSet(b)
		if err != nil {
			return noPrim{err}
		}
		x, err := pa.ComputePrimaryPRF(msg, 16)
		if err != nil {
			return fmt.Errorf("ComputePrimaryPRF: %v", err)
		}
		y, err := pb.ComputePrimaryPRF(msg, 16)
		if err != nil {
			return fmt.Errorf("ComputePrimaryPRF: %v", err)
		}
		if !bytes.Equal(x, y) || len(x) != 16 {
			return fmt.Errorf("the two keys compute different PRF outputs")
		}
	case "sig":
		pa, err := signature.NewSigner(a)
		if err != nil {
			return noPrim{err}
		}
		pub, err := b.Public()
		if err != nil {
			return fmt.Errorf("Public(): %v", err)
		}
		pb, err := signature.NewVerifier(pub)
		if err != nil {
			return noPrim{err}
		}
		sig, err := pa.Sign(msg)
		if err != nil {
			return fmt.Errorf("Sign: %v", err)
		}
		if wantPrefix != nil && !bytes.HasPrefix(sig, wantPrefix) {
			return fmt.Errorf("signature prefix %x, want %x", sig[:min(5, len(sig))], wantPrefix)
		}
		if err := pb.Verify(sig, msg); err != nil {
			return fmt.Errorf("Verify: %v", err)
		}
		bad := append([]byte(nil), sig...)
		bad[len(bad)-1] ^= 1
		if err := pb.Verify(bad, msg); err == nil {
			return fmt.Errorf("modified signature accepted")
		}
	case "saead":
		pa, err := streamingaead.New(a)
		if err != nil {
			return noPrim{err}
		}
		pb, err := streamingaead.New(b)
		if err != nil {
			return noPrim{err}
		}
		var buf bytes.Buffer
		w, err := pa.NewEncryptingWriter(&buf, ad)
		if err != nil {
			return fmt.Errorf("NewEncryptingWriter: %v", err)
		}
		if _, err := w.Write(msg); err != nil {
			return fmt.Errorf("Write: %v", err)
		}
		if err := w.Close(); err != nil {
			return fmt.Errorf("Close: %v", err)
		}
		ct := buf.Bytes()
		r, err := pb.NewDecryptingReader(bytes.NewReader(ct), ad)
		if err != nil {
			return fmt.Errorf("NewDecryptingReader: %v", err)
		}
		pt, err := io.ReadAll(r)
		if err != nil {
			return fmt.Errorf("decrypting read: %v", err)
		}
		if !bytes.Equal(pt, msg) {
			return fmt.Errorf("round trip changed the plaintext")
		}
		bad := append([]byte(nil), ct...)
		bad[len(bad)-1] ^= 1
		if r, err := pb.NewDecryptingReader(bytes.NewReader(bad), ad); err == nil {
			if _, err := io.ReadAll(r); err == nil {
				return fmt.Errorf("modified ciphertext accepted")
			}
		}
	default:
		return fmt.Errorf("unknown family %s", fam)
	}
	return nil
}

// useKey: the derived key dk (spec s, id) works alone, and interoperates in both directions with
// `direct`, the ordinary key built from the same bytes.
func (w *world) useKey(s dspec, id uint32, dk, direct key.Key, what string) {
	o := w.o
	hd, err := hlib.HandleOf(dk)
	if err != nil {
		o.Violate("%s: a derived key cannot be put into a keyset: %v", what, err)
		return
	}
	hx, err := hlib.HandleOf(direct)
	if err != nil {
		o.Violate("%s: the directly built key cannot be put into a keyset: %v", what, err)
		return
	}
	msg := w.rng.Bytes(w.rng.MsgLen(120))
	ad := w.rng.Bytes(w.rng.Intn(20))
	pre := wantPrefix(s.variant, id)
	if s.family() == "prf" || s.family() == "saead" {
		pre = nil
	}
	fam := s.family()
	e1 := sealOpen(fam, hd, hd, msg, ad, pre, true)
	if _, np := e1.(noPrim); np {
		// no primitive for the derived key: fine only if the ordinary key has none either
		e2 := sealOpen(fam, hx, hx, msg, ad, pre, true)
		if _, np2 := e2.(noPrim); !np2 {
			o.Violate("%s: no primitive for the derived key (%v) although the directly built key has one", what, e1)
		} else if s.std() {
			o.Violate("%s: no primitive for a derived key with standard parameters: %v", what, e1)
		} else {
			o.Count("use/no-primitive-like-ordinary-key/" + s.label())
		}
		return
	}
	if e1 != nil {
		o.Violate("%s: derived key unusable: %v", what, e1)
		return
	}
	if e := sealOpen(fam, hd, hx, msg, ad, pre, true); e != nil {
		o.Violate("%s: output of the derived key rejected by the ordinary key: %v", what, e)
	}
	if e := sealOpen(fam, hx, hd, msg, ad, pre, true); e != nil {
		o.Violate("%s: output of the ordinary key rejected by the derived key: %v", what, e)
	}
	o.Count("use/" + fam + "/" + s.kind + "/" + vNames[s.variant])
}

// useHandle: a derived handle whose keys all serve one primitive works as a keyset of that
// primitive: the primary's prefix is on the output and every enabled key's output is accepted.
func (w *world) useHandle(dh *keyset.Handle, specs []dspec, ids []uint32, prim int, what string) {
	o := w.o
	fam := specs[0].family()
	for _, s := range specs {
		if s.family() != fam || !s.std() {
			return
		}
	}
	msg := w.rng.Bytes(w.rng.MsgLen(60))
	ad := w.rng.Bytes(w.rng.Intn(8))
	pre := wantPrefix(specs[prim].variant, ids[prim])
	if fam == "prf" || fam == "saead" {
		pre = nil
	}
	if e := sealOpen(fam, dh, dh, msg, ad, pre, true); e != nil {
		o.Violate("%s: the derived keyset does not work as a %s keyset: %v", what, fam, e)
		return
	}
	o.Count("use/whole-keyset/" + fam)
	if fam == "prf" {
		set, err := prf.NewPRFSet(dh)
		if err != nil {
			return
		}
		if set.PrimaryID != ids[prim] || len(set.PRFs) != len(ids) {
			o.Violate("%s: PRF set of the derived keyset has primary %d / %d PRFs, want %d / %d", what, set.PrimaryID, len(set.PRFs), ids[prim], len(ids))
		}
		return
	}
	// every key's own output is accepted by the whole keyset
	for i := 0; i < dh.Len(); i++ {
		e, err := dh.Entry(i)
		if err != nil {
			continue
		}
		one, err := hlib.HandleOf(e.Key())
		if err != nil {
			o.Violate("%s: derived key %d cannot be put into a keyset: %v", what, e.KeyID(), err)
			continue
		}
		if err := sealOpen(fam, one, dh, msg, ad, nil, false); err != nil {
			o.Violate("%s: output of derived key %d not accepted by the derived keyset: %v", what, e.KeyID(), err)
		}
	}
}
