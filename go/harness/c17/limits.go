//go:build verif

package main

// The edge of the domain: derivations that must FAIL, and the last ones that must still succeed.
//
// (a) size grid: every derivable key type with a free key size (HMAC, HMAC-PRF, HKDF-PRF, AES-GCM-HKDF streaming)
//     × deriver PRF hash SHA256 / SHA512 × derived key sizes around the HKDF output limit 255·hashLen
//     (8159 8160 8161 9000 16319 16320 16321 20000, random ones near and far beyond the limits), keysets built
//     with AddKeyWithOpts / AddKey / AddNewKeyFromParameters / key templates, variants and salts rotating.
//
//	!V hkdfkey <hash> <prfKey> <prfSalt> <salt> <n>   the derived key's bytes, or err: RFC 5869 has no output beyond 255·hashLen
//
//     Within the limit the whole derive() battery runs (!V derive, !V material); beyond it DeriveKeyset must fail —
//     never succeed with other (all-zero, truncated, salt-independent) material.
//
// (b) deriver keysets of 2..5 keys of mixed statuses in which one key (two in some cases) cannot be derived at
//     DeriveKeyset time — size beyond the limit of its PRF hash, or a derived key type that has no key deriver
//     (ChaCha20-Poly1305, AES-CTR-HMAC, AES-GCM-SIV, X-AES-GCM, AES-CMAC, AES-CMAC-PRF, ECDSA, AES-CTR-HMAC streaming:
//     prfbasedkeyderivation.NewKey and keyderivation.New accept them) — at every position, as ENABLED non-primary,
//     as primary, as DISABLED and as DESTROYED key.
//
//	!V derivef <id:S:p:idReq:key:f;…>   err as soon as one ENABLED entry fails (f=1), else the derived handle
//
//     Whenever DeriveKeyset succeeds the derived keyset holds exactly one ENABLED key per ENABLED deriver key, same
//     id, same primary flag; a failing key that is not ENABLED is never derived, and then the full battery runs.

import (
	"bytes"
	"fmt"
	"strings"

	"github.com/tink-crypto/tink-go/v2/internal/protoserialization"
	"github.com/tink-crypto/tink-go/v2/internal/verifharness/hlib"
	"github.com/tink-crypto/tink-go/v2/key"
	"github.com/tink-crypto/tink-go/v2/keyderivation"
	"github.com/tink-crypto/tink-go/v2/keyderivation/prfbasedkeyderivation"
	"github.com/tink-crypto/tink-go/v2/keyset"
	"github.com/tink-crypto/tink-go/v2/prf/hkdfprf"
	tinkpb "github.com/tink-crypto/tink-go/v2/proto/tink_go_proto"
)

// fplan: a plan whose derived-key parameters may be of a type without key deriver.
type fplan struct {
	plan
	raw     key.Parameters
	rawName string
}

func hkdfLimit(prfHash int) int { return 255 * hashLens[prfHash] }

// entFails: the entry's own key derivation cannot succeed.
func entFails(e ent) bool {
	return strings.HasPrefix(e.spec.kind, "underivable") || e.spec.need() > hkdfLimit(e.prfHash)
}

func mkDeriverParamsF(p fplan) (*prfbasedkeyderivation.Parameters, error) {
	if p.raw == nil {
		return mkDeriverParams(p.plan)
	}
	ps, err := hkdfprf.NewParameters(len(p.prfKey), hkdfprf.HashType(p.prfHash+1), p.prfSalt)
	if err != nil {
		return nil, err
	}
	return prfbasedkeyderivation.NewParameters(ps, p.raw)
}

func mkDeriverKeyF(p fplan) (*prfbasedkeyderivation.Key, error) {
	if p.raw == nil {
		return mkDeriverKey(p.plan)
	}
	pk, err := mkPRFKey(p.prfHash, p.prfKey, p.prfSalt)
	if err != nil {
		return nil, err
	}
	pp, err := mkDeriverParamsF(p)
	if err != nil {
		return nil, err
	}
	id := p.id
	if !pp.HasIDRequirement() {
		id = 0
	}
	return prfbasedkeyderivation.NewKey(pp, pk, id)
}

func plainPlans(ps []fplan) []plan {
	out := make([]plan, len(ps))
	for i, p := range ps {
		out[i] = p.plan
	}
	return out
}

// buildF assembles a deriver keyset by the named method; the registry-driven methods (parameters, templates) fall
// back to AddKeyWithOpts when the library does not admit a key (underivable types are refused at creation time).
func (w *world) buildF(ps []fplan, method string) (*keyset.Handle, string) {
	try := func(m string) (*keyset.Handle, error) {
		km := keyset.NewManager()
		ids := make([]uint32, len(ps))
		for i, p := range ps {
			switch m {
			case "opts", "public-addkey":
				dk, err := mkDeriverKeyF(p)
				if err != nil {
					return nil, err
				}
				if m == "public-addkey" {
					if ids[i], err = km.AddKey(dk); err != nil {
						return nil, err
					}
					continue
				}
				opts := []keyset.KeyOpts{keyset.WithFixedID(p.id)}
				if p.primary {
					opts = append(opts, keyset.AsPrimary())
				} else {
					opts = append(opts, keyset.WithStatus(p.status))
				}
				if _, err := km.AddKeyWithOpts(dk, itok, opts...); err != nil {
					return nil, err
				}
			default:
				pp, err := mkDeriverParamsF(p)
				if err != nil {
					return nil, err
				}
				if m == "parameters" {
					if ids[i], err = km.AddNewKeyFromParameters(pp); err != nil {
						return nil, err
					}
					continue
				}
				var t *tinkpb.KeyTemplate
				if t, err = protoserialization.SerializeParameters(pp); err != nil {
					return nil, err
				}
				if len(ps) == 1 {
					return keyset.NewHandle(t)
				}
				if ids[i], err = km.Add(t); err != nil {
					return nil, err
				}
			}
		}
		if m == "opts" {
			return km.Handle()
		}
		return finish(km, ids, plainPlans(ps))
	}
	h, err := try(method)
	if err != nil && method != "opts" {
		w.o.Count("limits/method-not-admitted/" + method)
		method = "opts"
		h, err = try(method)
	}
	if err != nil {
		panic(fmt.Sprintf("limits: building a deriver keyset (%s): %v", method, err))
	}
	return h, method
}

// viewF is view for keysets that may hold deriver keys of underivable types.
func viewF(h *keyset.Handle) []ent {
	es := make([]ent, h.Len())
	for i := range es {
		e, err := h.Entry(i)
		if err != nil {
			panic(err)
		}
		dk, ok := e.Key().(*prfbasedkeyderivation.Key)
		if !ok {
			panic(fmt.Sprintf("deriver keyset entry of type %T", e.Key()))
		}
		pp := dk.Parameters().(*prfbasedkeyderivation.Parameters)
		pk, ok := dk.PRFKey().(*hkdfprf.Key)
		if !ok {
			panic(fmt.Sprintf("PRF key of type %T", dk.PRFKey()))
		}
		pps := pk.Parameters().(*hkdfprf.Parameters)
		spec, ok := specOf(pp.DerivedKeyParameters())
		if !ok {
			spec = dspec{kind: fmt.Sprintf("underivable(%T)", pp.DerivedKeyParameters()), variant: vR}
		}
		_, has := dk.IDRequirement()
		es[i] = ent{id: e.KeyID(), status: e.KeyStatus(), primary: e.IsPrimary(), dk: dk, dparams: pp.DerivedKeyParameters(),
			spec: spec, hasID: has, prfHash: int(pps.HashType()) - 1, prfKey: pk.KeyBytes().Data(stok), prfSalt: pps.Salt()}
	}
	return es
}

// deriveNoPanic: DeriveKeyset; a panic counts as a violation and as a failure.
func (w *world) deriveNoPanic(kd keyderivation.KeysetDeriver, salt []byte, what string) (dh *keyset.Handle, err error) {
	if msg := hlib.Recover(func() { dh, err = kd.DeriveKeyset(salt) }); msg != "" {
		w.o.Violate("%s: DeriveKeyset panicked: %s", what, msg)
		return nil, fmt.Errorf("panic: %s", msg)
	}
	return dh, err
}

func allZero(b []byte) bool {
	for _, x := range b {
		if x != 0 {
			return false
		}
	}
	return true
}

func idsOf(h *keyset.Handle) string {
	var ss []string
	for i := 0; i < h.Len(); i++ {
		e, err := h.Entry(i)
		if err != nil {
			ss = append(ss, "?")
			continue
		}
		p := ""
		if e.IsPrimary() {
			p = "*"
		}
		ss = append(ss, fmt.Sprintf("%d%s/%s", e.KeyID(), p, statusCode(e.KeyStatus())))
	}
	return "[" + strings.Join(ss, " ") + "]"
}

func describe(es []ent) string {
	ss := make([]string, len(es))
	for i, e := range es {
		p := ""
		if e.primary {
			p = "*"
		}
		f := ""
		if entFails(e) {
			f = " UNDERIVABLE"
		}
		ss[i] = fmt.Sprintf("%d%s/%s %s(%d bytes, PRF HKDF-%s)%s", e.id, p, statusCode(e.status), e.spec.label(), e.spec.need(), hashNames[e.prfHash], f)
	}
	return "[" + strings.Join(ss, "; ") + "]"
}

// ---------- (a) derived key sizes around the HKDF output limit ----------

var sizedKinds = []string{"hmac", "hmacprf", "hkdfprf", "aesgcmhkdf"}
var limitSizes = []int{8159, 8160, 8161, 9000, 16319, 16320, 16321, 20000}
var buildMethods = []string{"opts", "public-addkey", "parameters", "templates"}

// sizedSpec: parameters of kind with the given key size; rot rotates hashes / variants / tag sizes.
func (w *world) sizedSpec(kind string, size, rot int) dspec {
	switch kind {
	case "hmac":
		h := rot % 5
		vs := variantsOf("hmac")
		return dspec{kind: "hmac", hash: h, ksz: size, tag: []int{10, 16, hashLens[h]}[(rot/5)%3], variant: vs[(rot/3)%len(vs)]}
	case "hmacprf":
		return dspec{kind: "hmacprf", hash: rot % 5, ksz: size, variant: vR}
	case "hkdfprf":
		s := dspec{kind: "hkdfprf", hash: []int{2, 4, 2, 4, 0, 1, 3}[rot%7], ksz: size, variant: vR}
		if rot%3 == 1 {
			s.salt = w.rng.Bytes(1 + w.rng.Intn(40))
		}
		return s
	}
	return dspec{kind: "aesgcmhkdf", dsz: []int{16, 32}[rot%2], hash: []int{2, 4, 0}[rot%3], seg: int32([]int{4096, 1 << 20, 256}[(rot/2)%3]), ksz: size, variant: vR}
}

func (w *world) limitSalt(rot int) ([]byte, string) {
	rng := w.rng
	switch rot % 5 {
	case 0:
		return rng.Bytes(1 + rng.Intn(40)), "short"
	case 1:
		return nil, "nil"
	case 2:
		return rng.Bytes(1024), "1KiB"
	case 3:
		return []byte{}, "empty"
	}
	return rng.Bytes(41 + rng.Intn(260)), "medium"
}

// hkdfKeyLine: the bytes of the single derived key (or err) against RFC 5869 with its output limit.
func (w *world) hkdfKeyLine(e ent, salt []byte, dh *keyset.Handle, err error, what string) []byte {
	o := w.o
	line := fmt.Sprintf("!V hkdfkey %s %s %s %s %d", hashNames[e.prfHash], hlib.Tok(e.prfKey), hlib.Tok(e.prfSalt), hlib.Tok(salt), e.spec.need())
	if err != nil || dh == nil {
		o.Emit(line, "err", true)
		return nil
	}
	if dh.Len() != 1 {
		o.Emit(line, fmt.Sprintf("derived-keyset-of-%d-keys", dh.Len()), true)
		o.Violate("%s: %d derived keys for one ENABLED deriver key", what, dh.Len())
		return nil
	}
	de, err := dh.Entry(0)
	if err != nil {
		o.Emit(line, "no-entry", true)
		o.Violate("%s: Entry(0) of the derived handle: %v", what, err)
		return nil
	}
	kb, ok := keyBytesOf(de.Key())
	if !ok {
		o.Emit(line, fmt.Sprintf("key-of-type-%T", de.Key()), true)
		o.Violate("%s: derived key of unexpected type %T", what, de.Key())
		return nil
	}
	o.Emit(line, hlib.Tok(kb), true)
	return kb
}

func (w *world) sizeCell(kind string, prfHash, size, rot int) {
	o, rng := w.o, w.rng
	_, kb, ps, _ := w.prfMaterial()
	p := fplan{plan: plan{spec: w.sizedSpec(kind, size, rot), prfHash: prfHash, prfKey: kb, prfSalt: ps, id: rng.KeyID(), status: keyset.Enabled, primary: true}}
	h, method := w.buildF([]fplan{p}, buildMethods[rot%len(buildMethods)])
	es := viewF(h)
	e := es[0]
	limit := hkdfLimit(e.prfHash)
	over := e.spec.need() > limit
	cls := "within"
	switch {
	case e.spec.need() == limit:
		cls = "exactly"
	case over:
		cls = "beyond"
	}
	o.Count(fmt.Sprintf("limits/size/%s/HKDF-%s/%s-255-blocks", kind, hashNames[e.prfHash], cls))
	o.Count("limits/size-method/" + method)
	saltA, sc := w.limitSalt(rot)
	saltB := append(append([]byte(nil), saltA...), byte(1+rng.Intn(255)))
	what := fmt.Sprintf("%s keyset of one %s/%s key of %d bytes (id %d) under an HKDF-%s PRF key (limit %d), salt %s(%d)",
		method, e.spec.label(), vNames[e.spec.variant], e.spec.need(), e.id, hashNames[e.prfHash], limit, sc, len(saltA))
	kd, err := keyderivation.New(h)
	if err != nil {
		if !over {
			o.Violate("%s: keyderivation.New failed: %v", what, err)
		}
		o.Count("limits/size/refused-by-New")
		o.Emit(fmt.Sprintf("!V hkdfkey %s %s %s %s %d", hashNames[e.prfHash], hlib.Tok(e.prfKey), hlib.Tok(e.prfSalt), hlib.Tok(saltA), e.spec.need()), "err", true)
		return
	}
	dhA, errA := w.deriveNoPanic(kd, saltA, what)
	kbA := w.hkdfKeyLine(e, saltA, dhA, errA, what)
	dhB, errB := w.deriveNoPanic(kd, saltB, what)
	kbB := w.hkdfKeyLine(e, saltB, dhB, errB, what+"+1 byte")
	for _, r := range []struct {
		kb   []byte
		err  error
		salt []byte
	}{{kbA, errA, saltA}, {kbB, errB, saltB}} {
		switch {
		case over && r.err == nil:
			o.Violate("%s: DeriveKeyset(salt %x…) succeeded for a derived key size beyond the HKDF output limit (%d > %d); %d key bytes returned, all-zero=%v",
				what, r.salt[:min(4, len(r.salt))], e.spec.need(), limit, len(r.kb), r.kb != nil && allZero(r.kb))
		case !over && r.err != nil:
			o.Violate("%s: DeriveKeyset failed within the HKDF output limit: %v", what, r.err)
		case r.err == nil && r.kb != nil && allZero(r.kb):
			o.Violate("%s: the derived key material is all-zero", what)
		}
	}
	if errA == nil && errB == nil && kbA != nil && bytes.Equal(kbA, kbB) {
		o.Violate("%s: two different salts (%d and %d bytes) derive the same key material", what, len(saltA), len(saltB))
	}
	// the entry's own key deriver agrees with the factory about failure
	if d, err := prfbasedkeyderivation.NewKeyDeriver(e.dk, itok); err == nil {
		k, err := d.DeriveKey(saltA)
		if (err == nil) != (errA == nil) {
			o.Violate("%s: the key's own deriver says err=%v, DeriveKeyset says err=%v", what, err, errA)
		}
		if over && err == nil {
			kb, _ := keyBytesOf(k)
			o.Violate("%s: the key's own deriver produced %d key bytes beyond the HKDF output limit, all-zero=%v", what, len(kb), allZero(kb))
		}
	} else if !over {
		o.Violate("%s: NewKeyDeriver failed: %v", what, err)
	}
	if over {
		if _, err := w.deriveNoPanic(kd, saltA, what); (err == nil) != (errA == nil) {
			o.Violate("%s: DeriveKeyset failed once and succeeded once for the same salt", what)
		}
		return
	}
	if errA == nil {
		w.derive(kd, h, es, saltA, what)
	}
}

func (w *world) sizeGrid(reset func()) {
	o, rng := w.o, w.rng
	rot := 0
	reps := hlib.N(1, 12)
	for r := 0; r < reps; r++ {
		for _, kind := range sizedKinds {
			for _, prfHash := range []int{2, 4} {
				for _, size := range limitSizes {
					o.Case()
					reset()
					w.sizeCell(kind, prfHash, size, rot+r*7)
					rot++
				}
			}
		}
	}
	// random sizes: next to the limit of the PRF hash, far beyond it, and large ones within it
	for c, m := 0, hlib.N(32, 640); c < m; c++ {
		o.Case()
		reset()
		prfHash := rng.Pick(2, 4)
		limit := hkdfLimit(prfHash)
		var size int
		switch rng.Intn(4) {
		case 0:
			size = limit - 3 + rng.Intn(7)
		case 1:
			size = limit + 1 + rng.Intn(2*limit)
		case 2:
			size = limit - rng.Intn(limit/2)
		default:
			size = hashLens[prfHash]*(1+rng.Intn(255)) + rng.Intn(3) - 1
		}
		w.sizeCell(sizedKinds[rng.Intn(len(sizedKinds))], prfHash, size, rng.Intn(1000))
	}
}

// ---------- (b) keysets with a key that fails at derivation time ----------

// structOracle: a derived keyset holds exactly one ENABLED key per ENABLED deriver key, same id, same primary flag.
func (w *world) structOracle(dh *keyset.Handle, es []ent, what string) {
	o := w.o
	en := enabledIdx(es)
	for _, i := range en {
		n := 0
		for j := 0; j < dh.Len(); j++ {
			de, err := dh.Entry(j)
			if err != nil || de.KeyID() != es[i].id || de.KeyStatus() != keyset.Enabled {
				continue
			}
			n++
			if de.IsPrimary() != es[i].primary {
				o.Violate("%s: derived key with id %d has primary=%v, the deriver key has primary=%v (derived keyset %s)", what, es[i].id, de.IsPrimary(), es[i].primary, idsOf(dh))
			}
		}
		if n != 1 {
			o.Violate("%s: DeriveKeyset succeeded and the derived keyset %s holds %d ENABLED keys with id %d for the ENABLED deriver key at position %d (%s)",
				what, idsOf(dh), n, es[i].id, i, es[i].spec.label())
		}
	}
	if dh.Len() != len(en) {
		o.Violate("%s: %d derived keys %s for %d ENABLED deriver keys", what, dh.Len(), idsOf(dh), len(en))
	}
}

func entriesTokF(es []ent, idReq []string) string {
	ss := make([]string, len(es))
	for i, e := range es {
		ss[i] = fmt.Sprintf("%d:%s:%s:%s:%d:%s", e.id, statusCode(e.status), hlib.B01(e.primary), idReq[i], i, hlib.B01(entFails(e)))
	}
	return strings.Join(ss, ";")
}

const (
	roleEnabled = iota // ENABLED, not the primary
	rolePrimary
	roleDisabled
	roleDestroyed
)

var roleNames = []string{"enabled-non-primary", "primary", "disabled", "destroyed"}

// spoil makes entry pos of ps a key that cannot be derived, in the given role; the primary moves if it has to.
func (w *world) spoil(ps []fplan, pos, role int, class string) string {
	rng := w.rng
	p := &ps[pos]
	switch class {
	case "oversize":
		kind := sizedKinds[rng.Intn(len(sizedKinds))]
		limit := hkdfLimit(p.prfHash)
		size := limit + 1
		switch rng.Intn(4) {
		case 0:
			size = limit + 1 + rng.Intn(4)
		case 1:
			size = rng.Pick(9000, 20000, 16321, 65536)
			if size <= limit {
				size = 20000
			}
		case 2:
			size = limit + 1 + rng.Intn(3*limit)
		}
		p.spec = w.sizedSpec(kind, size, rng.Intn(1000))
		p.raw = nil
		class += "/" + kind
	default:
		u := underivable[rng.Intn(len(underivable))]
		dp, err := protoserialization.ParseParameters(u.t())
		if err != nil {
			panic(err)
		}
		p.raw, p.rawName = dp, u.name
		class += "/" + u.name
	}
	if role == rolePrimary {
		for i := range ps {
			if ps[i].primary {
				ps[i].primary = false
				ps[i].status = keyset.Enabled
			}
		}
		p.primary, p.status = true, keyset.Enabled
		return class
	}
	if p.primary { // the primary flag goes to a neighbour
		p.primary = false
		q := &ps[(pos+1+rng.Intn(len(ps)-1))%len(ps)]
		q.primary, q.status = true, keyset.Enabled
	}
	p.status = []keyset.KeyStatus{keyset.Enabled, keyset.Enabled, keyset.Disabled, keyset.Destroyed}[role]
	return class
}

// failKeyset runs one deriver keyset holding underivable keys.
func (w *world) failKeyset(ps []fplan, method, tag string) {
	o, rng := w.o, w.rng
	h, method := w.buildF(ps, method)
	es := viewF(h)
	en := enabledIdx(es)
	wantErr := false
	for _, i := range en {
		if entFails(es[i]) {
			wantErr = true
		}
	}
	what := fmt.Sprintf("%s keyset %s (%s)", method, describe(es), tag)
	line := "!V derivef " + entriesTokF(es, naturalIDReq(es))
	o.Count("limits/keyset-method/" + method)
	kd, err := keyderivation.New(h)
	if err != nil {
		o.Emit(line, "err", true)
		o.Count("limits/keyset/refused-by-New")
		if !wantErr {
			o.Violate("%s: keyderivation.New failed although every ENABLED key is derivable: %v", what, err)
		}
		return
	}
	salt := rng.Bytes(rng.Pick(0, 5, 32, 200, 1024))
	dh, err := w.deriveNoPanic(kd, salt, what)
	if err != nil {
		o.Emit(line, "err", true)
		o.Count("limits/keyset/result-err")
		if !wantErr {
			o.Violate("%s: DeriveKeyset failed although every ENABLED key is derivable (the underivable keys are not ENABLED): %v", what, err)
		}
		if _, err := w.deriveNoPanic(kd, salt, what); err == nil {
			o.Violate("%s: DeriveKeyset failed once and then succeeded", what)
		}
		return
	}
	o.Emit(line, "ok "+dumpDerived(dh, es, singlesOf(es, salt)), true)
	o.Count("limits/keyset/result-ok")
	w.structOracle(dh, es, what)
	if wantErr {
		for _, i := range en {
			if entFails(es[i]) {
				o.Violate("%s: DeriveKeyset succeeded (derived keyset %s) although the ENABLED key at position %d (id %d, primary=%v) cannot be derived",
					what, idsOf(dh), i, es[i].id, es[i].primary)
			}
		}
		return
	}
	w.derive(kd, h, es, salt, what)
}

func (w *world) failCase() {
	o, rng := w.o, w.rng
	nk := rng.Pick(2, 2, 3, 3, 4, 5)
	base := w.plans(nk)
	two := 15
	if hlib.Thorough() {
		two = 30
	}
	for pos := 0; pos < nk; pos++ {
		for role := roleEnabled; role <= roleDestroyed; role++ {
			ps := make([]fplan, nk)
			for i := range base {
				ps[i] = fplan{plan: base[i]}
			}
			class := rng.Pick(0, 1)
			cname := w.spoil(ps, pos, role, []string{"oversize", "underivable"}[class])
			method := "opts"
			if rng.Chance(45) {
				method = buildMethods[1+rng.Intn(3)]
			}
			tag := fmt.Sprintf("key %d of %d made %s as %s", pos, nk, cname, roleNames[role])
			if rng.Chance(two) { // a second underivable key elsewhere
				pos2 := (pos + 1 + rng.Intn(nk-1)) % nk
				role2 := rng.Pick(roleEnabled, roleDisabled, roleDestroyed)
				if !ps[pos2].primary {
					c2 := w.spoil(ps, pos2, role2, []string{"oversize", "underivable"}[rng.Intn(2)])
					tag += fmt.Sprintf(", key %d made %s as %s", pos2, c2, roleNames[role2])
					o.Count("limits/keyset/two-underivable-keys")
				}
			}
			o.Count("limits/keyset/" + strings.SplitN(cname, "/", 2)[0] + "/" + roleNames[role] + "/" + posName(pos, nk))
			o.Count("limits/keyset-class/" + cname)
			o.Count(fmt.Sprintf("limits/keyset-nkeys/%d", nk))
			w.failKeyset(ps, method, tag)
		}
	}
}

func posName(pos, n int) string {
	switch pos {
	case 0:
		return "first"
	case n - 1:
		return "last"
	}
	return "middle"
}

// limits: everything of this file, on its own random stream (the lines of the other parts do not move).
func limits(o *hlib.Out, seed uint64, reset func()) {
	w := &world{o: o, rng: hlib.NewRng(seed, "c17/limits")}
	w.sizeGrid(reset)
	for c, m := 0, hlib.N(120, 1500); c < m; c++ {
		o.Case()
		reset()
		w.failCase()
	}
}
