//go:build verif

package main

// Doctored serialized deriver keysets: the keyset proto is written by hand (no tink serializer on
// the way in), with every pair (output prefix type of the keyset entry, output prefix type of the
// embedded derived-key template) out of UNKNOWN(0) TINK LEGACY RAW CRUNCHY WITH_ID_REQUIREMENT(5)
// and out-of-range values, for every derivable key type, and read through the binary / JSON /
// in-memory cleartext readers and the encrypted-keyset reader.
//
//	!V accept <kind:outer:inner;…>    (ENABLED entries) accepted with these derived variants, or rejected
//
// Accepted keysets: the derived keyset's keys carry the ENTRY's id, prefix type and primary flag
// (handle API and the keyset proto), the key bytes are the model's HKDF stream (!V material over
// the PRF key the harness wrote), and the derived key behaves as the model's primitive for the
// ENTRY's prefix type: !X hmac (LEGACY: data||0x00, prefix 0x00||id), !A dec gcm / xchacha,
// !X siv, !G ed25519, !X prf hkdf / hmac.

import (
	"bytes"
	stded "crypto/ed25519"
	"fmt"
	"strings"

	"google.golang.org/protobuf/proto"

	"github.com/tink-crypto/tink-go/v2/aead"
	"github.com/tink-crypto/tink-go/v2/daead"
	"github.com/tink-crypto/tink-go/v2/insecurecleartextkeyset"
	"github.com/tink-crypto/tink-go/v2/internal/protoserialization"
	"github.com/tink-crypto/tink-go/v2/internal/verifharness/hlib"
	"github.com/tink-crypto/tink-go/v2/keyderivation"
	"github.com/tink-crypto/tink-go/v2/keyset"
	"github.com/tink-crypto/tink-go/v2/mac"
	"github.com/tink-crypto/tink-go/v2/prf"
	gcmpb "github.com/tink-crypto/tink-go/v2/proto/aes_gcm_go_proto"
	gcmhkdfpb "github.com/tink-crypto/tink-go/v2/proto/aes_gcm_hkdf_streaming_go_proto"
	sivpb "github.com/tink-crypto/tink-go/v2/proto/aes_siv_go_proto"
	commonpb "github.com/tink-crypto/tink-go/v2/proto/common_go_proto"
	edpb "github.com/tink-crypto/tink-go/v2/proto/ed25519_go_proto"
	hkdfpb "github.com/tink-crypto/tink-go/v2/proto/hkdf_prf_go_proto"
	hmacpb "github.com/tink-crypto/tink-go/v2/proto/hmac_go_proto"
	hmacprfpb "github.com/tink-crypto/tink-go/v2/proto/hmac_prf_go_proto"
	prfderpb "github.com/tink-crypto/tink-go/v2/proto/prf_based_deriver_go_proto"
	tinkpb "github.com/tink-crypto/tink-go/v2/proto/tink_go_proto"
	xchachapb "github.com/tink-crypto/tink-go/v2/proto/xchacha20_poly1305_go_proto"
	"github.com/tink-crypto/tink-go/v2/signature"
)

// the prefix-type values of the grid: 0 UNKNOWN_PREFIX, 1 TINK, 2 LEGACY, 3 RAW, 4 CRUNCHY,
// 5 WITH_ID_REQUIREMENT, 6 and -1 outside the enum.
var pfxCodes = []int32{0, 1, 2, 3, 4, 5, 6, -1}

var pfxKinds = []string{"hmac", "aesgcm", "xchacha", "aessiv", "ed25519", "hkdfprf", "hmacprf", "aesgcmhkdf"}

func pfxName(c int32) string {
	switch c {
	case 0:
		return "UNKNOWN"
	case 1:
		return "TINK"
	case 2:
		return "LEGACY"
	case 3:
		return "RAW"
	case 4:
		return "CRUNCHY"
	case 5:
		return "WITH_ID_REQUIREMENT"
	}
	return fmt.Sprintf("out-of-range(%d)", c)
}

// variantOfCode: the variant a prefix-type value stands for on a key of this kind (ok=false: the
// key type has no such prefix type). AEAD / DAEAD keys have no LEGACY variant: tink-go reads
// LEGACY as CRUNCHY there (same prefix bytes, same computation).
func variantOfCode(kind string, c int32) (int, bool) {
	switch kind {
	case "hmac", "ed25519":
		switch c {
		case 1:
			return vT, true
		case 2:
			return vL, true
		case 3:
			return vR, true
		case 4:
			return vC, true
		}
	case "aesgcm", "xchacha", "aessiv":
		switch c {
		case 1:
			return vT, true
		case 2, 4:
			return vC, true
		case 3:
			return vR, true
		}
	default:
		if c == 3 {
			return vR, true
		}
	}
	return 0, false
}

// letterOfCode: the model's variant letter for the ENTRY's prefix type.
func letterOfCode(c int32) string {
	switch c {
	case 1:
		return "T"
	case 2:
		return "L"
	case 4:
		return "C"
	}
	return "R"
}

var pbHash = []commonpb.HashType{commonpb.HashType_SHA1, commonpb.HashType_SHA224, commonpb.HashType_SHA256, commonpb.HashType_SHA384, commonpb.HashType_SHA512}

const typePrefix = "type.googleapis.com/google.crypto.tink."

func mustMarshal(m proto.Message) []byte {
	b, err := proto.Marshal(m)
	if err != nil {
		panic(err)
	}
	return b
}

// formatOf writes the key format of a derived-key template by hand.
func formatOf(s dspec) (string, []byte) {
	switch s.kind {
	case "aesgcm":
		return typePrefix + "AesGcmKey", mustMarshal(&gcmpb.AesGcmKeyFormat{KeySize: uint32(s.ksz)})
	case "xchacha":
		return typePrefix + "XChaCha20Poly1305Key", mustMarshal(&xchachapb.XChaCha20Poly1305KeyFormat{})
	case "aessiv":
		return typePrefix + "AesSivKey", mustMarshal(&sivpb.AesSivKeyFormat{KeySize: uint32(s.ksz)})
	case "hmac":
		return typePrefix + "HmacKey", mustMarshal(&hmacpb.HmacKeyFormat{Params: &hmacpb.HmacParams{Hash: pbHash[s.hash], TagSize: uint32(s.tag)}, KeySize: uint32(s.ksz)})
	case "hkdfprf":
		return typePrefix + "HkdfPrfKey", mustMarshal(&hkdfpb.HkdfPrfKeyFormat{Params: &hkdfpb.HkdfPrfParams{Hash: pbHash[s.hash], Salt: s.salt}, KeySize: uint32(s.ksz)})
	case "hmacprf":
		return typePrefix + "HmacPrfKey", mustMarshal(&hmacprfpb.HmacPrfKeyFormat{Params: &hmacprfpb.HmacPrfParams{Hash: pbHash[s.hash]}, KeySize: uint32(s.ksz)})
	case "ed25519":
		return typePrefix + "Ed25519PrivateKey", mustMarshal(&edpb.Ed25519KeyFormat{})
	case "aesgcmhkdf":
		return typePrefix + "AesGcmHkdfStreamingKey", mustMarshal(&gcmhkdfpb.AesGcmHkdfStreamingKeyFormat{
			Params:  &gcmhkdfpb.AesGcmHkdfStreamingParams{CiphertextSegmentSize: uint32(s.seg), DerivedKeySize: uint32(s.dsz), HkdfHashType: pbHash[s.hash]},
			KeySize: uint32(s.ksz)})
	}
	panic("formatOf: " + s.kind)
}

// pent: one entry of a doctored keyset, as the harness wrote it.
type pent struct {
	spec         dspec // variant field unused: the prefix types are outer / inner
	outer, inner int32
	prfHash      int
	prfKey       []byte
	prfSalt      []byte
	id           uint32
	status       tinkpb.KeyStatusType
	primary      bool
}

func (p pent) enabled() bool { return p.status == tinkpb.KeyStatusType_ENABLED }

// acceptable: the entry's and the template's prefix type are the same value, one the key type has.
func (p pent) acceptable() (int, bool) {
	v, ok := variantOfCode(p.spec.kind, p.outer)
	return v, ok && p.outer == p.inner
}

func (p pent) tok() string { return fmt.Sprintf("%s:%d:%d", p.spec.kind, p.outer, p.inner) }

func (p pent) keyProto() *tinkpb.Keyset_Key {
	url, format := formatOf(p.spec)
	prfKey := mustMarshal(&hkdfpb.HkdfPrfKey{Params: &hkdfpb.HkdfPrfParams{Hash: pbHash[p.prfHash], Salt: p.prfSalt}, KeyValue: p.prfKey})
	dk := mustMarshal(&prfderpb.PrfBasedDeriverKey{
		PrfKey: &tinkpb.KeyData{TypeUrl: typePrefix + "HkdfPrfKey", Value: prfKey, KeyMaterialType: tinkpb.KeyData_SYMMETRIC},
		Params: &prfderpb.PrfBasedDeriverParams{DerivedKeyTemplate: &tinkpb.KeyTemplate{TypeUrl: url, Value: format, OutputPrefixType: tinkpb.OutputPrefixType(p.inner)}},
	})
	return &tinkpb.Keyset_Key{
		KeyData:          &tinkpb.KeyData{TypeUrl: typePrefix + "PrfBasedDeriverKey", Value: dk, KeyMaterialType: tinkpb.KeyData_SYMMETRIC},
		Status:           p.status,
		KeyId:            p.id,
		OutputPrefixType: tinkpb.OutputPrefixType(p.outer),
	}
}

// stdSpec draws standard parameters of one kind.
func (w *world) stdSpec(kind string) dspec {
	for {
		s := randSpec(w.rng)
		if s.kind == kind && s.std() {
			return s
		}
	}
}

var readerNames = []string{"binary", "json", "memory", "encrypted-binary", "encrypted-json"}

// readDoctored hands the hand-written keyset to tink through one of the readers.
func (w *world) readDoctored(ks *tinkpb.Keyset, reader int) (*keyset.Handle, error) {
	switch reader {
	case 0:
		return insecurecleartextkeyset.Read(keyset.NewBinaryReader(bytes.NewReader(mustMarshal(ks))))
	case 1:
		var buf bytes.Buffer
		if err := keyset.NewJSONWriter(&buf).Write(ks); err != nil {
			return nil, fmt.Errorf("JSON writer: %v", err)
		}
		return insecurecleartextkeyset.Read(keyset.NewJSONReader(&buf))
	case 2:
		return insecurecleartextkeyset.Read(&keyset.MemReaderWriter{Keyset: ks})
	}
	// encrypted under a master AEAD; the EncryptedKeyset is written by hand as well
	mh, err := keyset.NewHandle(aead.AES128GCMKeyTemplate())
	if err != nil {
		panic(err)
	}
	master, err := aead.New(mh)
	if err != nil {
		panic(err)
	}
	ad := w.rng.Bytes(w.rng.Pick(0, 0, 9))
	ct, err := master.Encrypt(mustMarshal(ks), ad)
	if err != nil {
		panic(err)
	}
	enc := &tinkpb.EncryptedKeyset{EncryptedKeyset: ct}
	var r keyset.Reader
	if reader == 3 {
		r = keyset.NewBinaryReader(bytes.NewReader(mustMarshal(enc)))
	} else {
		var buf bytes.Buffer
		if err := keyset.NewJSONWriter(&buf).WriteEncrypted(enc); err != nil {
			return nil, fmt.Errorf("JSON writer: %v", err)
		}
		r = keyset.NewJSONReader(&buf)
	}
	return keyset.ReadWithAssociatedData(r, master, ad)
}

// prefixKeyset builds a doctored keyset around one entry with the given (kind, outer, inner);
// the other entries have consistent prefix types most of the time.
func (w *world) prefixKeyset(kind string, outer, inner int32, nk int) []pent {
	rng := w.rng
	ps := make([]pent, nk)
	at := rng.Intn(nk)
	prim := -1
	used := map[uint32]bool{}
	for i := range ps {
		p := &ps[i]
		if i == at {
			p.spec, p.outer, p.inner = w.stdSpec(kind), outer, inner
		} else {
			p.spec = w.stdSpec(pfxKinds[rng.Intn(len(pfxKinds))])
			legal := []int32{3}
			switch p.spec.kind {
			case "hmac", "ed25519", "aesgcm", "xchacha", "aessiv":
				legal = []int32{1, 2, 3, 4}
			}
			p.outer = legal[rng.Intn(len(legal))]
			p.inner = p.outer
			if rng.Chance(15) {
				p.inner = pfxCodes[rng.Intn(len(pfxCodes))]
			}
		}
		p.prfHash, p.prfKey, p.prfSalt, _ = w.prfMaterial()
		id := rng.KeyID()
		if i == at && rng.Chance(30) {
			id = 0 // where "no id requirement" and "id requirement 0" meet
		}
		for used[id] {
			id++
		}
		used[id] = true
		p.id = id
		p.status = tinkpb.KeyStatusType_ENABLED
		if r := rng.Intn(100); r < 12 {
			p.status = tinkpb.KeyStatusType_DISABLED
		} else if r < 18 {
			p.status = tinkpb.KeyStatusType_DESTROYED
		}
	}
	// a primary among the ENABLED entries (the marked entry preferably ENABLED)
	if rng.Chance(85) {
		ps[at].status = tinkpb.KeyStatusType_ENABLED
	}
	var en []int
	for i, p := range ps {
		if p.enabled() {
			en = append(en, i)
		}
	}
	if len(en) == 0 {
		ps[at].status = tinkpb.KeyStatusType_ENABLED
		en = []int{at}
	}
	prim = en[rng.Intn(len(en))]
	ps[prim].primary = true
	return ps
}

func (w *world) prefixCase(kind string, outer, inner int32, nk, reader int) {
	o := w.o
	ps := w.prefixKeyset(kind, outer, inner, nk)
	ks := &tinkpb.Keyset{}
	var toks []string
	mustAccept, mustReject := true, false
	for _, p := range ps {
		ks.Key = append(ks.Key, p.keyProto())
		if p.primary {
			ks.PrimaryKeyId = p.id
		}
		_, ok := p.acceptable()
		if p.enabled() {
			toks = append(toks, p.tok())
			if !ok {
				mustReject = true
			}
		}
		if !ok {
			mustAccept = false
		}
	}
	what := fmt.Sprintf("doctored %s keyset [%s], %s entry %s / template %s", readerNames[reader], entriesDesc(ps), kind, pfxName(outer), pfxName(inner))
	o.Count("prefix/reader/" + readerNames[reader])
	o.Count(fmt.Sprintf("prefix/pair/%s/%s-%s", kind, pfxName(outer), pfxName(inner)))

	var dh *keyset.Handle
	var kd keyderivation.KeysetDeriver
	salt := w.rng.Bytes(w.rng.Pick(0, 1, 16, 16, 33, 200))
	stage := ""
	h, err := w.readDoctored(ks, reader)
	if err != nil {
		stage = "read"
	} else if kd, err = keyderivation.New(h); err != nil {
		stage = "new"
	} else if dh, err = kd.DeriveKeyset(salt); err != nil {
		stage = "derive"
	}
	accepted := stage == ""
	line := "!V accept " + strings.Join(toks, ";")
	definite := mustAccept || mustReject // a bad prefix type on a key that is not ENABLED may be refused or ignored
	if !accepted {
		o.Count("prefix/rejected-at-" + stage)
		if definite {
			o.Emit(line, "reject", true)
		}
		if mustAccept {
			o.Violate("%s: consistent deriver keyset rejected (%s): %v", what, stage, err)
		}
		return
	}
	o.Count("prefix/accepted")
	if !definite {
		o.Count("prefix/accepted-with-bad-non-enabled-entry")
	}
	if mustReject {
		for _, p := range ps {
			if _, ok := p.acceptable(); p.enabled() && !ok {
				o.Violate("%s: accepted although the ENABLED deriver key %d has entry prefix type %s and derived-key template prefix type %s (%s)", what, p.id, pfxName(p.outer), pfxName(p.inner), p.spec.kind)
			}
		}
	}
	// what came out, entry by entry
	var en []pent
	for _, p := range ps {
		if p.enabled() {
			en = append(en, p)
		}
	}
	gotV := make([]string, dh.Len())
	for j := range gotV {
		gotV[j] = "?"
		if e, err := dh.Entry(j); err == nil {
			if s, err := protoserialization.SerializeKey(e.Key()); err == nil {
				gotV[j] = map[tinkpb.OutputPrefixType]string{1: "T", 2: "L", 3: "R", 4: "C"}[s.OutputPrefixType()]
			}
		}
	}
	if definite {
		o.Emit(line, "ok "+strings.Join(gotV, ";"), true)
	}
	if dh.Len() != len(en) {
		o.Violate("%s: %d derived keys for %d ENABLED deriver keys", what, dh.Len(), len(en))
		return
	}
	if h.Len() != len(ps) {
		o.Violate("%s: the handle read has %d entries, the keyset %d", what, h.Len(), len(ps))
	}
	dks := insecurecleartextkeyset.KeysetMaterial(dh)
	if len(dks.GetKey()) != len(en) {
		o.Violate("%s: derived keyset proto has %d keys", what, len(dks.GetKey()))
		return
	}
	fam := en[0].spec.family()
	primJ := -1
	for j, p := range en {
		if p.spec.family() != fam {
			fam = ""
		}
		if p.primary {
			primJ = j
		}
	}
	for j, p := range en {
		if _, ok := variantOfCode(p.spec.kind, p.outer); !ok {
			continue // no reference for a prefix type the key type does not have (already reported)
		}
		w.checkDerivedEntry(dh, dks, j, p, salt, what)
	}
	if pk := dks.GetPrimaryKeyId(); primJ >= 0 && pk != en[primJ].id {
		o.Violate("%s: derived keyset proto primary_key_id %d, deriver keyset %d", what, pk, en[primJ].id)
	}
	// the derived keyset as a whole: the primary's prefix type decides the output
	if fam != "" && primJ >= 0 {
		if _, ok := variantOfCode(en[primJ].spec.kind, en[primJ].outer); ok {
			if e, err := dh.Entry(primJ); err == nil {
				if kb, ok := keyBytesOf(e.Key()); ok {
					w.behave(dh, en[primJ], kb, what+", whole derived keyset")
					o.Count("prefix/whole-keyset/" + fam)
				}
			}
		}
	}
	// determinism: the same bytes read again derive the same keyset
	if h2, err := w.readDoctored(ks, reader); err != nil {
		o.Violate("%s: second read failed: %v", what, err)
	} else if kd2, err := keyderivation.New(h2); err != nil {
		o.Violate("%s: second keyderivation.New failed: %v", what, err)
	} else if dh2, err := kd2.DeriveKeyset(append([]byte(nil), salt...)); err != nil || !handleEqual(dh, dh2) {
		o.Violate("%s: the keyset read twice derives two different keysets (err=%v)", what, err)
	}
}

func entriesDesc(ps []pent) string {
	ss := make([]string, len(ps))
	for i, p := range ps {
		st := map[tinkpb.KeyStatusType]string{tinkpb.KeyStatusType_ENABLED: "E", tinkpb.KeyStatusType_DISABLED: "D", tinkpb.KeyStatusType_DESTROYED: "X"}[p.status]
		if p.primary {
			st += "*"
		}
		ss[i] = fmt.Sprintf("%d:%s:%s:%d/%d", p.id, st, p.spec.kind, p.outer, p.inner)
	}
	return strings.Join(ss, " ")
}

// checkDerivedEntry: derived entry j against the deriver entry p the harness wrote.
func (w *world) checkDerivedEntry(dh *keyset.Handle, dks *tinkpb.Keyset, j int, p pent, salt []byte, what string) {
	o := w.o
	v, _ := variantOfCode(p.spec.kind, p.outer)
	tag := fmt.Sprintf("%s: derived key %d (from deriver key id %d, %s, entry prefix type %s)", what, j, p.id, p.spec.label(), pfxName(p.outer))
	de, err := dh.Entry(j)
	if err != nil {
		o.Violate("%s: Entry: %v", tag, err)
		return
	}
	if de.KeyID() != p.id || de.KeyStatus() != keyset.Enabled || de.IsPrimary() != p.primary {
		o.Violate("%s is (id %d, %s, primary=%v), deriver entry (id %d, E, primary=%v)", tag, de.KeyID(), statusCode(de.KeyStatus()), de.IsPrimary(), p.id, p.primary)
	}
	k := de.Key()
	// the prefix type the derived key carries: the entry's (LEGACY on a key type without LEGACY variant: CRUNCHY)
	wantType := tinkpb.OutputPrefixType(p.outer)
	if v == vC {
		wantType = tinkpb.OutputPrefixType_CRUNCHY
	}
	pk := dks.GetKey()[j]
	if pk.GetKeyId() != p.id || pk.GetStatus() != tinkpb.KeyStatusType_ENABLED || pk.GetOutputPrefixType() != wantType {
		o.Violate("%s: derived keyset proto key is (id %d, %v, %v), want (id %d, ENABLED, %v)", tag, pk.GetKeyId(), pk.GetStatus(), pk.GetOutputPrefixType(), p.id, wantType)
	}
	if s, err := protoserialization.SerializeKey(k); err != nil {
		o.Violate("%s: cannot be serialized: %v", tag, err)
	} else if s.OutputPrefixType() != wantType {
		o.Violate("%s: serialized with prefix type %v, the deriver entry has %s", tag, s.OutputPrefixType(), pfxName(p.outer))
	}
	idr, has := k.IDRequirement()
	if has != (v != vR) || (has && idr != p.id) {
		o.Violate("%s: id requirement (%d,%v), want (%d,%v)", tag, idr, has, p.id, v != vR)
	}
	if pre, ok := outputPrefixOf(k); ok {
		if !bytes.Equal(pre, wantPrefix(v, p.id)) {
			o.Violate("%s: output prefix %x, want %x", tag, pre, wantPrefix(v, p.id))
		}
	} else if v != vR {
		o.Violate("%s: key without OutputPrefix for a prefixed entry", tag)
	}
	kb, ok := keyBytesOf(k)
	if !ok {
		o.Violate("%s: derived key of unexpected type %T", tag, k)
		return
	}
	need := p.spec.need()
	if len(kb) != need {
		o.Violate("%s: %d key bytes, the derivation rule takes %d", tag, len(kb), need)
	}
	o.Emit(fmt.Sprintf("!V material %s %s %s %s %d", hashNames[p.prfHash], hlib.Tok(p.prfKey), hlib.Tok(p.prfSalt), hlib.Tok(salt), need), hlib.Tok(kb), true)
	s := p.spec
	s.variant = v
	direct, err := s.build(p.id, kb)
	if err != nil {
		o.Violate("%s: an ordinary %s key cannot be built from the derived bytes: %v", tag, vNames[v], err)
		return
	}
	if !direct.Equal(k) || !k.Equal(direct) {
		o.Violate("%s is not Equal to the ordinary %s key built from its bytes", tag, vNames[v])
	}
	one, err := hlib.HandleOf(k)
	if err != nil {
		o.Violate("%s cannot be put into a keyset: %v", tag, err)
		return
	}
	w.behave(one, p, kb, tag)
	w.useKey(s, p.id, k, direct, tag)
}

// behave: the handle's (primary) key computes what the model's primitive computes for the deriver
// ENTRY's prefix type and id over the key bytes kb.
func (w *world) behave(h *keyset.Handle, p pent, kb []byte, what string) {
	o, rng := w.o, w.rng
	L := letterOfCode(p.outer)
	id := p.id
	if L == "R" {
		id = 0
	}
	msg := rng.Bytes(rng.MsgLen(70))
	ad := rng.Bytes(rng.Pick(0, 0, 5, 20))
	s := p.spec
	o.Count("prefix/behaviour/" + s.kind + "/" + L)
	switch s.kind {
	case "hmac":
		m, err := mac.New(h)
		if err != nil {
			o.Violate("%s: mac.New: %v", what, err)
			return
		}
		tag, err := m.ComputeMAC(msg)
		res := "err"
		if err == nil {
			res = "ok " + hlib.Tok(tag)
		}
		o.Emit(fmt.Sprintf("!X hmac %s %s %d %s %d %s", hashNames[s.hash], hlib.Tok(kb), s.tag, L, id, hlib.Tok(msg)), res, true)
		if err == nil {
			bad := append([]byte(nil), msg...)
			bad = append(bad, 0)
			res := "ok"
			if err := m.VerifyMAC(tag, bad); err != nil {
				res = "reject"
			}
			// the LEGACY computation appends 0x00: the tag of msg must not verify msg||0x00 (nor the other way round)
			o.Emit(fmt.Sprintf("!X hmacv %s %s %d %s %d %s %s", hashNames[s.hash], hlib.Tok(kb), s.tag, L, id, hlib.Tok(tag), hlib.Tok(bad)), res, true)
		}
	case "aesgcm", "xchacha":
		a, err := aead.New(h)
		if err != nil {
			o.Violate("%s: aead.New: %v", what, err)
			return
		}
		ct, err := a.Encrypt(msg, ad)
		if err != nil {
			o.Violate("%s: Encrypt: %v", what, err)
			return
		}
		name := "gcm"
		if s.kind == "xchacha" {
			name = "xchacha"
		}
		o.Emit(fmt.Sprintf("!A dec %s %s %s %d %s %s", name, hlib.Tok(kb), L, id, hlib.Tok(ct), hlib.Tok(ad)), "ok "+hlib.Tok(msg), true)
	case "aessiv":
		d, err := daead.New(h)
		if err != nil {
			o.Violate("%s: daead.New: %v", what, err)
			return
		}
		ct, err := d.EncryptDeterministically(msg, ad)
		res := "err"
		if err == nil {
			res = "ok " + hlib.Tok(ct)
		}
		o.Emit(fmt.Sprintf("!X siv %s %s %d %s %s", hlib.Tok(kb), L, id, hlib.Tok(msg), hlib.Tok(ad)), res, true)
	case "ed25519":
		sg, err := signature.NewSigner(h)
		if err != nil {
			o.Violate("%s: signature.NewSigner: %v", what, err)
			return
		}
		sig, err := sg.Sign(msg)
		if err != nil {
			o.Violate("%s: Sign: %v", what, err)
			return
		}
		pub := stded.NewKeyFromSeed(kb).Public().(stded.PublicKey) // the public key of the seed, by the standard library
		o.Emit(fmt.Sprintf("!G ed25519 %s %d %s %s %s", L, id, hlib.Tok(pub), hlib.Tok(msg), hlib.Tok(sig)), "1", true)
	case "hkdfprf", "hmacprf":
		set, err := prf.NewPRFSet(h)
		if err != nil {
			o.Violate("%s: prf.NewPRFSet: %v", what, err)
			return
		}
		n := rng.Pick(1, 16, 32, hashLens[s.hash])
		out, err := set.ComputePrimaryPRF(msg, uint32(n))
		res := "err"
		if err == nil {
			res = "ok " + hlib.Tok(out)
		}
		if s.kind == "hkdfprf" {
			o.Emit(fmt.Sprintf("!X prf hkdf %s %s %s %s %d", hashNames[s.hash], hlib.Tok(kb), hlib.Tok(s.salt), hlib.Tok(msg), n), res, true)
		} else {
			o.Emit(fmt.Sprintf("!X prf hmac %s %s %s %d", hashNames[s.hash], hlib.Tok(kb), hlib.Tok(msg), n), res, true)
		}
	}
}

// prefixGrid: every (kind, entry prefix type, template prefix type) cell once per round.
func (w *world) prefixGrid(rounds int, tapeReset func()) {
	c := 0
	for r := 0; r < rounds; r++ {
		for _, kind := range pfxKinds {
			for _, outer := range pfxCodes {
				for _, inner := range pfxCodes {
					w.o.Case()
					tapeReset()
					nk := 1
					if r > 0 || c%3 == 2 {
						nk = w.rng.Pick(1, 2, 3)
					}
					w.prefixCase(kind, outer, inner, nk, (c+r)%len(readerNames))
					c++
				}
			}
		}
	}
}

// prefixRandom: the pairs among the prefix types the key types have, more often than the grid does.
func (w *world) prefixRandom() {
	rng := w.rng
	kind := pfxKinds[rng.Pick(0, 0, 0, 1, 1, 2, 3, 4, 4, 5, 6, 7)]
	named := []int32{1, 2, 3, 4}
	outer := named[rng.Intn(4)]
	inner := outer
	switch r := rng.Intn(20); {
	case r < 7:
		inner = named[rng.Intn(4)]
	case r < 9:
		inner = pfxCodes[rng.Intn(len(pfxCodes))]
	}
	if rng.Chance(10) {
		outer, inner = inner, outer
	}
	w.prefixCase(kind, outer, inner, rng.Pick(1, 1, 2, 3, 4), rng.Intn(len(readerNames)))
}
