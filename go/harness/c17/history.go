//go:build verif

package main

// Histories on ONE KeysetDeriver object with ONE salt buffer owned by the caller: the buffer is
// overwritten in place between consecutive DeriveKeyset calls (same length, one bit / first byte /
// last byte only), re-sliced to other lengths and offsets of the same backing array, set back to an
// earlier salt (A,B,A), used twice unchanged, and scribbled over after a call while the handles
// derived earlier are inspected again. Every result is compared with a fresh deriver on a fresh
// copy of the salt, with the results for equal / different salts earlier in the history, and with
// the model (!V material per derived key): a derived key is a function of (keyset, salt bytes at
// call time) only.

import (
	"bytes"
	"fmt"
	"strings"

	"github.com/tink-crypto/tink-go/v2/internal/verifharness/hlib"
	"github.com/tink-crypto/tink-go/v2/key"
	"github.com/tink-crypto/tink-go/v2/keyderivation"
	"github.com/tink-crypto/tink-go/v2/keyderivation/prfbasedkeyderivation"
	"github.com/tink-crypto/tink-go/v2/keyset"
)

// snapshot prints everything observable of a derived handle.
func snapshot(h *keyset.Handle) string {
	var sb strings.Builder
	for i := 0; i < h.Len(); i++ {
		e, err := h.Entry(i)
		if err != nil {
			fmt.Fprintf(&sb, "[%d: %v]", i, err)
			continue
		}
		kb, _ := keyBytesOf(e.Key())
		idr, has := e.Key().IDRequirement()
		pre, _ := outputPrefixOf(e.Key())
		fmt.Fprintf(&sb, "[%d %s %v %d/%v %x %x]", e.KeyID(), statusCode(e.KeyStatus()), e.IsPrimary(), idr, has, pre, kb)
	}
	return sb.String()
}

type hrec struct {
	salt []byte // the salt bytes at call time (a private copy)
	dh   *keyset.Handle
	snap string
	keys []key.Key // the entries' own key derivers' results (same history, same buffer)
	step int
	op   string
}

func (w *world) historyCase() {
	o, rng := w.o, w.rng
	nk := rng.Pick(1, 1, 2, 2, 3)
	ps := w.plans(nk)
	if rng.Chance(70) { // mostly ENABLED keys: more derived keys per call
		for i := range ps {
			ps[i].status = keyset.Enabled
		}
	}
	h, method := w.build(ps)
	es := view(h)
	en := enabledIdx(es)
	what := fmt.Sprintf("history on one deriver (%s keyset of %d)", method, nk)
	kd, err := keyderivation.New(h)
	if err != nil {
		o.Violate("%s: keyderivation.New failed: %v", what, err)
		return
	}
	// the entries' own key derivers, one object each for the whole history
	own := make([]deriver, len(es))
	for _, i := range en {
		if d, err := prfbasedkeyderivation.NewKeyDeriver(es[i].dk, itok); err == nil {
			own[i] = d
		}
	}
	capN := rng.Pick(8, 16, 16, 32, 33, 64, 100, 300, 1100)
	back := rng.Bytes(capN) // the caller's one buffer
	lo, n := 0, 1+rng.Intn(capN)
	if rng.Chance(40) {
		n = capN
	}
	steps := 5 + rng.Intn(6)
	if hlib.Thorough() {
		steps = 6 + rng.Intn(14)
	}
	var hist []hrec
	first := true
	for step := 0; step < steps; step++ {
		cur := back[lo : lo+n]
		op := "first"
		if step > 0 {
			switch r := rng.Intn(100); {
			case r < 22:
				op = "overwrite-same-length"
				copy(cur, rng.Bytes(n))
			case r < 32 && n > 0:
				op = "one-bit"
				cur[rng.Intn(n)] ^= 1 << uint(rng.Intn(8))
			case r < 40 && n > 0:
				op = "last-byte-only"
				cur[n-1] += byte(1 + rng.Intn(255))
			case r < 46 && n > 0:
				op = "first-byte-only"
				cur[0] += byte(1 + rng.Intn(255))
			case r < 56 && n > 0:
				op = "reslice-shorter" // a prefix of the previous salt, same array
				n -= 1 + rng.Intn(min(n, 1+rng.Intn(8)))
			case r < 66 && lo+n < capN:
				op = "reslice-longer" // the previous salt is a prefix
				n += 1 + rng.Intn(min(capN-lo-n, 1+rng.Intn(8)))
			case r < 72 && n > 1:
				op = "reslice-offset" // the tail of the previous salt
				d := 1 + rng.Intn(n-1)
				lo, n = lo+d, n-d
			case r < 86:
				op = "earlier-salt-again" // A,B,A: an earlier salt copied back into the buffer
				e := hist[rng.Intn(len(hist))]
				if len(e.salt) > capN {
					panic("history: salt longer than the buffer")
				}
				if lo+len(e.salt) > capN || rng.Bool() {
					lo = rng.Intn(capN - len(e.salt) + 1)
				}
				n = len(e.salt)
				copy(back[lo:lo+n], e.salt)
			case r < 92:
				op = "unchanged"
			case r < 96:
				op = "empty"
				n = 0
			default:
				op = "whole-buffer"
				lo, n = 0, capN
				copy(back, rng.Bytes(capN))
			}
			cur = back[lo : lo+n]
		}
		o.Count("history/op/" + op)
		keep := append([]byte(nil), cur...)
		tag := fmt.Sprintf("%s, call %d (%s, salt %s = buffer[%d:%d])", what, step+1, op, hlib.Tok(keep[:min(len(keep), 12)]), lo, lo+n)
		dh, err := kd.DeriveKeyset(cur)
		if !bytes.Equal(cur, keep) {
			o.Violate("%s: DeriveKeyset modified the caller's salt buffer", tag)
			copy(cur, keep)
		}
		if first {
			line := "!V derive " + entriesTok(es, naturalIDReq(es))
			if err != nil {
				o.Emit(line, "err", true)
			} else {
				o.Emit(line, "ok "+dumpDerived(dh, es, singlesOf(es, keep)), true)
			}
			first = false
		}
		if err != nil {
			o.Violate("%s: DeriveKeyset failed: %v", tag, err)
			return
		}
		if dh.Len() != len(en) {
			o.Violate("%s: %d derived keys for %d ENABLED deriver keys", tag, dh.Len(), len(en))
			return
		}
		rec := hrec{salt: keep, dh: dh, snap: snapshot(dh), step: step + 1, op: op, keys: make([]key.Key, len(es))}
		// the model: every derived key is the HKDF stream for the salt bytes at call time
		for j, i := range en {
			de, err := dh.Entry(j)
			if err != nil {
				o.Violate("%s: Entry(%d): %v", tag, j, err)
				continue
			}
			if de.KeyID() != es[i].id || de.IsPrimary() != es[i].primary || de.KeyStatus() != keyset.Enabled {
				o.Violate("%s: derived entry %d is (%d,%s,%v), deriver entry (%d,E,%v)", tag, j, de.KeyID(), statusCode(de.KeyStatus()), de.IsPrimary(), es[i].id, es[i].primary)
			}
			w.materialLine(es[i], keep, de.Key(), tag)
			// the same history on the entry's own key deriver
			if own[i] != nil {
				k, err := own[i].DeriveKey(cur)
				if err != nil || !k.Equal(de.Key()) {
					o.Violate("%s: the entry's own key deriver (same object, same buffer) yields another key for derived key %d (err=%v)", tag, j, err)
				}
				rec.keys[i] = k
			}
		}
		// a fresh deriver on a fresh copy of the salt
		if kdF, err := keyderivation.New(h); err != nil {
			o.Violate("%s: second keyderivation.New failed: %v", tag, err)
		} else if dhF, err := kdF.DeriveKeyset(append([]byte(nil), keep...)); err != nil || !handleEqual(dh, dhF) {
			o.Violate("%s: the deriver with a history and a fresh deriver on a copy of the salt derive different keysets (err=%v): %s vs %s", tag, err, short(rec.snap), short(snapshotOr(dhF)))
		}
		// against the whole history
		for _, e := range hist {
			if bytes.Equal(e.salt, keep) {
				o.Count("history/pair/equal-salts")
				if !handleEqual(e.dh, dh) {
					o.Violate("%s: call %d had the same salt and derived another keyset", tag, e.step)
				}
			} else {
				o.Count("history/pair/different-salts")
				w.allDiffer(e.dh, dh, fmt.Sprintf("%s vs call %d (salt %s)", tag, e.step, hlib.Tok(e.salt[:min(len(e.salt), 12)])))
			}
		}
		hist = append(hist, rec)
		// the caller goes on using its buffer: nothing derived so far may move
		if rng.Chance(55) {
			if rng.Bool() {
				copy(back, rng.Bytes(capN))
				o.Count("history/scribble/whole-buffer")
			} else if n > 0 {
				for i := range cur {
					cur[i] = ^cur[i]
				}
				o.Count("history/scribble/salt-inverted")
			}
			for _, e := range hist {
				if s := snapshot(e.dh); s != e.snap {
					o.Violate("%s: the keyset derived by call %d changed when the salt buffer was overwritten afterwards: %s → %s", tag, e.step, short(e.snap), short(s))
				}
			}
		}
	}
	// at the end: every handle of the history still is what it was, and Equal to a fresh derivation
	kdF, err := keyderivation.New(h)
	if err != nil {
		return
	}
	for _, e := range hist {
		if s := snapshot(e.dh); s != e.snap {
			o.Violate("%s: the keyset derived by call %d (%s) changed later in the history", what, e.step, e.op)
		}
		if dhF, err := kdF.DeriveKeyset(e.salt); err != nil || !handleEqual(e.dh, dhF) {
			o.Violate("%s: call %d (%s) differs from a fresh derivation with its salt %s (err=%v)", what, e.step, e.op, hlib.Tok(e.salt[:min(len(e.salt), 12)]), err)
		}
	}
	o.Count(fmt.Sprintf("history/buffer-capacity/%d", capN))
}

func snapshotOr(h *keyset.Handle) string {
	if h == nil {
		return "<nil>"
	}
	return snapshot(h)
}

func short(s string) string {
	if len(s) > 160 {
		return s[:160] + "…"
	}
	return s
}
