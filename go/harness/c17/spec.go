//go:build verif

package main

// The catalogue of derivable key types: a dspec describes the parameters of a derived key in a
// form the harness can print, rebuild ("an ordinary key of that type made directly from the same
// bytes") and map back to the HKDF stream.

import (
	"fmt"

	"github.com/tink-crypto/tink-go/v2/aead/aesgcm"
	"github.com/tink-crypto/tink-go/v2/aead/xchacha20poly1305"
	"github.com/tink-crypto/tink-go/v2/daead/aessiv"
	"github.com/tink-crypto/tink-go/v2/insecuresecretdataaccess"
	"github.com/tink-crypto/tink-go/v2/internal/verifharness/hlib"
	"github.com/tink-crypto/tink-go/v2/key"
	"github.com/tink-crypto/tink-go/v2/mac/hmac"
	"github.com/tink-crypto/tink-go/v2/prf/hkdfprf"
	"github.com/tink-crypto/tink-go/v2/prf/hmacprf"
	"github.com/tink-crypto/tink-go/v2/signature/ed25519"
	"github.com/tink-crypto/tink-go/v2/streamingaead/aesgcmhkdf"
)

var stok = insecuresecretdataaccess.Token{}

const (
	vT = iota // TINK
	vC        // CRUNCHY
	vL        // LEGACY
	vR        // NO_PREFIX / RAW
)

var vNames = []string{"TINK", "CRUNCHY", "LEGACY", "NO_PREFIX"}

var hashNames = []string{"SHA1", "SHA224", "SHA256", "SHA384", "SHA512"}
var hashLens = []int{20, 28, 32, 48, 64}

type dspec struct {
	kind    string // aesgcm xchacha aessiv hmac hkdfprf hmacprf ed25519 aesgcmhkdf
	variant int
	ksz     int
	iv, tag int    // aesgcm; tag also hmac
	hash    int    // index into hashNames (hmac, hkdfprf, hmacprf, aesgcmhkdf)
	salt    []byte // hkdfprf
	dsz     int    // aesgcmhkdf derived key size
	seg     int32  // aesgcmhkdf segment size
}

// family of the primitive the derived key serves.
func (s dspec) family() string {
	switch s.kind {
	case "aesgcm", "xchacha":
		return "aead"
	case "aessiv":
		return "daead"
	case "hmac":
		return "mac"
	case "hkdfprf", "hmacprf":
		return "prf"
	case "ed25519":
		return "sig"
	}
	return "saead"
}

// variants the key type has.
func variantsOf(kind string) []int {
	switch kind {
	case "aesgcm", "xchacha", "aessiv":
		return []int{vT, vC, vR}
	case "hmac", "ed25519":
		return []int{vT, vC, vL, vR}
	}
	return []int{vR}
}

// need is the number of HKDF stream bytes the type's derivation rule consumes.
func (s dspec) need() int {
	switch s.kind {
	case "xchacha", "ed25519":
		return 32
	}
	return s.ksz
}

// std: parameters every primitive constructor accepts (what key templates produce); for the rest
// the derived key only has to behave like a directly constructed key.
func (s dspec) std() bool {
	switch s.kind {
	case "aesgcm":
		return (s.ksz == 16 || s.ksz == 32) && s.iv == 12 && s.tag == 16
	case "aessiv":
		return s.ksz == 64
	case "hkdfprf":
		return (s.hash == 2 || s.hash == 4) && s.ksz >= 32
	case "aesgcmhkdf": // the streaming primitive takes input key material of an AES key size only
		return s.ksz == 16 || s.ksz == 32
	}
	return true
}

func (s dspec) label() string {
	switch s.kind {
	case "aesgcm":
		l := fmt.Sprintf("aesgcm%d", s.ksz*8)
		if s.iv != 12 || s.tag != 16 {
			l += "-other-iv-or-tag-size"
		}
		return l
	case "aessiv":
		return fmt.Sprintf("aessiv%d", s.ksz*8)
	case "hmac":
		return "hmac-" + hashNames[s.hash]
	case "hkdfprf":
		return "hkdfprf-" + hashNames[s.hash]
	case "hmacprf":
		return "hmacprf-" + hashNames[s.hash]
	case "aesgcmhkdf":
		return fmt.Sprintf("aesgcmhkdf%d-%s", s.dsz*8, hashNames[s.hash])
	}
	return s.kind
}

func (s dspec) params() (key.Parameters, error) {
	switch s.kind {
	case "aesgcm":
		v := []aesgcm.Variant{aesgcm.VariantTink, aesgcm.VariantCrunchy, aesgcm.VariantUnknown, aesgcm.VariantNoPrefix}[s.variant]
		p, err := aesgcm.NewParameters(aesgcm.ParametersOpts{KeySizeInBytes: s.ksz, IVSizeInBytes: s.iv, TagSizeInBytes: s.tag, Variant: v})
		if err != nil {
			return nil, err
		}
		return p, nil
	case "xchacha":
		v := []xchacha20poly1305.Variant{xchacha20poly1305.VariantTink, xchacha20poly1305.VariantCrunchy, xchacha20poly1305.VariantUnknown, xchacha20poly1305.VariantNoPrefix}[s.variant]
		p, err := xchacha20poly1305.NewParameters(v)
		if err != nil {
			return nil, err
		}
		return p, nil
	case "aessiv":
		v := []aessiv.Variant{aessiv.VariantTink, aessiv.VariantCrunchy, aessiv.VariantUnknown, aessiv.VariantNoPrefix}[s.variant]
		p, err := aessiv.NewParameters(s.ksz, v)
		if err != nil {
			return nil, err
		}
		return p, nil
	case "hmac":
		v := []hmac.Variant{hmac.VariantTink, hmac.VariantCrunchy, hmac.VariantLegacy, hmac.VariantNoPrefix}[s.variant]
		p, err := hmac.NewParameters(hmac.ParametersOpts{KeySizeInBytes: s.ksz, TagSizeInBytes: s.tag, HashType: hmac.HashType(s.hash + 1), Variant: v})
		if err != nil {
			return nil, err
		}
		return p, nil
	case "hkdfprf":
		p, err := hkdfprf.NewParameters(s.ksz, hkdfprf.HashType(s.hash+1), s.salt)
		if err != nil {
			return nil, err
		}
		return p, nil
	case "hmacprf":
		p, err := hmacprf.NewParameters(s.ksz, hmacprf.HashType(s.hash+1))
		if err != nil {
			return nil, err
		}
		return p, nil
	case "ed25519":
		v := []ed25519.Variant{ed25519.VariantTink, ed25519.VariantCrunchy, ed25519.VariantLegacy, ed25519.VariantNoPrefix}[s.variant]
		p, err := ed25519.NewParameters(v)
		if err != nil {
			return nil, err
		}
		return &p, nil
	case "aesgcmhkdf":
		var h aesgcmhkdf.HashType
		switch s.hash {
		case 0:
			h = aesgcmhkdf.SHA1
		case 2:
			h = aesgcmhkdf.SHA256
		case 4:
			h = aesgcmhkdf.SHA512
		}
		p, err := aesgcmhkdf.NewParameters(aesgcmhkdf.ParametersOpts{KeySizeInBytes: s.ksz, DerivedKeySizeInBytes: s.dsz, HKDFHashType: h, SegmentSizeInBytes: s.seg})
		if err != nil {
			return nil, err
		}
		return p, nil
	}
	return nil, fmt.Errorf("unknown kind %q", s.kind)
}

// specOf reads a dspec back from a parameters object (ok=false: not a derivable key type).
func specOf(p key.Parameters) (dspec, bool) {
	switch q := p.(type) {
	case *aesgcm.Parameters:
		v := map[aesgcm.Variant]int{aesgcm.VariantTink: vT, aesgcm.VariantCrunchy: vC, aesgcm.VariantNoPrefix: vR}[q.Variant()]
		return dspec{kind: "aesgcm", variant: v, ksz: q.KeySizeInBytes(), iv: q.IVSizeInBytes(), tag: q.TagSizeInBytes()}, true
	case *xchacha20poly1305.Parameters:
		v := map[xchacha20poly1305.Variant]int{xchacha20poly1305.VariantTink: vT, xchacha20poly1305.VariantCrunchy: vC, xchacha20poly1305.VariantNoPrefix: vR}[q.Variant()]
		return dspec{kind: "xchacha", variant: v, ksz: 32}, true
	case *aessiv.Parameters:
		v := map[aessiv.Variant]int{aessiv.VariantTink: vT, aessiv.VariantCrunchy: vC, aessiv.VariantNoPrefix: vR}[q.Variant()]
		return dspec{kind: "aessiv", variant: v, ksz: q.KeySizeInBytes()}, true
	case *hmac.Parameters:
		v := map[hmac.Variant]int{hmac.VariantTink: vT, hmac.VariantCrunchy: vC, hmac.VariantLegacy: vL, hmac.VariantNoPrefix: vR}[q.Variant()]
		return dspec{kind: "hmac", variant: v, ksz: q.KeySizeInBytes(), tag: q.CryptographicTagSizeInBytes(), hash: int(q.HashType()) - 1}, true
	case *hkdfprf.Parameters:
		return dspec{kind: "hkdfprf", variant: vR, ksz: q.KeySizeInBytes(), hash: int(q.HashType()) - 1, salt: q.Salt()}, true
	case *hmacprf.Parameters:
		return dspec{kind: "hmacprf", variant: vR, ksz: q.KeySizeInBytes(), hash: int(q.HashType()) - 1}, true
	case *ed25519.Parameters:
		v := map[ed25519.Variant]int{ed25519.VariantTink: vT, ed25519.VariantCrunchy: vC, ed25519.VariantLegacy: vL, ed25519.VariantNoPrefix: vR}[q.Variant()]
		return dspec{kind: "ed25519", variant: v, ksz: 32}, true
	case *aesgcmhkdf.Parameters:
		h := map[aesgcmhkdf.HashType]int{aesgcmhkdf.SHA1: 0, aesgcmhkdf.SHA256: 2, aesgcmhkdf.SHA512: 4}[q.HKDFHashType()]
		return dspec{kind: "aesgcmhkdf", variant: vR, ksz: q.KeySizeInBytes(), dsz: q.DerivedKeySizeInBytes(), hash: h, seg: q.SegmentSizeInBytes()}, true
	}
	return dspec{}, false
}

// build makes an ordinary key of the type directly from key bytes (id is ignored by the types and
// variants that have no id requirement).
func (s dspec) build(id uint32, kb []byte) (key.Key, error) {
	p, err := s.params()
	if err != nil {
		return nil, err
	}
	if s.variant == vR {
		id = 0
	}
	sec := hlib.Secret(kb)
	switch q := p.(type) {
	case *aesgcm.Parameters:
		return aesgcm.NewKey(sec, id, q)
	case *xchacha20poly1305.Parameters:
		return xchacha20poly1305.NewKey(sec, id, q)
	case *aessiv.Parameters:
		return aessiv.NewKey(sec, id, q)
	case *hmac.Parameters:
		return hmac.NewKey(sec, q, id)
	case *hkdfprf.Parameters:
		return hkdfprf.NewKey(sec, q)
	case *hmacprf.Parameters:
		return hmacprf.NewKey(sec, q)
	case *ed25519.Parameters:
		return ed25519.NewPrivateKey(sec, id, *q)
	case *aesgcmhkdf.Parameters:
		return aesgcmhkdf.NewKey(q, sec)
	}
	return nil, fmt.Errorf("unknown parameters %T", p)
}

// keyBytesOf maps a derived key back to the bytes its derivation rule took from the stream.
func keyBytesOf(k key.Key) ([]byte, bool) {
	switch q := k.(type) {
	case *aesgcm.Key:
		return q.KeyBytes().Data(stok), true
	case *xchacha20poly1305.Key:
		return q.KeyBytes().Data(stok), true
	case *aessiv.Key:
		return q.KeyBytes().Data(stok), true
	case *hmac.Key:
		return q.KeyBytes().Data(stok), true
	case *hkdfprf.Key:
		return q.KeyBytes().Data(stok), true
	case *hmacprf.Key:
		return q.KeyBytes().Data(stok), true
	case *ed25519.PrivateKey:
		return q.PrivateKeyBytes().Data(stok), true // the 32-byte seed
	case *aesgcmhkdf.Key:
		return q.KeyBytes().Data(stok), true
	}
	return nil, false
}

// outputPrefixOf returns the key's OutputPrefix() when the type has one.
func outputPrefixOf(k key.Key) ([]byte, bool) {
	if v, ok := k.(interface{ OutputPrefix() []byte }); ok {
		return v.OutputPrefix(), true
	}
	return nil, false
}

func wantPrefix(variant int, id uint32) []byte {
	b := []byte{0, byte(id >> 24), byte(id >> 16), byte(id >> 8), byte(id)}
	switch variant {
	case vT:
		b[0] = 1
		return b
	case vC, vL:
		return b
	}
	return []byte{}
}

// randSpec draws the parameters of a derived key.
func randSpec(rng *hlib.Rng) dspec {
	var s dspec
	switch rng.Intn(11) {
	case 0, 1:
		s = dspec{kind: "aesgcm", ksz: rng.Pick(16, 32), iv: 12, tag: 16}
		if rng.Chance(12) { // parameters the AEAD primitive refuses: still derivable
			s.ksz = rng.Pick(16, 24, 32)
			s.iv = rng.Pick(12, 16, 8)
			s.tag = rng.Pick(12, 14, 16)
		}
	case 2:
		s = dspec{kind: "xchacha", ksz: 32}
	case 3:
		s = dspec{kind: "aessiv", ksz: 64}
		if rng.Chance(15) {
			s.ksz = rng.Pick(32, 48)
		}
	case 4, 5:
		h := rng.Intn(5)
		s = dspec{kind: "hmac", hash: h, ksz: rng.Pick(16, 20, 32, 32, 48, 64, 65, 128, 16+rng.Intn(185)), tag: rng.Pick(10, 16, hashLens[h], 10+rng.Intn(hashLens[h]-9))}
	case 6:
		s = dspec{kind: "hkdfprf", hash: rng.Pick(2, 4), ksz: rng.Pick(32, 48, 64, 32+rng.Intn(69)), salt: rng.Bytes(rng.Pick(0, 0, 8, 32, rng.Intn(80)))}
		if len(s.salt) == 0 {
			s.salt = nil
		}
		if rng.Chance(15) { // not usable as a PRF primitive, still a derivable key
			s.hash = rng.Pick(0, 1, 3)
			s.ksz = rng.Pick(16, 24, 32)
		}
	case 7:
		s = dspec{kind: "hmacprf", hash: rng.Intn(5), ksz: rng.Pick(16, 32, 64, 100, 16+rng.Intn(120))}
	case 8, 9:
		s = dspec{kind: "ed25519", ksz: 32}
	default:
		s = dspec{kind: "aesgcmhkdf", dsz: rng.Pick(16, 32), hash: rng.Pick(0, 2, 2, 4), seg: int32(rng.Pick(4096, 4096, 256, 1<<20, 64+rng.Intn(2000)))}
		s.ksz = rng.Pick(s.dsz, s.dsz, 32, 32, 48, s.dsz+rng.Intn(40))
	}
	vs := variantsOf(s.kind)
	s.variant = vs[rng.Intn(len(vs))]
	return s
}
