//go:build verif

// gluetr: re-emits Lean definitions over `List UInt8` from tink-go's current source for a restricted
// BYTE fragment: small glue functions (output prefixes, nonces, length blocks, masks, label strings) and — since
// round 3b — WHOLE functions of the byte-level / arithmetical core (CMAC, CTR and EtM framing, AES-SIV, AES-KWP, the
// streaming segment state machines, the record/replay reader, keyset validation, randomness draws).
// It is the byte-level sibling of go/harness/translator (integers only) and, like it, refuses what
// it does not know instead of guessing.  Run with cwd=/repo:
//
//   gluetr -ns TinkVerif.Gen.GlueX -out F.lean
//          -pkg internal/outputprefix -sub Outputprefix [-recv T] [-consts a,b] [-vars v] [-funcs f,g]
//              [-opaque fn:callee=name] [-region name=fn|startRe|endRe|out1,out2] ...
//          -pkg ... (next unit; may call functions of earlier units)
//
// Fragment (everything else is a TRANSLATOR-ERROR):
//   values     byte → UInt8, other unsigned ints → Nat (explicit `% 2^w`), signed ints → Int (explicit
//              two's-complement wrap GoSem.i64/i32), bool → Bool, []byte / [n]byte / string → Bytes
//   allocation make([]byte, n[, c]), var b [n]byte, []byte{consts}, []byte("…"), string(b)
//   stores     b[i] = e, b[i] op= e, copy(dst, src) (also `n := copy(…)`), binary.{Big,Little}Endian.PutUint16/32/64(dst, v),
//              subtle.XORBytes(dst, x, y)  with dst = v | v[:] | v[lo:] | v[:hi] | v[lo:hi] over a variable or field path v
//   reads      b[i], b[lo:hi], len, min, max, binary.*.Uint16/32/64, append(a, b...), append(a, x, y),
//              slices.Concat, binary.*.AppendUint16/32/64, bytes.Clone, slices.Clone, bytes.Equal, slices.Equal,
//              subtle.ConstantTimeCompare / Select / Eq / LessOrEq
//   control    if (also `if init; cond`; fall-through branches are joined variable by variable unless one can leave the
//              function, then the rest is translated per branch), `if cond { return …, err }` guards (→ Option),
//              switch on an integer tag with returning clauses,
//              `x, err := f(…); if err != nil { return …, err }` (→ Option.bind; `panic(err)` → poison),
//              `for i := 0; i < N; i++` with a plain body (→ GoSem.forRange); every other loop — other bounds, downward,
//              `for cond`, `for {}`, `for i, x := range list`, bodies with return / break / continue — via GoSem.Step
//              (loops.go; while loops get the parameter `fuel`)
//   struct reads  p.f.g on a parameter / receiver become parameters `p_f_g` of the Lean definition
//   locals of struct type (x := &T{…}): their fields of a supported type are locations x.f; a struct value is the tuple of them
//   slice variables that share memory and are written through (iv := dst[:n]; it = it[8:]) are VIEWS (views.go)
//   calls      earlier functions / methods of the unit (implicit parameters are passed on by name), procedures (value = the
//              written slice parameter; Option of it when the Go function returns only an error)
//   abstraction of what is not tink-go's own code (each is a parameter of the Lean definition and a hypothesis of the ties):
//     -opaque fn:callee=name          pure function (value[, error] → Option); variadic callees by call arity
//     -block  fn:callee=E             cipher.Block.Encrypt/Decrypt(dst, src): one 16-byte block (GoSem.blockInto)
//     -apply  fn:callee=F             length-preserving keyed store, cipher.Stream.XORKeyStream(dst, src) (GoSem.applyInto)
//     -fill   fn:callee=rand          rand.Read(dst) / random.MustRand(dst): ONE draw per function (else refused)
//     -inout  fn:callee=F             x, err := callee(dst, args…) writing and returning the window dst
//     -abstract fn:callee             constructor of an object without a value (aes.NewCipher), assumed to succeed
//     -ctor fn:callee=i, -repr T=Bytes  an abstract object represented by the argument it was built from (a cipher.Stream by its IV)
//   -stateful fn  (stateful.go) methods that assign receiver fields / use external objects (-extern fn:callee=name@path:read|write|value):
//              value = (fields', external states', written parameters', results…) at every return; errors are Nat codes (-errcodes)
//   -record pkg.Type=paths (records.go) proto structs as Lean structures of the fields read (getters = fields), []*T = List T,
//              map[K]bool used as a set = List K, slices.ContainsFunc = List.any
//   regions    a contiguous run of statements of a function (anywhere, also inside a loop body or a
//              closure), selected by two regular expressions that must each match exactly one statement;
//              variables that flow in become parameters, the named variables flow out.  PREFER whole functions: a statement
//              inserted outside the markers is invisible to a region.
// Canonical output (round 3c): the generated text does not depend on the names of Go locals, parameters or receivers (SSA
// definitions are `f.v<k>` in translation order, parameters `a<i>`, receiver fields `r_<field>`, loop / lambda binders `i<k>`,
// `x<k>`, `b<k>`; a comment block per function maps them to the Go names and lines), on comments, on error texts (an error is
// only "an error"), on the order of adjacent independent pure initialisations (sorted by kind and text), on the spelling of
// some equivalent forms (`for i := range n` / range over a byte slice = the index loop, `var z [n]byte` = make, append to an
// empty buffer / Clone = the operand, tagless switch = if-chain).  Flags may name callees independently of local names
// (`r.bc.Encrypt`, `a2.id`, `(crypto/cipher.Block).Encrypt`, `crypto/aes.NewCipher`).  Same-package helpers that a translated
// function calls are translated on demand with the caller's flags (a refactoring that extracts a helper then reaches the tie
// theorems instead of failing here).  tools/migrate_names.py is the one-off script that moved the proofs to the canonical names.
// Decision / glue logic (round 4): beyond byte-level code the fragment covers candidate loops and option handling with the
// data they run over kept ABSTRACT:
//   -ignore c1,c2,…   (unit level) calls of these callees in statement position are dropped — monitoring loggers; they have
//                     no influence on results; also inside `if err != nil { log; return …, err }` guards.
//   -step fn:callee=name   a value-returning method that also advances its abstract receiver (`v, ok := it.Next()`,
//                     `_, err := km.AddKeyWithOpts(k, tok, opts…)`): name : Obj → args… → results… × Obj; arguments of an
//                     empty struct type (tokens) are dropped, a variadic tail is a list, an error result is the Bool
//                     "is an error".  An abstract object behind a pointer that is handed to a translated callee which steps it
//                     must not be read again before it is re-assigned (refused otherwise).
//   -abs also names unnamed map / function types by their printed form ('map[string]*pkg.T=Fields', 'func() hash.Hash=HashFn');
//                     pointers to and instantiations of an abstract named type are that abstract type; the type parameters of a
//                     generic receiver are abstract types P with a zero value P_zero (`*new(P)`).
//   abstract objects: `x == nil` is the abstract predicate <Type>_isNil; `_, ok := m[k]` on an abstract map is <Type>_has;
//                     a field of an abstract LOCAL object (loop variable, call result) is the abstract projection <Type>_<field>;
//                     a field of an abstract parameter is a further (independent) abstract parameter; &obj is obj.
//   kinds:            `[]T` for T a record / abstract type / string / []byte is `List`; `map[string][]T` is a function
//                     Bytes → List T (store = function update); `*string`, `*uint32`, … are `Option` (nil test, `*p`, `&v` of a
//                     never-assigned variable); strings / byte arrays compare with == / !=; a struct field of error type is the
//                     Bool "is non-nil" (returning it inside `if f.err != nil {…}` is the error case).
//   control:          `if err != nil { continue / break }` after a call inside a loop; `for init; cond; post` with `continue`
//                     (the post statement runs on continue); `err := f()` kept as a Bool when only compared with nil;
//                     `v1, …, vn, err := f()`; `return g()` forwarding a tuple; `if c { v, err = f() } else { v, err = g() }`
//                     followed by the error guard; `new(T)` / `&T{…}` of a record type; a result declared `any` that always
//                     is a value of one static type is typed by it; methods of another receiver type of the same package
//                     (translated by an earlier unit) called through a field path re-root their receiver paths.
// Never silent: an unknown construct, a missing function / marker, a receiver field assigned outside -stateful, a written
// slice parameter that no return hands back, several random draws under -fill … are errors (non-zero exit; check reports the
// owner properties' tie as broken).
// Assumptions written into the generated header: distinct slice parameters do not overlap; opaque
// callees are pure; re-slicing beyond len (within cap) is treated as out of range; distinct field paths are distinct memory.
// Out-of-range stores / slices (Go: panic) yield the poison value `[]`, so a theorem that pins the
// result to a non-empty model value also shows that no such panic happens on the stated domain.
package main

import (
	"bytes"
	"fmt"
	"go/ast"
	"go/constant"
	"go/importer"
	"go/parser"
	"go/printer"
	"go/token"
	"go/types"
	"os"
	"path/filepath"
	"regexp"
	"sort"
	"strings"
)

const modulePath = "github.com/tink-crypto/tink-go/v2/"

type opq struct{ callee, name string }

type regionSpec struct {
	name, fn, startRe, endRe string
	outs                     []string
}

type unit struct {
	dir, sub, recv string
	consts, vars   []string
	funcs          []string
	opaque         map[string][]opq // function -> opaque callees
	block          map[string][]opq // function -> block-cipher calls `callee(dst, src)` (cipher.Block Encrypt/Decrypt)
	abstract       map[string][]string // function -> constructors of abstract objects (cipher.Block …), assumed to succeed
	apply          map[string][]opq // function -> length-preserving keyed store calls `callee(dst, src)` (cipher.Stream.XORKeyStream)
	fill           map[string][]opq // function -> calls `callee(dst)` that overwrite dst with fresh bytes
	inout          map[string][]opq // function -> calls `x, err := callee(dst, args…)` that write the window dst and return it
	ctor           map[string][]opq // function -> constructor calls whose value is represented by one argument (name = its index)
	stateful       map[string]bool  // functions translated in stateful mode (stateful.go)
	extern         map[string][]externOp
	externKind     map[string]string // callee -> "read" | "write"
	errcodes       map[string]int    // sentinel errors (printed form, e.g. io.EOF or ErrTooManySegments) -> code ≥ 2
	closures       map[string]string   // -closure newName=fn: the single function literal in the body of fn, translated as the function newName
	read           map[string][]opq    // -read fn:callee=name: `_, err := io.ReadFull(r, buf); if err != nil {…}`: name : R → Int → Option Bytes
	ignore         []string            // -ignore: callees whose calls (statements) have no influence on results (monitoring)
	step           map[string][]opq    // -step fn:callee=name: value-returning method that also changes its abstract receiver
	abs            map[string]string   // -abs pkgpath.Type -> Lean type variable
	mutate         map[string][]opq    // function -> calls X.m(args) that update the abstract object X
	records        map[string][]string // -record pkg.Type -> field paths
	repr           map[string]kind  // named types (pkgpath.Name) represented by a value of the given kind
	regions        []regionSpec
	procs          map[string]int // emitted procedures with exactly one written slice parameter: name -> its index
	inProgress     map[string]bool
	failedHelper   map[string]bool
	sigs           map[string]*fsig // every emitted function: its Lean binders (callable from later functions of the unit)

	pkg   *types.Package
	info  *types.Info
	files []*ast.File
	decls map[string]*ast.FuncDecl
	emitted map[string]bool // function names already emitted (callable)
}

type tr struct {
	fset  *token.FileSet
	ns    string
	units []*unit
	u     *unit
	errs  []string
	f     *fctx
	postOf  map[*ast.ForStmt]ast.Stmt // post statements of general for loops rewritten as while loops
	pending []string    // definitions of helpers translated on demand, emitted before the function that needed them
	nameMap [][2]string // legacy (Go-named) definition name -> canonical name, written with -namemap
}

func (t *tr) fail(n ast.Node, format string, a ...any) string {
	pos := ""
	if n != nil {
		pos = t.fset.Position(n.Pos()).String() + ": "
	}
	t.errs = append(t.errs, pos+fmt.Sprintf(format, a...))
	return "(UNSUPPORTED)"
}

func (t *tr) src(n ast.Node) string {
	var b bytes.Buffer
	printer.Fprint(&b, t.fset, n)
	return b.String()
}

var reserved = map[string]bool{}

func init() {
	for _, w := range strings.Fields("at from end open then do fun let have show by if else in prefix infix infixl infixr postfix " +
		"notation instance structure class theorem def example where with match suffices calc deriving extends import export " +
		"attribute macro syntax elab unsafe partial noncomputable abbrev inductive axiom opaque nomatch nofun return for unless " +
		"try catch finally break continue mut using namespace section variable universe local private protected mutual " +
		"Type Prop Sort fun forall exists true false") {
		reserved[w] = true
	}
}

// patternsOf: all callee patterns the flags give for a function
func (u *unit) patternsOf(fn string) []string {
	var r []string
	for _, l := range [][]opq{u.opaque[fn], u.block[fn], u.apply[fn], u.fill[fn], u.ctor[fn], u.inout[fn], u.mutate[fn], u.step[fn], u.read[fn]} {
		for _, o := range l {
			r = append(r, o.callee)
		}
	}
	r = append(r, u.abstract[fn]...)
	r = append(r, u.ignore...)
	for _, e := range u.extern[fn] {
		r = append(r, e.callee)
	}
	return r
}

func (u *unit) absNames() []string {
	var r []string
	for _, n := range u.abs {
		dup := false
		for _, x := range r {
			if x == n {
				dup = true
			}
		}
		if !dup {
			r = append(r, n)
		}
	}
	sort.Strings(r)
	return r
}

func leanName(s string) string {
	if reserved[s] {
		return s + "'"
	}
	return s
}

func splitList(s string) []string {
	var r []string
	for _, x := range strings.Split(s, ",") {
		if x = strings.TrimSpace(x); x != "" {
			r = append(r, x)
		}
	}
	return r
}

func die(f string, a ...any) {
	fmt.Printf("TRANSLATOR-ERROR: "+f+"\n", a...)
	os.Exit(2)
}

func main() {
	args := os.Args[1:]
	t := &tr{fset: token.NewFileSet(), postOf: map[*ast.ForStmt]ast.Stmt{}}
	out, mapOut := "", ""
	var cur *unit
	need := func(i int) string {
		if i+1 >= len(args) {
			die("flag %s needs a value", args[i])
		}
		return args[i+1]
	}
	for i := 0; i < len(args); i += 2 {
		v := need(i)
		if args[i] != "-ns" && args[i] != "-out" && args[i] != "-pkg" && args[i] != "-namemap" && cur == nil {
			die("flag %s before the first -pkg", args[i])
		}
		switch args[i] {
		case "-namemap": // one-off: write `legacy-name canonical-name` lines for the migration of the proofs
			mapOut = v
			t.nameMap = [][2]string{}
		case "-ns":
			t.ns = v
		case "-out":
			out = v
		case "-pkg":
			cur = &unit{dir: v, opaque: map[string][]opq{}, block: map[string][]opq{}, abstract: map[string][]string{},
				apply: map[string][]opq{}, fill: map[string][]opq{}, ctor: map[string][]opq{}, repr: map[string]kind{}, inout: map[string][]opq{},
				emitted: map[string]bool{}, procs: map[string]int{}, sigs: map[string]*fsig{}, inProgress: map[string]bool{}, failedHelper: map[string]bool{},
				step: map[string][]opq{}, closures: map[string]string{}, read: map[string][]opq{}, abs: map[string]string{}, mutate: map[string][]opq{}, records: map[string][]string{}, stateful: map[string]bool{}, extern: map[string][]externOp{}, externKind: map[string]string{}, errcodes: map[string]int{}}
			cur.sub = strings.Title(filepath.Base(v))
			t.units = append(t.units, cur)
		case "-sub":
			cur.sub = v
		case "-recv":
			cur.recv = v
		case "-consts":
			cur.consts = append(cur.consts, splitList(v)...)
		case "-vars":
			cur.vars = append(cur.vars, splitList(v)...)
		case "-funcs":
			cur.funcs = append(cur.funcs, splitList(v)...)
		case "-opaque": // fn:callee=name
			fn, rest, ok := strings.Cut(v, ":")
			callee, name, ok2 := strings.Cut(rest, "=")
			if !ok || !ok2 {
				die("bad -opaque %q", v)
			}
			cur.opaque[fn] = append(cur.opaque[fn], opq{callee, name})
		case "-block": // fn:callee=name   (callee(dst, src) is a 16-byte block-cipher call; name : Bytes → Bytes)
			fn, rest, ok := strings.Cut(v, ":")
			callee, name, ok2 := strings.Cut(rest, "=")
			if !ok || !ok2 {
				die("bad -block %q", v)
			}
			cur.block[fn] = append(cur.block[fn], opq{callee, name})
		case "-apply", "-fill", "-ctor", "-inout": // fn:callee=name
			fn, rest, ok := strings.Cut(v, ":")
			callee, name, ok2 := strings.Cut(rest, "=")
			if !ok || !ok2 {
				die("bad %s %q", args[i], v)
			}
			m := map[string]map[string][]opq{"-apply": cur.apply, "-fill": cur.fill, "-ctor": cur.ctor, "-inout": cur.inout}[args[i]]
			m[fn] = append(m[fn], opq{callee, name})
		case "-repr": // pkgpath.Type=Bytes|Nat|Int
			ty, kn, ok := strings.Cut(v, "=")
			kk, ok2 := map[string]kind{"Bytes": kBytes, "Nat": kNat, "Int": kInt}[kn]
			if !ok || !ok2 {
				die("bad -repr %q", v)
			}
			cur.repr[ty] = kk
		case "-closure": // newName=fn
			nn, fn, ok := strings.Cut(v, "=")
			if !ok {
				die("bad -closure %q", v)
			}
			cur.closures[nn] = fn
		case "-read": // fn:callee=name
			fn, rest, ok := strings.Cut(v, ":")
			callee, name, ok2 := strings.Cut(rest, "=")
			if !ok || !ok2 {
				die("bad -read %q", v)
			}
			cur.read[fn] = append(cur.read[fn], opq{callee, name})
		case "-ignore": // callee,callee…  (unit level)
			cur.ignore = append(cur.ignore, splitList(v)...)
		case "-step": // fn:callee=name
			fn, rest, ok := strings.Cut(v, ":")
			callee, name, ok2 := strings.Cut(rest, "=")
			if !ok || !ok2 {
				die("bad -step %q", v)
			}
			cur.step[fn] = append(cur.step[fn], opq{callee, name})
		case "-abs": // pkgpath.Type=S_name
			ty, nm, ok := strings.Cut(v, "=")
			if !ok {
				die("bad -abs %q", v)
			}
			cur.abs[ty] = nm
		case "-mutate": // fn:callee=name
			fn, rest, ok := strings.Cut(v, ":")
			callee, name, ok2 := strings.Cut(rest, "=")
			if !ok || !ok2 {
				die("bad -mutate %q", v)
			}
			cur.mutate[fn] = append(cur.mutate[fn], opq{callee, name})
		case "-record": // pkgname.Type=path,path.sub,…
			ty, paths, ok := strings.Cut(v, "=")
			if !ok {
				die("bad -record %q", v)
			}
			cur.records[ty] = splitList(paths)
		case "-stateful": // fn[,fn…]
			for _, fn := range splitList(v) {
				cur.stateful[fn] = true
			}
		case "-extern": // fn:callee=name@path:read|write
			fn, rest, ok := strings.Cut(v, ":")
			callee, rest2, ok2 := strings.Cut(rest, "=")
			name, rest3, ok3 := strings.Cut(rest2, "@")
			path, kindS, ok4 := strings.Cut(rest3, ":")
			if !ok || !ok2 || !ok3 || !ok4 || (kindS != "read" && kindS != "write" && kindS != "value") {
				die("bad -extern %q", v)
			}
			cur.extern[fn] = append(cur.extern[fn], externOp{callee, name, path})
			cur.externKind[fn+":"+callee] = kindS
		case "-errcodes": // name=code,name=code
			for _, kv := range splitList(v) {
				nm, cs, ok := strings.Cut(kv, "=")
				code := 0
				fmt.Sscanf(cs, "%d", &code)
				if !ok || code < 2 {
					die("bad -errcodes %q (codes start at 2)", kv)
				}
				cur.errcodes[nm] = code
			}
		case "-abstract": // fn:callee   (x, err := callee(…) yields an abstract object; the error is assumed nil)
			fn, callee, ok := strings.Cut(v, ":")
			if !ok {
				die("bad -abstract %q", v)
			}
			cur.abstract[fn] = append(cur.abstract[fn], callee)
		case "-region": // name=fn|start|end|outs
			name, rest, ok := strings.Cut(v, "=")
			parts := strings.Split(rest, "|")
			if !ok || len(parts) != 4 {
				die("bad -region %q", v)
			}
			cur.regions = append(cur.regions, regionSpec{name, parts[0], parts[1], parts[2], splitList(parts[3])})
		default:
			die("unknown flag %s", args[i])
		}
	}
	if out == "" || t.ns == "" || len(t.units) == 0 {
		die("usage: gluetr -ns NS -out F.lean -pkg dir …")
	}
	imp := importer.ForCompiler(t.fset, "source", nil)
	var sb strings.Builder
	var dirs []string
	for _, u := range t.units {
		dirs = append(dirs, u.dir)
	}
	sb.WriteString("/- GENERATED by /verif/go/harness/gluetr from " + strings.Join(dirs, ", ") + " — do not edit; regenerated on every check run.\n" +
		"   Assumptions of the translation: distinct slice parameters do not overlap; callees declared opaque are pure;\n" +
		"   re-slicing beyond len is out of range; out-of-range stores/slices (Go: panic) give the poison value []. -/\n")
	sb.WriteString("import TinkVerif.Base.GoSemBytes\nset_option linter.unusedVariables false\nnamespace " + t.ns + "\nopen TinkVerif\n\n")
	var body strings.Builder
	recordSpecs = map[string][]string{}
	for _, u := range t.units {
		t.u = u
		reprKinds = u.repr
		absTypes = u.abs
		for k, v := range u.records {
			recordSpecs[k] = v
		}
		t.load(u, imp)
		body.WriteString("namespace " + u.sub + "\n\n")
		t.emitUnit(u, &body)
		body.WriteString("end " + u.sub + "\n\n")
	}
	t.emitRecords(&sb) // the structures of the records the units use (none for most files)
	sb.WriteString(body.String())
	sb.WriteString("end " + t.ns + "\n")
	if len(t.errs) > 0 {
		for _, e := range t.errs {
			fmt.Println("TRANSLATOR-ERROR:", e)
		}
		os.Exit(1)
	}
	if err := os.WriteFile(out, []byte(sb.String()), 0o644); err != nil {
		die("%v", err)
	}
	if mapOut != "" {
		var mb strings.Builder
		for _, m := range t.nameMap {
			mb.WriteString(m[0] + " " + m[1] + "\n")
		}
		os.WriteFile(mapOut, []byte(mb.String()), 0o644)
	}
	fmt.Println("gluetr: translated", len(t.units), "units to", out)
}

func (t *tr) load(u *unit, imp types.Importer) {
	entries, err := os.ReadDir(u.dir)
	if err != nil {
		die("%v", err)
	}
	for _, e := range entries {
		n := e.Name()
		if !strings.HasSuffix(n, ".go") || strings.HasSuffix(n, "_test.go") || strings.HasSuffix(n, "_verif.go") {
			continue
		}
		f, err := parser.ParseFile(t.fset, filepath.Join(u.dir, n), nil, parser.SkipObjectResolution)
		if err != nil {
			die("%v", err)
		}
		u.files = append(u.files, f)
	}
	u.info = &types.Info{Types: map[ast.Expr]types.TypeAndValue{}, Uses: map[*ast.Ident]types.Object{}, Defs: map[*ast.Ident]types.Object{},
		Selections: map[*ast.SelectorExpr]*types.Selection{}}
	nerr := 0
	conf := types.Config{Importer: imp, Error: func(err error) {
		if nerr < 3 {
			t.errs = append(t.errs, "type check of "+u.dir+": "+err.Error())
		}
		nerr++
	}}
	u.pkg, _ = conf.Check(modulePath+u.dir, t.fset, u.files, u.info)
	u.decls = map[string]*ast.FuncDecl{}
	for _, f := range u.files {
		for _, d := range f.Decls {
			fd, ok := d.(*ast.FuncDecl)
			if !ok || fd.Body == nil {
				continue
			}
			if fd.Recv != nil {
				rt := fd.Recv.List[0].Type
				if st, ok := rt.(*ast.StarExpr); ok {
					rt = st.X
				}
				if ix, isIx := rt.(*ast.IndexExpr); isIx {
					rt = ix.X // a generic receiver T[P]
				}
				if ix, isIx := rt.(*ast.IndexListExpr); isIx {
					rt = ix.X
				}
				id, ok := rt.(*ast.Ident)
				if !ok || (u.recv != "" && id.Name != u.recv) {
					continue
				}
				if u.recv == "" {
					// methods are addressed as they are named; a plain function of the same name wins
					if _, dup := u.decls[fd.Name.Name]; dup {
						continue
					}
				}
			}
			u.decls[fd.Name.Name] = fd
		}
	}
	// -closure: the single function literal of a registration function becomes a function of its own
	for nn, fn := range u.closures {
		host, ok := u.decls[fn]
		if !ok {
			t.errs = append(t.errs, "-closure: function "+fn+" not found in "+u.dir)
			continue
		}
		var lits []*ast.FuncLit
		ast.Inspect(host.Body, func(nd ast.Node) bool {
			if fl, ok := nd.(*ast.FuncLit); ok {
				lits = append(lits, fl)
				return false
			}
			return true
		})
		if len(lits) != 1 {
			t.errs = append(t.errs, fmt.Sprintf("-closure: %s contains %d function literals (want exactly 1)", fn, len(lits)))
			continue
		}
		sig, _ := u.info.TypeOf(lits[0]).(*types.Signature)
		if sig == nil || u.pkg == nil {
			t.errs = append(t.errs, "-closure: no type for the function literal of "+fn)
			continue
		}
		name := &ast.Ident{NamePos: lits[0].Pos(), Name: nn}
		u.info.Defs[name] = types.NewFunc(lits[0].Pos(), u.pkg, nn, sig)
		u.decls[nn] = &ast.FuncDecl{Name: name, Type: lits[0].Type, Body: lits[0].Body}
	}
}

// pkgVarWritten reports whether a package-level variable is assigned or stored into anywhere in the package.
func (t *tr) pkgVarWritten(u *unit, obj types.Object) bool {
	written := false
	root := func(e ast.Expr) *ast.Ident {
		for {
			switch x := e.(type) {
			case *ast.Ident:
				return x
			case *ast.IndexExpr:
				e = x.X
			case *ast.SliceExpr:
				e = x.X
			case *ast.ParenExpr:
				e = x.X
			default:
				return nil
			}
		}
	}
	for _, f := range u.files {
		ast.Inspect(f, func(n ast.Node) bool {
			switch x := n.(type) {
			case *ast.AssignStmt:
				for _, l := range x.Lhs {
					if id := root(l); id != nil && u.info.Uses[id] == obj {
						written = true
					}
				}
			case *ast.IncDecStmt:
				if id := root(x.X); id != nil && u.info.Uses[id] == obj {
					written = true
				}
			case *ast.CallExpr:
				// copy(v…, …), PutUintN(v…, …), XORBytes(v…, …): first argument is a destination
				name := t.src(x.Fun)
				if name == "copy" || strings.Contains(name, ".PutUint") || strings.HasSuffix(name, ".XORBytes") {
					if len(x.Args) > 0 {
						if id := root(x.Args[0]); id != nil && u.info.Uses[id] == obj {
							written = true
						}
					}
				}
			case *ast.UnaryExpr:
				if x.Op == token.AND {
					if id := root(x.X); id != nil && u.info.Uses[id] == obj {
						written = true
					}
				}
			}
			return true
		})
	}
	return written
}

func (t *tr) emitUnit(u *unit, sb *strings.Builder) {
	cs := append([]string{}, u.consts...)
	sort.Strings(cs)
	for _, cname := range cs {
		var obj types.Object
		if alias, nm, ok := strings.Cut(cname, "."); ok {
			// constant of an imported package, addressed through the import name used in this package
			for id, o := range u.info.Uses {
				if pn, ok := o.(*types.PkgName); ok && id.Name == alias {
					obj = pn.Imported().Scope().Lookup(nm)
					break
				}
			}
			cname = nm
		} else {
			obj = u.pkg.Scope().Lookup(cname)
		}
		c, ok := obj.(*types.Const)
		if !ok {
			t.errs = append(t.errs, "constant "+cname+" not found in "+u.dir)
			continue
		}
		k, _ := classify(c.Type())
		lit, ok := constString(c.Val(), k)
		if !ok {
			t.errs = append(t.errs, "constant "+cname+": unsupported type "+c.Type().String())
			continue
		}
		sb.WriteString(fmt.Sprintf("def %s : %s := %s\n", leanName(cname), leanTypeOfKind(k), lit))
	}
	if len(cs) > 0 {
		sb.WriteString("\n")
	}
	for _, vname := range u.vars {
		obj := u.pkg.Scope().Lookup(vname)
		v, ok := obj.(*types.Var)
		if !ok {
			if c, isConst := obj.(*types.Const); isConst {
				// the table became a constant: same definition
				k, _ := classify(c.Type())
				if lit, ok := constString(c.Val(), k); ok {
					sb.WriteString(fmt.Sprintf("def %s : %s := %s\n\n", leanName(vname), leanTypeOfKind(k), lit))
					continue
				}
			}
			// gone: nothing to define; code that still mentions it fails to translate, proofs that mention it fail to check
			sb.WriteString("/- package variable " + vname + " does not exist in " + u.dir + " -/\n\n")
			continue
		}
		if t.pkgVarWritten(u, v) {
			t.errs = append(t.errs, "package variable "+vname+" is written somewhere in "+u.dir+": not a constant table")
			continue
		}
		found := false
		for _, f := range u.files {
			for _, d := range f.Decls {
				gd, ok := d.(*ast.GenDecl)
				if !ok || gd.Tok != token.VAR {
					continue
				}
				for _, sp := range gd.Specs {
					vs := sp.(*ast.ValueSpec)
					for i, n := range vs.Names {
						if n.Name == vname && len(vs.Values) == 0 {
							// no initialiser: the zero value
							if arr, ok := v.Type().Underlying().(*types.Array); ok {
								if k, _ := classify(v.Type()); k == kBytes {
									sb.WriteString(fmt.Sprintf("def %s : Bytes := GoSem.makeBytes (%d : Int)\n\n", leanName(vname), arr.Len()))
									found = true
								}
							}
							continue
						}
						if n.Name != vname || i >= len(vs.Values) || len(vs.Names) != len(vs.Values) {
							continue
						}
						k, _ := classify(v.Type())
						t.f = newFctx(vname, nil)
						val := t.expr(vs.Values[i])
						sb.WriteString(fmt.Sprintf("def %s : %s := %s\n\n", leanName(vname), leanTypeOfKind(k), val))
						found = true
					}
				}
			}
		}
		if !found {
			t.errs = append(t.errs, "initialiser of package variable "+vname+" not found")
		}
	}
	for _, n := range u.funcs {
		fd, ok := u.decls[n]
		if !ok {
			t.errs = append(t.errs, "function "+n+" not found in "+u.dir)
			continue
		}
		if u.emitted[n] {
			continue // already translated on demand as a helper of an earlier function
		}
		out := t.fn(fd)
		for _, h := range t.pending {
			sb.WriteString(h)
		}
		t.pending = nil
		sb.WriteString(out)
		sb.WriteString("\n")
		u.emitted[n] = true
	}
	for _, r := range u.regions {
		fd, ok := u.decls[r.fn]
		if !ok {
			t.errs = append(t.errs, "region "+r.name+": function "+r.fn+" not found in "+u.dir)
			continue
		}
		sb.WriteString(t.region(fd, r))
		sb.WriteString("\n")
	}
}

// findRegion locates the unique statement run [start..end] inside fd (any nesting depth, closures included).
func (t *tr) findRegion(fd *ast.FuncDecl, r regionSpec) []ast.Stmt {
	sre, err1 := regexp.Compile(r.startRe)
	ere, err2 := regexp.Compile(r.endRe)
	if err1 != nil || err2 != nil {
		t.fail(fd, "region %s: bad regular expression", r.name)
		return nil
	}
	var lists [][]ast.Stmt
	ast.Inspect(fd.Body, func(n ast.Node) bool {
		switch x := n.(type) {
		case *ast.BlockStmt:
			lists = append(lists, x.List)
		case *ast.CaseClause:
			lists = append(lists, x.Body)
		}
		return true
	})
	var found []ast.Stmt
	nstart := 0
	for _, l := range lists {
		for i, s := range l {
			if !sre.MatchString(t.src(s)) {
				continue
			}
			nstart++
			nend := 0
			for j := i; j < len(l); j++ {
				if ere.MatchString(t.src(l[j])) {
					nend++
					if nend == 1 {
						found = l[i : j+1]
					}
				}
			}
			if nend != 1 {
				t.fail(fd, "region %s: end pattern %q matches %d statements after the start (want exactly 1)", r.name, r.endRe, nend)
				return nil
			}
		}
	}
	if nstart != 1 {
		t.fail(fd, "region %s: start pattern %q matches %d statements of %s (want exactly 1)", r.name, r.startRe, nstart, r.fn)
		return nil
	}
	return found
}

func constString(v constant.Value, k kind) (string, bool) {
	switch k {
	case kByte:
		if v.Kind() == constant.Int {
			return "(" + v.ExactString() + " : UInt8)", true
		}
	case kNat:
		if v.Kind() == constant.Int {
			return "(" + v.ExactString() + " : Nat)", true
		}
	case kInt:
		if v.Kind() == constant.Int {
			return "(" + v.ExactString() + " : Int)", true
		}
	case kBool:
		if v.Kind() == constant.Bool {
			if constant.BoolVal(v) {
				return "true", true
			}
			return "false", true
		}
	case kBytes:
		if v.Kind() == constant.String {
			return bytesLit([]byte(constant.StringVal(v))), true
		}
	}
	return "", false
}

func bytesLit(b []byte) string {
	var xs []string
	for _, c := range b {
		xs = append(xs, fmt.Sprintf("%d", c))
	}
	return "([" + strings.Join(xs, ", ") + "] : Bytes)"
}
