//go:build verif

package main

import (
	"go/ast"
	"go/token"
	"go/types"
)

// A VIEW is a slice variable that shares memory with another variable and through which (or under which) memory is
// written: `it := wrapped[8:]; ri := it[:8]; copy(ri, …); it = it[8:]`.  It is translated as what a Go slice header is:
// a window (lo, hi) into its ROOT variable.  Reads are `slice root lo hi`, stores go to the root's window, `len` is
// hi - lo, re-slicing the view itself (`it = it[8:]`) moves the bounds.  lo / hi are synthetic Int variables, so they
// take part in if-joins and loop states like any other local.  Slice variables that alias another variable but are
// never involved in a store keep the simpler value translation (and a later store is refused as before).
type view struct {
	root   types.Object
	lo, hi *types.Var
}

func isStringType(ty types.Type) bool {
	b, ok := ty.Underlying().(*types.Basic)
	return ok && b.Info()&types.IsString != 0
}

// storedObjs: objects (variables / path variables) whose CONTENT is written directly (not through a view resolution).
func (t *tr) storedObjs(stmts []ast.Stmt) map[types.Object]bool {
	res := map[types.Object]bool{}
	var root func(e ast.Expr) types.Object
	root = func(e ast.Expr) types.Object {
		for {
			switch x := e.(type) {
			case *ast.Ident:
				return t.u.info.Uses[x]
			case *ast.SelectorExpr:
				if _, ok := t.u.info.Selections[x]; ok && t.isFieldPath(x) {
					return t.pathVar(x)
				}
				return nil
			case *ast.IndexExpr:
				e = x.X
			case *ast.SliceExpr:
				e = x.X
			case *ast.ParenExpr:
				e = x.X
			default:
				return nil
			}
		}
	}
	mark := func(e ast.Expr) {
		if o := root(e); o != nil {
			res[o] = true
		}
	}
	for _, s := range stmts {
		ast.Inspect(s, func(n ast.Node) bool {
			switch x := n.(type) {
			case *ast.AssignStmt:
				for _, l := range x.Lhs {
					if ie, ok := l.(*ast.IndexExpr); ok {
						mark(ie)
					}
				}
			case *ast.IncDecStmt:
				if ie, ok := x.X.(*ast.IndexExpr); ok {
					mark(ie)
				}
			case *ast.CallExpr:
				for _, i := range t.destArgs(x) {
					if i >= 0 && i < len(x.Args) {
						mark(x.Args[i])
					}
				}
				if t.f != nil && t.f.externRead[t.ck(x)] && len(x.Args) > 0 {
					mark(x.Args[len(x.Args)-1])
				}
			}
			return true
		})
	}
	return res
}

// destArg: index of the argument that a call writes into (-1: none)
func (t *tr) destArg(c *ast.CallExpr) int {
	name := t.ck(c)
	if name == "copy" {
		return 0
	}
	pkg, recv, fn := t.stdCallee(c.Fun)
	if pkg == "encoding/binary" && (recv == "BigEndian" || recv == "LittleEndian") {
		if f, ok := endianFns[fn]; ok && f.op == "put" {
			return 0
		}
	}
	if pkg == "crypto/subtle" && fn == "XORBytes" {
		return 0
	}
	if t.f != nil {
		if _, ok := t.f.blockops[name]; ok {
			return 0
		}
		if _, ok := t.f.applyops[name]; ok {
			return 0
		}
		if _, ok := t.f.fillops[name]; ok {
			return 0
		}
	}
	if idx, ok := t.u.procs[name]; ok {
		return idx
	}
	return -1
}

// closureLit: the function literal a local procedure name is bound to (`f := func(…) {…}` somewhere in the current definition)
func (t *tr) closureLit(c *ast.CallExpr) *ast.FuncLit {
	id, ok := c.Fun.(*ast.Ident)
	if !ok || t.f == nil {
		return nil
	}
	return t.f.closureLits[t.objOf(id)]
}

// scanClosures records the local procedures of a statement list (by object), for the static write analyses
func (t *tr) scanClosures(stmts []ast.Stmt) {
	for _, s := range stmts {
		ast.Inspect(s, func(n ast.Node) bool {
			if as, ok := n.(*ast.AssignStmt); ok && as.Tok == token.DEFINE && len(as.Lhs) == 1 && len(as.Rhs) == 1 {
				if fl, ok := as.Rhs[0].(*ast.FuncLit); ok {
					if id, ok := as.Lhs[0].(*ast.Ident); ok {
						t.f.closureLits[t.u.info.Defs[id]] = fl
					}
				}
			}
			return true
		})
	}
}

// destArgs: all arguments a call writes into (procedures with several written parameters included)
func (t *tr) destArgs(c *ast.CallExpr) []int {
	if i := t.destArg(c); i >= 0 {
		return []int{i}
	}
	if fl := t.closureLit(c); fl != nil {
		// a local procedure writes the arguments bound to the slice parameters its body stores into
		stored := t.storedObjs(fl.Body.List)
		var r []int
		i := 0
		for _, fld := range fl.Type.Params.List {
			for _, nm := range fld.Names {
				if stored[t.u.info.Defs[nm]] {
					r = append(r, i)
				}
				i++
			}
		}
		return r
	}
	if sg := t.calleeSig(c); sg != nil && sg.proc {
		var r []int
		for _, oi := range sg.outIdx {
			r = append(r, oi-sg.nRecv)
		}
		return r
	}
	return nil
}

// findViews decides statically which `x := y[lo:hi]` variables are views and what their roots are.
func (t *tr) findViews(stmts []ast.Stmt) {
	f := t.f
	stored := t.storedObjs(stmts)
	type cand struct {
		x, base types.Object
		pos     token.Pos
	}
	var cands []cand
	for _, s := range stmts {
		ast.Inspect(s, func(n ast.Node) bool {
			as, ok := n.(*ast.AssignStmt)
			if !ok || as.Tok != token.DEFINE || len(as.Lhs) != 1 || len(as.Rhs) != 1 {
				return true
			}
			id, ok := as.Lhs[0].(*ast.Ident)
			if !ok || id.Name == "_" {
				return true
			}
			rhs := as.Rhs[0]
			for {
				if p, ok := rhs.(*ast.ParenExpr); ok {
					rhs = p.X
					continue
				}
				break
			}
			se, ok := rhs.(*ast.SliceExpr)
			if !ok || se.Slice3 {
				return true
			}
			if k, _ := t.kindOf(se.X); k != kBytes || isStringType(t.typeOf(se.X)) {
				return true
			}
			base, _ := t.placeObj(se.X)
			x := t.u.info.Defs[id]
			if base == nil || x == nil {
				return true
			}
			cands = append(cands, cand{x, base, as.Pos()})
			return true
		})
	}
	baseOf := map[types.Object]types.Object{}
	for _, c := range cands {
		baseOf[c.x] = c.base
	}
	rootOf := func(o types.Object) types.Object {
		for i := 0; i < 64; i++ {
			b, ok := baseOf[o]
			if !ok {
				return o
			}
			o = b
		}
		return o
	}
	hot := map[types.Object]bool{} // roots of classes with a store
	for o := range stored {
		hot[rootOf(o)] = true
	}
	for _, c := range cands {
		r := rootOf(c.x)
		if !hot[r] {
			continue
		}
		f.viewRoot[c.x] = r
		f.viewVars[c.x] = [2]*types.Var{
			types.NewVar(c.pos, t.u.pkg, c.x.Name()+"_lo", types.Typ[types.Int]),
			types.NewVar(c.pos+1, t.u.pkg, c.x.Name()+"_hi", types.Typ[types.Int]),
		}
	}
}

// viewOf: the live view a variable currently is (nil if it is an ordinary variable)
func (t *tr) viewOf(e ast.Expr) *view {
	for {
		if p, ok := e.(*ast.ParenExpr); ok {
			e = p.X
			continue
		}
		break
	}
	id, ok := e.(*ast.Ident)
	if !ok {
		return nil
	}
	return t.f.views[t.objOf(id)]
}

// defineView translates `x := base[lo:hi]` for a variable that findViews made a view.
func (t *tr) defineView(id *ast.Ident, se *ast.SliceExpr) {
	f := t.f
	x := t.objOf(id)
	vars := f.viewVars[x]
	var root types.Object
	var lo, hi string
	if bv := t.viewOf(se.X); bv != nil {
		root = bv.root
		blo, bhi := f.env[bv.lo], f.env[bv.hi]
		lo, hi = blo, bhi
		if se.Low != nil {
			lo = "(" + blo + " + " + t.intExpr(se.Low) + ")"
		}
		if se.High != nil {
			hi = "(" + blo + " + " + t.intExpr(se.High) + ")"
		}
	} else {
		root, _ = t.placeObj(se.X)
		b := t.expr(se.X)
		lo, hi = "(0 : Int)", "(GoSem.len "+b+")"
		if se.Low != nil {
			lo = t.intExpr(se.Low)
		}
		if se.High != nil {
			hi = t.intExpr(se.High)
		}
	}
	if root == nil || root != f.viewRoot[x] {
		t.fail(id, "view %s: root mismatch", id.Name)
		return
	}
	t.setObj(vars[0], vars[0].Name(), vars[0].Type(), lo, id)
	t.setObj(vars[1], vars[1].Name(), vars[1].Type(), hi, id)
	f.views[x] = &view{root: root, lo: vars[0], hi: vars[1]}
}

// resliceView translates `x = x[lo:hi]` for a view x.
func (t *tr) resliceView(id *ast.Ident, rhs ast.Expr, s ast.Stmt) bool {
	v := t.viewOf(id)
	if v == nil {
		return false
	}
	for {
		if p, ok := rhs.(*ast.ParenExpr); ok {
			rhs = p.X
			continue
		}
		break
	}
	se, ok := rhs.(*ast.SliceExpr)
	if !ok || se.Slice3 || t.viewOf(se.X) != v {
		t.fail(s, "the view %s may only be re-assigned a sub-slice of itself", id.Name)
		return true
	}
	blo := t.f.env[v.lo]
	if se.High != nil {
		t.setObj(v.hi, v.hi.Name(), v.hi.Type(), "("+blo+" + "+t.intExpr(se.High)+")", s)
	}
	if se.Low != nil {
		t.setObj(v.lo, v.lo.Name(), v.lo.Type(), "("+blo+" + "+t.intExpr(se.Low)+")", s)
	}
	return true
}

// liveViewRoot reports whether obj is the root of a view that has been defined
func (t *tr) liveViewRoot(obj types.Object) bool {
	for _, v := range t.f.views {
		if v.root == obj {
			return true
		}
	}
	return false
}
