//go:build verif

package main

import (
	"fmt"
	"go/ast"
	"go/token"
	"go/types"
	"sort"
	"strings"
)

// fsig: the Lean signature of an emitted function.  Implicit binders (declared callees such as a block function, and
// receiver field paths such as a_ivSize) are passed on by NAME when the function is called from a later function.
type fsig struct {
	binders  []binder
	implicit []bool
	pathSrc  map[string]string     // path binder -> printed Go path (a.ivSize)
	pathTy   map[string]types.Type // path binder -> Go type
	proc     bool  // the value is the final content of the written slice parameters (Option of it if the Go function returns an error)
	outIdx   []int // indices (among the Go parameters incl. a named receiver) of the written slice parameters
	optional bool
	nRecv    int // 1 if the Go function has a named receiver
}

// importCallees: calls of already emitted functions / methods of this unit bring their implicit binders into the caller.
func (t *tr) importCallees(f *fctx, stmts []ast.Stmt) (extraPaths []string, extraTy map[string]types.Type) {
	extraTy = map[string]types.Type{}
	for _, s := range stmts {
		ast.Inspect(s, func(nd ast.Node) bool {
			c, ok := nd.(*ast.CallExpr)
			if !ok {
				return true
			}
			sg := t.calleeSig(c)
			if sg == nil {
				return true
			}
			for i, b := range sg.binders {
				if !sg.implicit[i] {
					continue
				}
				if src, isPath := sg.pathSrc[b.name]; isPath {
					if _, dup := extraTy[src]; !dup {
						extraPaths = append(extraPaths, src)
						extraTy[src] = sg.pathTy[b.name]
					}
					continue
				}
				if !f.hasBinder(b.name) {
					f.binders = append(f.binders, b)
				}
			}
			return true
		})
	}
	return
}

// calleeSig: the signature of an emitted function of this unit that a call targets (plain call or method call on a variable)
func (t *tr) calleeSig(c *ast.CallExpr) *fsig {
	switch x := c.Fun.(type) {
	case *ast.Ident:
		if o := t.objOf(x); o != nil && o.Parent() == t.u.pkg.Scope() {
			return t.u.sigs[x.Name]
		}
	case *ast.SelectorExpr:
		if sel, ok := t.u.info.Selections[x]; ok && sel.Kind() == types.MethodVal {
			if fn, ok := sel.Obj().(*types.Func); ok && fn.Pkg() == t.u.pkg {
				if _, isId := x.X.(*ast.Ident); isId {
					if d, ok := t.u.decls[x.Sel.Name]; ok && t.u.info.Defs[d.Name] == sel.Obj() {
						return t.u.sigs[x.Sel.Name]
					}
				}
			}
		}
	}
	return nil
}

func supported(k kind) bool {
	return k == kByte || k == kNat || k == kInt || k == kBool || k == kBytes || k == kRec || k == kRecList || k == kSet || k == kAbs
}

// collectPaths finds the field paths p.f.g (of a supported type) rooted at one of the given outer variables.
func (t *tr) collectPaths(stmts []ast.Stmt, outer map[types.Object]bool) (paths []string, tys map[string]types.Type, roots map[string]types.Object, nodes map[string]ast.Expr) {
	tys = map[string]types.Type{}
	roots = map[string]types.Object{}
	nodes = map[string]ast.Expr{}
	rootOf := func(e ast.Expr) types.Object {
		for {
			switch x := e.(type) {
			case *ast.Ident:
				return t.objOf(x)
			case *ast.SelectorExpr:
				e = x.X
			case *ast.ParenExpr:
				e = x.X
			case *ast.StarExpr:
				e = x.X
			default:
				return nil
			}
		}
	}
	for _, s := range stmts {
		ast.Inspect(s, func(n ast.Node) bool {
			se, ok := n.(*ast.SelectorExpr)
			if !ok {
				return true
			}
			sel, ok := t.u.info.Selections[se]
			if !ok || sel.Kind() != types.FieldVal || !t.isFieldPath(se) {
				return true
			}
			k, _ := classify(t.typeOf(se))
			r := rootOf(se)
			if !supported(k) || r == nil || !outer[r] {
				return true
			}
			src := t.src(se)
			if _, dup := tys[src]; !dup {
				paths = append(paths, src)
				tys[src] = t.typeOf(se)
				roots[src] = r
				nodes[src] = se
			}
			return false
		})
	}
	return
}

func (t *tr) opaqueBinders(f *fctx, stmts []ast.Stmt, ops []opq, n ast.Node) {
	for _, o := range ops {
		var sig *types.Signature
		for _, s := range stmts {
			ast.Inspect(s, func(nd ast.Node) bool {
				if c, ok := nd.(*ast.CallExpr); ok && sig == nil && t.src(c.Fun) == o.callee {
					sig, _ = t.typeOf(c.Fun).(*types.Signature)
				}
				return true
			})
		}
		if sig == nil {
			t.fail(n, "opaque callee %s is not called here", o.callee)
			continue
		}
		var parts []string
		for _, s := range stmts {
			ast.Inspect(s, func(nd ast.Node) bool {
				if c, ok := nd.(*ast.CallExpr); ok && len(parts) == 0 && t.src(c.Fun) == o.callee {
					if sel, ok := c.Fun.(*ast.SelectorExpr); ok {
						if kr, _ := t.kindOf(sel.X); kr == kAbs {
							parts = append(parts, t.leanType(t.typeOf(sel.X)))
						}
					}
				}
				return true
			})
		}
		np := sig.Params().Len()
		if sig.Variadic() {
			np--
		}
		for i := 0; i < np; i++ {
			parts = append(parts, t.leanType(sig.Params().At(i).Type()))
		}
		if sig.Variadic() {
			// a variadic callee takes as many arguments as its (unique-arity) calls here pass
			nargs := -1
			for _, s := range stmts {
				ast.Inspect(s, func(nd ast.Node) bool {
					if c, ok := nd.(*ast.CallExpr); ok && t.src(c.Fun) == o.callee {
						if c.Ellipsis.IsValid() || (nargs >= 0 && nargs != len(c.Args)) {
							nargs = -2
						} else if nargs == -1 {
							nargs = len(c.Args)
						}
					}
					return true
				})
			}
			if nargs < np {
				t.fail(n, "variadic opaque callee %s: calls with different arities or a spread argument", o.callee)
			}
			el := sig.Params().At(np).Type().(*types.Slice).Elem()
			for i := np; i < nargs; i++ {
				parts = append(parts, t.leanType(el))
			}
		}
		res := t.leanResult(sig.Results())
		if strings.Contains(res, " ") {
			res = "(" + res + ")"
		}
		parts = append(parts, res)
		ty := strings.Join(parts, " → ")
		if strings.Contains(ty, "UNSUPPORTED") {
			t.fail(n, "opaque callee %s has an unsupported signature %s", o.callee, sig)
		}
		f.binders = append(f.binders, binder{leanName(o.name), ty})
	}
}

// blockBinders: block-cipher calls declared with -block become parameters `name : Bytes → Bytes`; -abstract callees are noted.
func (t *tr) blockBinders(f *fctx, stmts []ast.Stmt, fn string, n ast.Node) {
	for _, o := range t.u.block[fn] {
		found := false
		for _, s := range stmts {
			ast.Inspect(s, func(nd ast.Node) bool {
				if c, ok := nd.(*ast.CallExpr); ok && t.src(c.Fun) == o.callee {
					found = true
				}
				return true
			})
		}
		if !found {
			t.fail(n, "block callee %s is not called here", o.callee)
			continue
		}
		f.blockops[o.callee] = o
		bty := "Bytes → Bytes"
		for _, s := range stmts {
			ast.Inspect(s, func(nd ast.Node) bool {
				if c, ok := nd.(*ast.CallExpr); ok && t.src(c.Fun) == o.callee {
					if sel, ok := c.Fun.(*ast.SelectorExpr); ok {
						if kr, _ := t.kindOf(sel.X); kr == kBytes {
							bty = "Bytes → Bytes → Bytes" // keyed by the representation of the cipher object (its key)
						}
					}
				}
				return true
			})
		}
		if !f.hasBinder(leanName(o.name)) {
			f.binders = append(f.binders, binder{leanName(o.name), bty})
		}
	}
	for _, o := range t.u.mutate[fn] {
		var sig *types.Signature
		var recvTy types.Type
		for _, s := range stmts {
			ast.Inspect(s, func(nd ast.Node) bool {
				if c, ok := nd.(*ast.CallExpr); ok && sig == nil && t.src(c.Fun) == o.callee {
					sig, _ = t.typeOf(c.Fun).(*types.Signature)
					if sel, ok := c.Fun.(*ast.SelectorExpr); ok {
						recvTy = t.typeOf(sel.X)
					}
				}
				return true
			})
		}
		if sig == nil || recvTy == nil {
			t.fail(n, "-mutate callee %s is not called here", o.callee)
			continue
		}
		if kr, _ := classify(recvTy); kr != kAbs || sig.Results().Len() != 0 {
			t.fail(n, "-mutate callee %s: the receiver must be an abstract object (-abs) and the method must return nothing", o.callee)
			continue
		}
		f.mutops[o.callee] = o
		parts := []string{t.leanType(recvTy)}
		for i := 0; i < sig.Params().Len(); i++ {
			parts = append(parts, t.leanType(sig.Params().At(i).Type()))
		}
		parts = append(parts, t.leanType(recvTy))
		if !f.hasBinder(leanName(o.name)) {
			f.binders = append(f.binders, binder{leanName(o.name), strings.Join(parts, " → ")})
		}
	}
	for _, c := range t.u.abstract[fn] {
		f.abstract[c] = true
	}
	calledSig := func(callee string) *types.Signature {
		var sig *types.Signature
		for _, s := range stmts {
			ast.Inspect(s, func(nd ast.Node) bool {
				if c, ok := nd.(*ast.CallExpr); ok && sig == nil && t.src(c.Fun) == callee {
					sig, _ = t.typeOf(c.Fun).(*types.Signature)
				}
				return true
			})
		}
		return sig
	}
	for _, o := range t.u.apply[fn] {
		sig := calledSig(o.callee)
		if sig == nil {
			t.fail(n, "-apply callee %s is not called here", o.callee)
			continue
		}
		f.applyops[o.callee] = o
		ty := "Bytes → Bytes"
		for _, s := range stmts {
			ast.Inspect(s, func(nd ast.Node) bool {
				if c, ok := nd.(*ast.CallExpr); ok && t.src(c.Fun) == o.callee && ty == "Bytes → Bytes" {
					if sel, ok := c.Fun.(*ast.SelectorExpr); ok {
						if kr, _ := t.kindOf(sel.X); kr != kBad && kr != kErr {
							ty = leanTypeOfKind(kr) + " → " + ty // keyed by the receiver's representation
						}
					}
				}
				return true
			})
		}
		if !f.hasBinder(leanName(o.name)) {
			f.binders = append(f.binders, binder{leanName(o.name), ty})
		}
	}
	for _, o := range t.u.fill[fn] {
		if calledSig(o.callee) == nil {
			t.fail(n, "-fill callee %s is not called here", o.callee)
			continue
		}
		// the source of fresh bytes is a pure function of the length here, which is only faithful for ONE draw:
		// several draws (or a draw in a loop) must be translated -stateful with the source as an external object
		ncalls, inLoop := 0, false
		var walk func(nd ast.Node, loop bool)
		walk = func(nd ast.Node, loop bool) {
			ast.Inspect(nd, func(x ast.Node) bool {
				switch y := x.(type) {
				case *ast.ForStmt:
					if y != nd {
						walk(y.Body, true)
						return false
					}
				case *ast.RangeStmt:
					if y != nd {
						walk(y.Body, true)
						return false
					}
				case *ast.CallExpr:
					if t.src(y.Fun) == o.callee {
						ncalls++
						if loop {
							inLoop = true
						}
					}
				}
				return true
			})
		}
		for _, s := range stmts {
			walk(s, false)
		}
		if ncalls != 1 || inLoop {
			t.fail(n, "-fill callee %s is called %d times (in a loop: %v): exactly one draw outside loops is supported", o.callee, ncalls, inLoop)
		}
		f.fillops[o.callee] = o
		if !f.hasBinder(leanName(o.name)) {
			f.binders = append(f.binders, binder{leanName(o.name), "Int → Bytes"})
		}
	}
	for _, o := range t.u.inout[fn] {
		sig := calledSig(o.callee)
		if sig == nil {
			t.fail(n, "-inout callee %s is not called here", o.callee)
			continue
		}
		f.inouts[o.callee] = o
		var parts []string
		for i := 0; i < sig.Params().Len(); i++ {
			parts = append(parts, t.leanType(sig.Params().At(i).Type()))
		}
		parts = append(parts, "("+t.leanResult(sig.Results())+")")
		ty := strings.Join(parts, " → ")
		if strings.Contains(ty, "UNSUPPORTED") || sig.Results().Len() != 2 {
			t.fail(n, "-inout callee %s has an unsupported signature %s", o.callee, sig)
		}
		if !f.hasBinder(leanName(o.name)) {
			f.binders = append(f.binders, binder{leanName(o.name), ty})
		}
	}
	for _, o := range t.u.ctor[fn] {
		if calledSig(o.callee) == nil {
			t.fail(n, "-ctor callee %s is not called here", o.callee)
			continue
		}
		idx := 0
		fmt.Sscanf(o.name, "%d", &idx)
		f.ctors[o.callee] = idx
	}
}

func (t *tr) finish(f *fctx, resTy, body string) string {
	return strings.Join(f.aux, "\n") + "\n" + fmt.Sprintf("def %s %s : %s :=\n%s\n", f.name, f.binderDecl(), resTy, body)
}

func (t *tr) fn(fd *ast.FuncDecl) string {
	u := t.u
	f := newFctx(leanName(fd.Name.Name), u.opaque[fd.Name.Name])
	t.f = f
	f.stateful = u.stateful[fd.Name.Name]
	f.goSig, _ = u.info.Defs[fd.Name].Type().(*types.Signature)
	for _, an := range u.absNames() {
		f.binders = append(f.binders, binder{an, "Type"})
	}
	// external stateful objects: an abstract state type per object, the callee as a function on it
	var externVars []*types.Var
	if f.stateful {
		seenPath := map[string]bool{}
		for _, e := range u.extern[fd.Name.Name] {
			f.externs = append(f.externs, e)
			f.externRead[e.callee] = u.externKind[fd.Name.Name+":"+e.callee] == "read"
			sty := "S_" + pathName(e.path)
			if !seenPath[e.path] {
				seenPath[e.path] = true
				f.binders = append(f.binders, binder{sty, "Type"})
				var node ast.Expr
				ast.Inspect(fd.Body, func(nd ast.Node) bool {
					if se, ok := nd.(*ast.SelectorExpr); ok && node == nil && t.src(se) == e.path {
						node = se
					}
					return true
				})
				var v *types.Var
				if !strings.Contains(e.path, ".") {
					// a global object (the random source): not a field of anything here
					v = t.pathVarNamed(e.path, fd.Pos(), types.Typ[types.Invalid])
				} else if node == nil {
					t.fail(fd, "external object %s does not occur in %s", e.path, fd.Name.Name)
					continue
				} else {
					v = t.pathVarNamed(e.path, node.Pos(), t.typeOf(node))
				}
				f.typeOverride[v] = sty
				externVars = append(externVars, v)
			}
		}
		for _, e := range f.externs {
			sty := "S_" + pathName(e.path)
			ty := sty + " → Bytes → Int × Nat × " + sty
			if f.externRead[e.callee] {
				ty = sty + " → Int → Bytes × Nat × " + sty
			}
			if u.externKind[fd.Name.Name+":"+e.callee] == "value" {
				// callee() T: the object hands out one value
				var rt types.Type
				ast.Inspect(fd.Body, func(nd ast.Node) bool {
					if c, ok := nd.(*ast.CallExpr); ok && rt == nil && t.src(c.Fun) == e.callee {
						rt = t.typeOf(c)
					}
					return true
				})
				if rt == nil {
					t.fail(fd, "-extern callee %s is not called here", e.callee)
					continue
				}
				ty = sty + " → " + t.leanType(rt) + " × " + sty
				f.externValue[e.callee] = true
			}
			if !f.hasBinder(leanName(e.name)) {
				f.binders = append(f.binders, binder{leanName(e.name), ty})
			}
		}
	} else if len(u.extern[fd.Name.Name]) > 0 {
		t.fail(fd, "-extern needs -stateful")
	}
	if hasWhile(fd.Body.List) {
		f.binders = append(f.binders, binder{"fuel", "Nat"})
	}
	t.opaqueBinders(f, fd.Body.List, u.opaque[fd.Name.Name], fd)
	t.blockBinders(f, fd.Body.List, fd.Name.Name, fd)
	nImplicitHead := len(f.binders)
	extraPaths, extraTy := t.importCallees(f, fd.Body.List)
	nImplicitHead = len(f.binders)
	sg := &fsig{pathSrc: map[string]string{}, pathTy: map[string]types.Type{}}
	var fields []*ast.Field
	if fd.Recv != nil {
		fields = append(fields, fd.Recv.List...)
	}
	fields = append(fields, fd.Type.Params.List...)
	outer := map[types.Object]bool{}
	var params []*ast.Ident
	for _, fl := range fields {
		for _, n := range fl.Names {
			if n.Name == "_" {
				continue
			}
			params = append(params, n)
			outer[u.info.Defs[n]] = true
		}
	}
	paths, ptys, proots, pnodes := t.collectPaths(fd.Body.List, outer)
	// receiver field paths that only a callee uses (the receiver has the same name in all methods of a type)
	for _, p := range extraPaths {
		if _, have := ptys[p]; have {
			continue
		}
		rootName, _, _ := strings.Cut(p, ".")
		for o := range outer {
			if o != nil && o.Name() == rootName {
				paths = append(paths, p)
				ptys[p] = extraTy[p]
				proots[p] = o
			}
		}
		if _, ok := ptys[p]; !ok {
			t.fail(fd, "a callee needs %s, which is not a field path of a parameter here", p)
		}
	}
	plain := nImplicitHead == 0 && len(u.apply[fd.Name.Name]) == 0 && len(u.fill[fd.Name.Name]) == 0
	var sliceParams []*ast.Ident
	for _, n := range params {
		obj := u.info.Defs[n]
		k, _ := classify(obj.Type())
		if supported(k) {
			f.binders = append(f.binders, binder{leanName(n.Name), t.leanType(obj.Type())})
			f.env[obj] = leanName(n.Name)
			if _, isSlice := obj.Type().Underlying().(*types.Slice); isSlice && k == kBytes {
				sliceParams = append(sliceParams, n)
			}
			continue
		}
		for _, p := range paths {
			if proots[p] == obj {
				pn := pathName(p)
				f.binders = append(f.binders, binder{pn, t.leanType(ptys[p])})
				if nd, ok := pnodes[p]; ok {
					f.env[t.pathVar(nd)] = pn
				} else {
					f.env[t.pathVarNamed(p, fd.Pos(), ptys[p])] = pn
				}
				sg.pathSrc[pn] = p
				sg.pathTy[pn] = ptys[p]
				plain = false
			}
		}
	}
	for _, v := range externVars {
		f.binders = append(f.binders, binder{v.Name(), f.typeOverride[v]})
		f.env[v] = v.Name()
		plain = false
	}
	t.scanClosures(fd.Body.List)
	t.findViews(fd.Body.List)
	// results
	res := fd.Type.Results
	var resTy string
	errOnly := false
	if f.stateful {
		t.statefulSetup(fd, outer)
		sp := t.storedObjs(fd.Body.List)
		for o := range sp {
			if r, ok := f.viewRoot[o]; ok {
				sp[r] = true
			}
		}
		var tys []string
		for _, o := range f.stateObjs {
			tys = append(tys, t.leanTypeOfObj(o))
		}
		for _, pn := range sliceParams {
			if o := u.info.Defs[pn]; sp[o] {
				f.outParams = append(f.outParams, o)
				tys = append(tys, "Bytes")
			}
		}
		for i := 0; i < f.goSig.Results().Len(); i++ {
			tys = append(tys, t.leanType(f.goSig.Results().At(i).Type()))
		}
		if len(tys) == 0 {
			t.fail(fd, "stateful function without state, written parameters or results")
		}
		resTy = strings.Join(tys, " × ")
		if strings.Contains(resTy, "UNSUPPORTED") {
			t.fail(fd, "result type of stateful %s: %s", fd.Name.Name, resTy)
		}
		plain = false
	} else if res != nil && len(res.List) > 0 {
		sig := u.info.Defs[fd.Name].Type().(*types.Signature)
		resTy = t.leanResult(sig.Results())
		n := sig.Results().Len()
		if k, _ := classify(sig.Results().At(n - 1).Type()); k == kErr {
			f.optional = true
			n--
		}
		f.nres = n
		for _, fl := range res.List {
			if len(fl.Names) > 0 {
				t.fail(fd, "named results")
			}
		}
		if strings.Contains(resTy, "UNSUPPORTED") {
			t.fail(fd, "result type %s", sig.Results())
		}
		// slice parameters whose content is written: with an error-only result they are the value of the function
		// (a procedure that can fail); otherwise every return must hand the written parameter back
		stored := t.assignedObjs(fd.Body.List)
		sp := t.storedObjs(fd.Body.List)
		for o := range sp {
			if r, ok := f.viewRoot[o]; ok {
				sp[r] = true
			}
		}
		var storedParams []types.Object
		for _, pn := range sliceParams {
			if o := u.info.Defs[pn]; stored[o] && sp[o] {
				storedParams = append(storedParams, o)
			}
		}
		if len(storedParams) > 0 {
			if n == 0 && f.optional {
				errOnly = true
			} else {
				for _, o := range storedParams {
					visible := true
					ast.Inspect(fd.Body, func(nd ast.Node) bool {
						switch x := nd.(type) {
						case *ast.FuncLit:
							return false
						case *ast.ReturnStmt:
							if len(x.Results) == 0 {
								return true
							}
							if f.optional {
								if last, ok := x.Results[len(x.Results)-1].(*ast.Ident); !ok || last.Name != "nil" {
									return true // error return: the buffer content is unspecified
								}
							}
							found := false
							for _, r := range x.Results {
								if rootIs(t, r, o) {
									found = true
								}
							}
							if !found {
								visible = false
							}
						}
						return true
					})
					if !visible {
						t.fail(fd, "the content of parameter %s is written but not part of the results", o.Name())
					}
				}
			}
		}
	}
	if !f.stateful && (res == nil || len(res.List) == 0 || errOnly) {
		// a procedure: its value is the final content of the slice parameters whose content it writes
		// (re-slicing a parameter, `in = in[n:]`, only changes the local slice header)
		written := t.storedObjs(fd.Body.List)
		for o := range written {
			if r, ok := f.viewRoot[o]; ok {
				written[r] = true
			}
		}
		var outs []types.Object
		var tys []string
		for _, n := range sliceParams {
			if o := u.info.Defs[n]; written[o] {
				outs = append(outs, o)
				tys = append(tys, "Bytes")
			}
		}
		if len(outs) == 0 {
			t.fail(fd, "procedure without a written slice parameter")
		}
		for i, n := range params {
			for _, o := range outs {
				if u.info.Defs[n] == o {
					sg.outIdx = append(sg.outIdx, i) // index among the Go parameters (receiver first, if named)
				}
			}
		}
		sg.optional = errOnly
		if len(outs) == 1 && plain {
			// callable as a statement from later functions of this unit
			for i, n := range params {
				if u.info.Defs[n] == outs[0] && len(params) == len(f.binders) {
					defer func(i int) { u.procs[fd.Name.Name] = i }(i)
				}
			}
		}
		resTy = strings.Join(tys, " × ")
		if errOnly {
			if len(tys) > 1 {
				resTy = "(" + resTy + ")"
			}
			resTy = "Option " + resTy
		}
		f.outs = func() string {
			var vs []string
			for _, o := range outs {
				vs = append(vs, f.env[o])
			}
			if len(vs) == 1 {
				return vs[0]
			}
			return "(" + strings.Join(vs, ", ") + ")"
		}
		plain = false
	}
	k := func() string {
		if f.stateful && f.goSig.Results().Len() == 0 {
			return t.statefulRet(&ast.ReturnStmt{}, f.goSig)
		}
		if f.outs != nil {
			return f.outs()
		}
		return t.fail(fd, "control reaches the end of a function with results")
	}
	f.resTy = resTy
	sg.binders = append([]binder{}, f.binders...)
	for i, b := range sg.binders {
		_, isPath := sg.pathSrc[b.name]
		sg.implicit = append(sg.implicit, i < nImplicitHead || isPath)
	}
	sg.proc = f.outs != nil
	body := t.block(fd.Body.List, 1, k)
	if !f.stateful {
		// never drop a state change silently: assigning a field of the receiver / a pointer parameter needs -stateful
		isPath := map[types.Object]string{}
		for src, v := range f.pvars {
			isPath[v] = src
		}
		for o := range t.assignedObjs(fd.Body.List) {
			if src, ok := isPath[o]; ok {
				root, _, _ := strings.Cut(src, ".")
				for po := range outer {
					if po != nil && po.Name() == root {
						t.fail(fd, "%s writes %s: translate it with -stateful", fd.Name.Name, src)
					}
				}
			}
		}
	}
	if plain {
		u.emitted[fd.Name.Name] = true
	}
	if f.stateful {
		sg.proc = true // not callable from other translated functions (yet)
		sg.outIdx = nil
	}
	if fd.Recv != nil && len(fd.Recv.List) > 0 && len(fd.Recv.List[0].Names) > 0 && fd.Recv.List[0].Names[0].Name != "_" {
		sg.nRecv = 1
	}
	if _, plainProc := u.procs[fd.Name.Name]; !plainProc {
		defer func() {
			if _, plainProc := u.procs[fd.Name.Name]; !plainProc {
				u.sigs[fd.Name.Name] = sg
			}
		}()
	}
	return t.finish(f, resTy, body)
}

func (t *tr) region(fd *ast.FuncDecl, r regionSpec) string {
	u := t.u
	stmts := t.findRegion(fd, r)
	if stmts == nil {
		return ""
	}
	f := newFctx(leanName(r.name), u.opaque[r.name])
	t.f = f
	for _, an := range u.absNames() {
		f.binders = append(f.binders, binder{an, "Type"})
	}
	if hasWhile(stmts) {
		f.binders = append(f.binders, binder{"fuel", "Nat"})
	}
	t.opaqueBinders(f, stmts, u.opaque[r.name], fd)
	t.blockBinders(f, stmts, r.name, fd)
	start, end := stmts[0].Pos(), stmts[len(stmts)-1].End()
	inside := func(p token.Pos) bool { return p >= start && p <= end }
	// free variables in order of first occurrence
	var free []types.Object
	seen := map[types.Object]bool{}
	for _, s := range stmts {
		ast.Inspect(s, func(n ast.Node) bool {
			id, ok := n.(*ast.Ident)
			if !ok {
				return true
			}
			v, ok := u.info.Uses[id].(*types.Var)
			if !ok || v.IsField() || seen[v] || inside(v.Pos()) || v.Parent() == u.pkg.Scope() || v.Pkg() != u.pkg {
				return true
			}
			seen[v] = true
			free = append(free, v)
			return true
		})
	}
	paths, ptys, proots, pnodes := t.collectPaths(stmts, seen)
	for _, o := range free {
		k, _ := classify(o.Type())
		if supported(k) {
			bn := leanName(o.Name())
			f.binders = append(f.binders, binder{bn, t.leanType(o.Type())})
			f.env[o] = bn
			continue
		}
		for _, p := range paths {
			if proots[p] == o {
				pn := pathName(p)
				f.binders = append(f.binders, binder{pn, t.leanType(ptys[p])})
				f.env[t.pathVar(pnodes[p])] = pn
			}
		}
	}
	// outputs
	var outs []types.Object
	for _, name := range r.outs {
		var obj types.Object
		for _, s := range stmts {
			ast.Inspect(s, func(n ast.Node) bool {
				if id, ok := n.(*ast.Ident); ok && obj == nil && id.Name == name {
					if o, ok := t.objOf(id).(*types.Var); ok && !o.IsField() {
						obj = o
					}
				}
				return true
			})
		}
		if obj == nil {
			t.fail(fd, "region %s: output variable %s does not occur", r.name, name)
			return ""
		}
		outs = append(outs, obj)
	}
	sort.SliceStable(outs, func(i, j int) bool { return false })
	var tys []string
	for _, o := range outs {
		tys = append(tys, t.leanType(o.Type()))
	}
	f.outs = func() string {
		var vs []string
		for _, o := range outs {
			v, ok := f.env[o]
			if !ok {
				return t.fail(fd, "region %s: output %s has no value at the end", r.name, o.Name())
			}
			vs = append(vs, v)
		}
		if len(vs) == 1 {
			return vs[0]
		}
		return "(" + strings.Join(vs, ", ") + ")"
	}
	t.scanClosures(stmts)
	t.findViews(stmts)
	f.resTy = strings.Join(tys, " × ")
	body := t.block(stmts, 1, f.outs)
	hdr := fmt.Sprintf("/- region of %s: statements `%s` … `%s` -/\n", r.fn, firstLine(t.src(stmts[0])), firstLine(t.src(stmts[len(stmts)-1])))
	return hdr + t.finish(f, strings.Join(tys, " × "), body)
}

func firstLine(s string) string {
	if i := strings.IndexByte(s, '\n'); i >= 0 {
		return s[:i] + " …"
	}
	return s
}
