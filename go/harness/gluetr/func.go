//go:build verif

package main

import (
	"fmt"
	"go/ast"
	"go/token"
	"go/types"
	"sort"
	"strings"
)

func supported(k kind) bool { return k == kByte || k == kNat || k == kInt || k == kBool || k == kBytes }

// collectPaths finds the field paths p.f.g (of a supported type) rooted at one of the given outer variables.
func (t *tr) collectPaths(stmts []ast.Stmt, outer map[types.Object]bool) (paths []string, tys map[string]types.Type, roots map[string]types.Object) {
	tys = map[string]types.Type{}
	roots = map[string]types.Object{}
	rootOf := func(e ast.Expr) types.Object {
		for {
			switch x := e.(type) {
			case *ast.Ident:
				return t.objOf(x)
			case *ast.SelectorExpr:
				e = x.X
			case *ast.ParenExpr:
				e = x.X
			case *ast.StarExpr:
				e = x.X
			default:
				return nil
			}
		}
	}
	for _, s := range stmts {
		ast.Inspect(s, func(n ast.Node) bool {
			se, ok := n.(*ast.SelectorExpr)
			if !ok {
				return true
			}
			sel, ok := t.u.info.Selections[se]
			if !ok || sel.Kind() != types.FieldVal || !t.isFieldPath(se) {
				return true
			}
			k, _ := classify(t.typeOf(se))
			r := rootOf(se)
			if !supported(k) || r == nil || !outer[r] {
				return true
			}
			src := t.src(se)
			if _, dup := tys[src]; !dup {
				paths = append(paths, src)
				tys[src] = t.typeOf(se)
				roots[src] = r
			}
			return false
		})
	}
	return
}

func (t *tr) opaqueBinders(f *fctx, stmts []ast.Stmt, ops []opq, n ast.Node) {
	for _, o := range ops {
		var sig *types.Signature
		for _, s := range stmts {
			ast.Inspect(s, func(nd ast.Node) bool {
				if c, ok := nd.(*ast.CallExpr); ok && sig == nil && t.src(c.Fun) == o.callee {
					sig, _ = t.typeOf(c.Fun).(*types.Signature)
				}
				return true
			})
		}
		if sig == nil {
			t.fail(n, "opaque callee %s is not called here", o.callee)
			continue
		}
		var parts []string
		for i := 0; i < sig.Params().Len(); i++ {
			parts = append(parts, t.leanType(sig.Params().At(i).Type()))
		}
		res := t.leanResult(sig.Results())
		if strings.Contains(res, " ") && len(parts) > 0 {
			res = "(" + res + ")"
		}
		parts = append(parts, res)
		ty := strings.Join(parts, " → ")
		if strings.Contains(ty, "UNSUPPORTED") {
			t.fail(n, "opaque callee %s has an unsupported signature %s", o.callee, sig)
		}
		f.binders = append(f.binders, binder{leanName(o.name), ty})
	}
}

func (t *tr) finish(f *fctx, resTy, body string) string {
	return strings.Join(f.aux, "\n") + "\n" + fmt.Sprintf("def %s %s : %s :=\n%s\n", f.name, f.binderDecl(), resTy, body)
}

func (t *tr) fn(fd *ast.FuncDecl) string {
	u := t.u
	f := newFctx(leanName(fd.Name.Name), u.opaque[fd.Name.Name])
	t.f = f
	t.opaqueBinders(f, fd.Body.List, u.opaque[fd.Name.Name], fd)
	var fields []*ast.Field
	if fd.Recv != nil {
		fields = append(fields, fd.Recv.List...)
	}
	fields = append(fields, fd.Type.Params.List...)
	outer := map[types.Object]bool{}
	var params []*ast.Ident
	for _, fl := range fields {
		for _, n := range fl.Names {
			if n.Name == "_" {
				continue
			}
			params = append(params, n)
			outer[u.info.Defs[n]] = true
		}
	}
	paths, ptys, proots := t.collectPaths(fd.Body.List, outer)
	plain := len(u.opaque[fd.Name.Name]) == 0
	var sliceParams []*ast.Ident
	for _, n := range params {
		obj := u.info.Defs[n]
		k, _ := classify(obj.Type())
		if supported(k) {
			f.binders = append(f.binders, binder{leanName(n.Name), leanTypeOfKind(k)})
			f.env[obj] = leanName(n.Name)
			if _, isSlice := obj.Type().Underlying().(*types.Slice); isSlice {
				sliceParams = append(sliceParams, n)
			}
			continue
		}
		for _, p := range paths {
			if proots[p] == obj {
				pn := pathName(p)
				f.binders = append(f.binders, binder{pn, t.leanType(ptys[p])})
				f.paths[p] = pn
				plain = false
			}
		}
	}
	// results
	res := fd.Type.Results
	var resTy string
	if res != nil && len(res.List) > 0 {
		sig := u.info.Defs[fd.Name].Type().(*types.Signature)
		resTy = t.leanResult(sig.Results())
		n := sig.Results().Len()
		if k, _ := classify(sig.Results().At(n - 1).Type()); k == kErr {
			f.optional = true
			n--
		}
		f.nres = n
		for _, fl := range res.List {
			if len(fl.Names) > 0 {
				t.fail(fd, "named results")
			}
		}
		if strings.Contains(resTy, "UNSUPPORTED") {
			t.fail(fd, "result type %s", sig.Results())
		}
	} else {
		// a procedure: its value is the final content of the slice parameters it writes
		written := t.assignedObjs(fd.Body.List)
		var outs []types.Object
		var tys []string
		for _, n := range sliceParams {
			if o := u.info.Defs[n]; written[o] {
				outs = append(outs, o)
				tys = append(tys, "Bytes")
			}
		}
		if len(outs) == 0 {
			t.fail(fd, "procedure without a written slice parameter")
		}
		resTy = strings.Join(tys, " × ")
		f.outs = func() string {
			var vs []string
			for _, o := range outs {
				vs = append(vs, f.env[o])
			}
			if len(vs) == 1 {
				return vs[0]
			}
			return "(" + strings.Join(vs, ", ") + ")"
		}
		plain = false
	}
	k := func() string {
		if f.outs != nil {
			return f.outs()
		}
		return t.fail(fd, "control reaches the end of a function with results")
	}
	body := t.block(fd.Body.List, 1, k)
	if plain {
		u.emitted[fd.Name.Name] = true
	}
	return t.finish(f, resTy, body)
}

func (t *tr) region(fd *ast.FuncDecl, r regionSpec) string {
	u := t.u
	stmts := t.findRegion(fd, r)
	if stmts == nil {
		return ""
	}
	f := newFctx(leanName(r.name), u.opaque[r.name])
	t.f = f
	t.opaqueBinders(f, stmts, u.opaque[r.name], fd)
	start, end := stmts[0].Pos(), stmts[len(stmts)-1].End()
	inside := func(p token.Pos) bool { return p >= start && p <= end }
	// free variables in order of first occurrence
	var free []types.Object
	seen := map[types.Object]bool{}
	for _, s := range stmts {
		ast.Inspect(s, func(n ast.Node) bool {
			id, ok := n.(*ast.Ident)
			if !ok {
				return true
			}
			v, ok := u.info.Uses[id].(*types.Var)
			if !ok || v.IsField() || seen[v] || inside(v.Pos()) || v.Parent() == u.pkg.Scope() || v.Pkg() != u.pkg {
				return true
			}
			seen[v] = true
			free = append(free, v)
			return true
		})
	}
	paths, ptys, proots := t.collectPaths(stmts, seen)
	for _, o := range free {
		k, _ := classify(o.Type())
		if supported(k) {
			bn := leanName(o.Name())
			f.binders = append(f.binders, binder{bn, leanTypeOfKind(k)})
			f.env[o] = bn
			continue
		}
		for _, p := range paths {
			if proots[p] == o {
				pn := pathName(p)
				f.binders = append(f.binders, binder{pn, t.leanType(ptys[p])})
				f.paths[p] = pn
			}
		}
	}
	// outputs
	var outs []types.Object
	for _, name := range r.outs {
		var obj types.Object
		for _, s := range stmts {
			ast.Inspect(s, func(n ast.Node) bool {
				if id, ok := n.(*ast.Ident); ok && obj == nil && id.Name == name {
					if o, ok := t.objOf(id).(*types.Var); ok && !o.IsField() {
						obj = o
					}
				}
				return true
			})
		}
		if obj == nil {
			t.fail(fd, "region %s: output variable %s does not occur", r.name, name)
			return ""
		}
		outs = append(outs, obj)
	}
	sort.SliceStable(outs, func(i, j int) bool { return false })
	var tys []string
	for _, o := range outs {
		tys = append(tys, t.leanType(o.Type()))
	}
	f.outs = func() string {
		var vs []string
		for _, o := range outs {
			v, ok := f.env[o]
			if !ok {
				return t.fail(fd, "region %s: output %s has no value at the end", r.name, o.Name())
			}
			vs = append(vs, v)
		}
		if len(vs) == 1 {
			return vs[0]
		}
		return "(" + strings.Join(vs, ", ") + ")"
	}
	body := t.block(stmts, 1, f.outs)
	hdr := fmt.Sprintf("/- region of %s: statements `%s` … `%s` -/\n", r.fn, firstLine(t.src(stmts[0])), firstLine(t.src(stmts[len(stmts)-1])))
	return hdr + t.finish(f, strings.Join(tys, " × "), body)
}

func firstLine(s string) string {
	if i := strings.IndexByte(s, '\n'); i >= 0 {
		return s[:i] + " …"
	}
	return s
}
