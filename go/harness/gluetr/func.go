//go:build verif

package main

import (
	"fmt"
	"go/ast"
	"go/token"
	"go/types"
	"sort"
	"strings"
)

// fsig: the Lean signature of an emitted function.  Implicit binders (declared callees such as a block function, and
// receiver field paths such as a_ivSize) are passed on by NAME when the function is called from a later function.
type fsig struct {
	binders  []binder
	implicit []bool
	pathSrc  map[string]string     // path binder -> printed Go path (a.ivSize)
	pathTy   map[string]types.Type // path binder -> Go type
	proc     bool  // the value is the final content of the written slice parameters (Option of it if the Go function returns an error)
	outIdx   []int // indices (among the Go parameters incl. a named receiver) of the written slice parameters
	optional bool
	nRecv    int // 1 if the Go function has a named receiver
	stateful  bool     // value = (state components…, written parameters…, results…)
	stateKeys []string // canonical paths of the state components (receiver fields, external objects), in order
	nOutPar   int
	resTys    []types.Type
	pathLean  map[string]string // path binder -> Lean type when the Go type has none (external objects)
	qual      string            // fully qualified Lean name
	nImplicit int
	consumes  bool // advances / changes an abstract object reached through one of its parameters (-step)
}

// importCallees: calls of already emitted functions / methods of this unit bring their implicit binders into the caller.
func (t *tr) importCallees(f *fctx, stmts []ast.Stmt) (extraPaths []string, extraTy map[string]types.Type) {
	extraTy = map[string]types.Type{}
	for _, s := range stmts {
		ast.Inspect(s, func(nd ast.Node) bool {
			c, ok := nd.(*ast.CallExpr)
			if !ok {
				return true
			}
			sg := t.calleeSig(c)
			if sg == nil {
				return true
			}
			for i, b := range sg.binders {
				if !sg.implicit[i] {
					continue
				}
				if src, isPath := sg.pathSrc[b.name]; isPath {
					if _, isExt := sg.pathLean[b.name]; isExt {
						continue // external objects are declared by the (inherited) -extern flags of the caller itself
					}
					src = t.mapCalleePath(c, src)
					if _, dup := extraTy[src]; !dup {
						extraPaths = append(extraPaths, src)
						extraTy[src] = sg.pathTy[b.name]
					}
					continue
				}
				if !f.hasBinder(b.name) {
					f.binders = append(f.binders, b)
				}
			}
			return true
		})
	}
	return
}

// calleeSig: the signature of an emitted function of this unit that a call targets (plain call or method call on a variable)
func (t *tr) calleeSig(c *ast.CallExpr) *fsig {
	switch x := c.Fun.(type) {
	case *ast.Ident:
		if o := t.objOf(x); o != nil && o.Parent() == t.u.pkg.Scope() {
			return t.u.sigs[x.Name]
		}
	case *ast.SelectorExpr:
		if sel, ok := t.u.info.Selections[x]; ok && sel.Kind() == types.MethodVal {
			if fn, ok := sel.Obj().(*types.Func); ok && fn.Pkg() == t.u.pkg {
				if _, isId := x.X.(*ast.Ident); isId {
					if d, ok := t.u.decls[x.Sel.Name]; ok && t.u.info.Defs[d.Name] == sel.Obj() {
						return t.u.sigs[x.Sel.Name]
					}
				}
				// a method of another receiver type of the same package, translated by an earlier unit of this run, called on a
				// variable or a field path (k.inner.M()): its receiver paths are re-rooted at the call (mapCalleePath)
				if _, isSel := x.X.(*ast.SelectorExpr); (isSel && t.isFieldPath(x.X)) || !isSel {
					rn := recvTypeName(fn)
					for _, u := range t.units {
						if u == t.u || u.pkg == nil || u.pkg.Path() != t.u.pkg.Path() || u.recv == "" || u.recv != rn {
							continue
						}
						if sg := u.sigs[x.Sel.Name]; sg != nil && !sg.proc && !sg.stateful {
							return sg
						}
					}
				}
			}
		} else if id, ok := x.X.(*ast.Ident); ok {
			// a function of an earlier unit of this run (another package)
			if pn, ok := t.objOf(id).(*types.PkgName); ok {
				if u := t.unitOfPath(pn.Imported().Path()); u != nil && u != t.u {
					if sg := u.sigs[x.Sel.Name]; sg != nil && !sg.proc && len(sg.pathSrc) == 0 {
						return sg
					}
				}
			}
		}
	}
	return nil
}

// autoHelpers: same-package functions / methods that the body calls and that are neither translated yet nor named by a flag
// are translated first, as definitions of their own, with the flags of the caller (a refactoring that extracts a helper then
// changes the generated definitions — the tie theorem decides — instead of making the translation fail).
func (t *tr) autoHelpers(fd *ast.FuncDecl) {
	u := t.u
	caller := fd.Name.Name
	var todo []string
	seen := map[string]bool{}
	ast.Inspect(fd.Body, func(nd ast.Node) bool {
		c, ok := nd.(*ast.CallExpr)
		if !ok {
			return true
		}
		name := ""
		switch x := c.Fun.(type) {
		case *ast.Ident:
			if o, isFn := t.u.info.Uses[x].(*types.Func); isFn && o.Pkg() == u.pkg {
				name = x.Name
			}
		case *ast.SelectorExpr:
			if sel, ok := u.info.Selections[x]; ok && sel.Kind() == types.MethodVal {
				if fn, ok := sel.Obj().(*types.Func); ok && fn.Pkg() == u.pkg {
					if d, ok := u.decls[x.Sel.Name]; ok && u.info.Defs[d.Name] == sel.Obj() {
						name = x.Sel.Name
					}
				}
			}
		}
		if name == "" || seen[name] || name == caller {
			return true
		}
		seen[name] = true
		if _, have := u.decls[name]; !have {
			return true
		}
		if u.sigs[name] != nil || u.emitted[name] || u.inProgress[name] || u.failedHelper[name] {
			return true
		}
		if _, isProc := u.procs[name]; isProc {
			return true
		}
		for _, k := range t.calleeKeys(c) { // abstracted by a flag: not translated
			for _, p := range t.f.patterns {
				if p == k {
					return true
				}
			}
		}
		todo = append(todo, name)
		return true
	})
	for _, name := range todo {
		hd := u.decls[name]
		// the helper inherits the caller's flags
		inherit := func(m map[string][]opq) {
			if _, own := m[name]; !own {
				m[name] = m[caller]
			}
		}
		inherit(u.opaque)
		inherit(u.block)
		inherit(u.apply)
		inherit(u.fill)
		inherit(u.ctor)
		inherit(u.inout)
		inherit(u.mutate)
		inherit(u.step)
		if _, own := u.abstract[name]; !own {
			u.abstract[name] = u.abstract[caller]
		}
		if _, own := u.extern[name]; !own {
			u.extern[name] = u.extern[caller]
			for k, v := range u.externKind {
				if strings.HasPrefix(k, caller+":") {
					u.externKind[name+":"+strings.TrimPrefix(k, caller+":")] = v
				}
			}
		}
		if u.stateful[caller] && hd.Recv != nil {
			u.stateful[name] = true
		}
		saved := t.f
		nerr, npend := len(t.errs), len(t.pending)
		u.inProgress[name] = true
		out := t.fn(hd)
		delete(u.inProgress, name)
		t.f = saved
		if len(t.errs) > nerr {
			// not translatable (e.g. it only feeds a field without a value): leave it alone; a call site that needs its value
			// fails there
			t.errs, t.pending = t.errs[:nerr], t.pending[:npend]
			u.failedHelper[name] = true
			delete(u.emitted, name) // fn may have marked a plain function as emitted before the failure showed
			delete(u.sigs, name)
			delete(u.procs, name)
			continue
		}
		t.pending = append(t.pending, "/- helper of "+caller+", translated on demand -/\n"+out+"\n")
		u.emitted[name] = true
	}
}

func supported(k kind) bool {
	return k == kByte || k == kNat || k == kInt || k == kBool || k == kBytes || k == kRec || k == kRecList || k == kSet || k == kAbs || k == kOpt || k == kMapList
}

// collectPaths finds the field paths p.f.g (of a supported type) rooted at one of the given outer variables.
func (t *tr) collectPaths(stmts []ast.Stmt, outer map[types.Object]bool) (paths []string, tys map[string]types.Type, roots map[string]types.Object, nodes map[string]ast.Expr) {
	tys = map[string]types.Type{}
	roots = map[string]types.Object{}
	nodes = map[string]ast.Expr{}
	rootOf := func(e ast.Expr) types.Object {
		for {
			switch x := e.(type) {
			case *ast.Ident:
				return t.objOf(x)
			case *ast.SelectorExpr:
				e = x.X
			case *ast.ParenExpr:
				e = x.X
			case *ast.StarExpr:
				e = x.X
			default:
				return nil
			}
		}
	}
	for _, s := range stmts {
		ast.Inspect(s, func(n ast.Node) bool {
			se, ok := n.(*ast.SelectorExpr)
			if !ok {
				return true
			}
			sel, ok := t.u.info.Selections[se]
			if !ok || sel.Kind() != types.FieldVal || !t.isFieldPath(se) {
				return true
			}
			k, _ := classify(t.typeOf(se))
			r := rootOf(se)
			if !(supported(k) || (k == kErr && !t.f.stateful)) || r == nil || !outer[r] {
				return true
			}
			src := t.pathKey(se)
			if _, dup := tys[src]; !dup {
				paths = append(paths, src)
				tys[src] = t.typeOf(se)
				roots[src] = r
				nodes[src] = se
			}
			return false
		})
	}
	return
}

func (t *tr) opaqueBinders(f *fctx, stmts []ast.Stmt, ops []opq, n ast.Node) {
	for _, o := range ops {
		var sig *types.Signature
		for _, s := range stmts {
			ast.Inspect(s, func(nd ast.Node) bool {
				if c, ok := nd.(*ast.CallExpr); ok && sig == nil && t.ck(c) == o.callee {
					sig, _ = t.typeOf(c.Fun).(*types.Signature)
				}
				return true
			})
		}
		if sig == nil {
			t.unusedFlag(n, o.callee)
			continue
		}
		var parts []string
		for _, s := range stmts {
			ast.Inspect(s, func(nd ast.Node) bool {
				if c, ok := nd.(*ast.CallExpr); ok && len(parts) == 0 && t.ck(c) == o.callee {
					if sel, ok := c.Fun.(*ast.SelectorExpr); ok {
						if kr, _ := t.kindOf(sel.X); kr == kAbs {
							parts = append(parts, t.leanType(t.typeOf(sel.X)))
						}
					}
				}
				return true
			})
		}
		np := sig.Params().Len()
		if sig.Variadic() {
			np--
		}
		for i := 0; i < np; i++ {
			if emptyStruct(sig.Params().At(i).Type()) {
				continue // a token: no information
			}
			parts = append(parts, t.leanType(sig.Params().At(i).Type()))
		}
		if sig.Variadic() {
			// a variadic callee takes as many arguments as its (unique-arity) calls here pass
			nargs := -1
			for _, s := range stmts {
				ast.Inspect(s, func(nd ast.Node) bool {
					if c, ok := nd.(*ast.CallExpr); ok && t.ck(c) == o.callee {
						if c.Ellipsis.IsValid() || (nargs >= 0 && nargs != len(c.Args)) {
							nargs = -2
						} else if nargs == -1 {
							nargs = len(c.Args)
						}
					}
					return true
				})
			}
			if nargs < np {
				t.fail(n, "variadic opaque callee %s: calls with different arities or a spread argument", o.callee)
			}
			el := sig.Params().At(np).Type().(*types.Slice).Elem()
			for i := np; i < nargs; i++ {
				parts = append(parts, t.leanType(el))
			}
		}
		res := t.leanResult(sig.Results())
		if strings.Contains(res, " ") {
			res = "(" + res + ")"
		}
		parts = append(parts, res)
		ty := strings.Join(parts, " → ")
		if strings.Contains(ty, "UNSUPPORTED") {
			t.fail(n, "opaque callee %s has an unsupported signature %s", o.callee, sig)
		}
		f.binders = append(f.binders, binder{leanName(o.name), ty})
	}
}

// blockBinders: block-cipher calls declared with -block become parameters `name : Bytes → Bytes`; -abstract callees are noted.
func (t *tr) blockBinders(f *fctx, stmts []ast.Stmt, fn string, n ast.Node) {
	for _, o := range t.u.block[fn] {
		found := false
		for _, s := range stmts {
			ast.Inspect(s, func(nd ast.Node) bool {
				if c, ok := nd.(*ast.CallExpr); ok && t.ck(c) == o.callee {
					found = true
				}
				return true
			})
		}
		if !found {
			t.unusedFlag(n, o.callee)
			continue
		}
		f.blockops[o.callee] = o
		bty := "Bytes → Bytes"
		for _, s := range stmts {
			ast.Inspect(s, func(nd ast.Node) bool {
				if c, ok := nd.(*ast.CallExpr); ok && t.ck(c) == o.callee {
					if sel, ok := c.Fun.(*ast.SelectorExpr); ok {
						if kr, _ := t.kindOf(sel.X); kr == kBytes {
							bty = "Bytes → Bytes → Bytes" // keyed by the representation of the cipher object (its key)
						}
					}
				}
				return true
			})
		}
		if !f.hasBinder(leanName(o.name)) {
			f.binders = append(f.binders, binder{leanName(o.name), bty})
		}
	}
	for _, o := range t.u.step[fn] {
		var sig *types.Signature
		var recvTy types.Type
		for _, s := range stmts {
			ast.Inspect(s, func(nd ast.Node) bool {
				if c, ok := nd.(*ast.CallExpr); ok && sig == nil && t.ck(c) == o.callee {
					sig, _ = t.typeOf(c.Fun).(*types.Signature)
					if sel, ok := c.Fun.(*ast.SelectorExpr); ok {
						recvTy = t.typeOf(sel.X)
					}
				}
				return true
			})
		}
		if sig == nil || recvTy == nil {
			continue
		}
		if kr, _ := classify(recvTy); kr != kAbs {
			t.fail(n, "-step callee %s: the receiver must be an abstract object (-abs)", o.callee)
			continue
		}
		f.stepops[o.callee] = o
		parts := []string{t.leanType(recvTy)}
		for i := 0; i < sig.Params().Len(); i++ {
			if emptyStruct(sig.Params().At(i).Type()) {
				continue
			}
			pt := t.leanType(sig.Params().At(i).Type())
			if strings.Contains(pt, " ") {
				pt = "(" + pt + ")"
			}
			parts = append(parts, pt)
		}
		var rs []string
		for i := 0; i < sig.Results().Len(); i++ {
			rs = append(rs, t.leanType(sig.Results().At(i).Type()))
		}
		rs = append(rs, t.leanType(recvTy))
		parts = append(parts, strings.Join(rs, " × "))
		if !f.hasBinder(leanName(o.name)) {
			f.binders = append(f.binders, binder{leanName(o.name), strings.Join(parts, " → ")})
		}
	}
	for _, o := range t.u.mutate[fn] {
		var sig *types.Signature
		var recvTy types.Type
		for _, s := range stmts {
			ast.Inspect(s, func(nd ast.Node) bool {
				if c, ok := nd.(*ast.CallExpr); ok && sig == nil && t.ck(c) == o.callee {
					sig, _ = t.typeOf(c.Fun).(*types.Signature)
					if sel, ok := c.Fun.(*ast.SelectorExpr); ok {
						recvTy = t.typeOf(sel.X)
					}
				}
				return true
			})
		}
		if sig == nil || recvTy == nil {
			t.unusedFlag(n, o.callee)
			continue
		}
		if kr, _ := classify(recvTy); kr != kAbs || sig.Results().Len() != 0 {
			t.fail(n, "-mutate callee %s: the receiver must be an abstract object (-abs) and the method must return nothing", o.callee)
			continue
		}
		f.mutops[o.callee] = o
		parts := []string{t.leanType(recvTy)}
		for i := 0; i < sig.Params().Len(); i++ {
			parts = append(parts, t.leanType(sig.Params().At(i).Type()))
		}
		parts = append(parts, t.leanType(recvTy))
		if !f.hasBinder(leanName(o.name)) {
			f.binders = append(f.binders, binder{leanName(o.name), strings.Join(parts, " → ")})
		}
	}
	for _, c := range t.u.abstract[fn] {
		f.abstract[c] = true
	}
	calledSig := func(callee string) *types.Signature {
		var sig *types.Signature
		for _, s := range stmts {
			ast.Inspect(s, func(nd ast.Node) bool {
				if c, ok := nd.(*ast.CallExpr); ok && sig == nil && t.ck(c) == callee {
					sig, _ = t.typeOf(c.Fun).(*types.Signature)
				}
				return true
			})
		}
		return sig
	}
	for _, o := range t.u.apply[fn] {
		sig := calledSig(o.callee)
		if sig == nil {
			t.unusedFlag(n, o.callee)
			continue
		}
		f.applyops[o.callee] = o
		ty := "Bytes → Bytes"
		for _, s := range stmts {
			ast.Inspect(s, func(nd ast.Node) bool {
				if c, ok := nd.(*ast.CallExpr); ok && t.ck(c) == o.callee && ty == "Bytes → Bytes" {
					if sel, ok := c.Fun.(*ast.SelectorExpr); ok {
						if kr, _ := t.kindOf(sel.X); kr != kBad && kr != kErr {
							ty = leanTypeOfKind(kr) + " → " + ty // keyed by the receiver's representation
						}
					}
				}
				return true
			})
		}
		if !f.hasBinder(leanName(o.name)) {
			f.binders = append(f.binders, binder{leanName(o.name), ty})
		}
	}
	for _, o := range t.u.fill[fn] {
		if calledSig(o.callee) == nil {
			t.unusedFlag(n, o.callee)
			continue
		}
		// the source of fresh bytes is a pure function of the length here, which is only faithful for ONE draw:
		// several draws (or a draw in a loop) must be translated -stateful with the source as an external object
		ncalls, inLoop := 0, false
		var walk func(nd ast.Node, loop bool)
		walk = func(nd ast.Node, loop bool) {
			ast.Inspect(nd, func(x ast.Node) bool {
				switch y := x.(type) {
				case *ast.ForStmt:
					if y != nd {
						walk(y.Body, true)
						return false
					}
				case *ast.RangeStmt:
					if y != nd {
						walk(y.Body, true)
						return false
					}
				case *ast.CallExpr:
					if t.ck(y) == o.callee {
						ncalls++
						if loop {
							inLoop = true
						}
					}
				}
				return true
			})
		}
		for _, s := range stmts {
			walk(s, false)
		}
		if ncalls != 1 || inLoop {
			t.fail(n, "-fill callee %s is called %d times (in a loop: %v): exactly one draw outside loops is supported", o.callee, ncalls, inLoop)
		}
		f.fillops[o.callee] = o
		if !f.hasBinder(leanName(o.name)) {
			f.binders = append(f.binders, binder{leanName(o.name), "Int → Bytes"})
		}
	}
	for _, o := range t.u.inout[fn] {
		sig := calledSig(o.callee)
		if sig == nil {
			t.unusedFlag(n, o.callee)
			continue
		}
		f.inouts[o.callee] = o
		var parts []string
		for i := 0; i < sig.Params().Len(); i++ {
			parts = append(parts, t.leanType(sig.Params().At(i).Type()))
		}
		parts = append(parts, "("+t.leanResult(sig.Results())+")")
		ty := strings.Join(parts, " → ")
		if strings.Contains(ty, "UNSUPPORTED") || sig.Results().Len() != 2 {
			t.fail(n, "-inout callee %s has an unsupported signature %s", o.callee, sig)
		}
		if !f.hasBinder(leanName(o.name)) {
			f.binders = append(f.binders, binder{leanName(o.name), ty})
		}
	}
	for _, o := range t.u.ctor[fn] {
		if calledSig(o.callee) == nil {
			t.unusedFlag(n, o.callee)
			continue
		}
		idx := 0
		fmt.Sscanf(o.name, "%d", &idx)
		f.ctors[o.callee] = idx
	}
}

// unusedFlag: a flag naming a callee that this function does not call is ignored (the flags of a function are inherited by the
// same-package helpers it calls, which are translated on demand; nothing is abstracted that does not occur)
func (t *tr) unusedFlag(n ast.Node, callee string) {}

func (t *tr) finish(f *fctx, resTy, body string) string {
	// for readers (and for the one-off migration of proofs written against the old, Go-named definitions):
	// canonical name = Go local (source line)
	var cm strings.Builder
	cm.WriteString("/- names of " + f.name + ":")
	for i, n := range f.names {
		if i%4 == 0 {
			cm.WriteString("\n    ")
		}
		short := strings.TrimPrefix(n.canon, f.name+".")
		cm.WriteString(fmt.Sprintf("%s = %s (l.%d); ", short, n.goName, n.line))
		if t.nameMap != nil && strings.Contains(n.canon, ".") {
			t.nameMap = append(t.nameMap, [2]string{t.u.sub + "." + n.legacy, t.u.sub + "." + n.canon})
		}
	}
	cm.WriteString("\n-/\n")
	return cm.String() + strings.Join(f.aux, "\n") + "\n" + fmt.Sprintf("def %s %s : %s :=\n%s\n", f.name, f.binderDecl(), resTy, body)
}

func (t *tr) fn(fd *ast.FuncDecl) string {
	u := t.u
	f := newFctx(leanName(fd.Name.Name), u.opaque[fd.Name.Name])
	t.f = f
	f.stateful = u.stateful[fd.Name.Name]
	f.goSig, _ = u.info.Defs[fd.Name].Type().(*types.Signature)
	f.patterns = u.patternsOf(fd.Name.Name)
	f.fnName = fd.Name.Name
	f.everAssigned = map[types.Object]bool{}
	if fd.Body != nil {
		f.everAssigned = t.assignedObjs(fd.Body.List)
		if f.goSig != nil {
			t.scanNils(fd.Body, f.goSig.Results())
		}
	}
	// canonical roots: the receiver is r, the i-th parameter a<i> (positions count unnamed parameters too)
	if fd.Recv != nil {
		for _, fl := range fd.Recv.List {
			for _, n := range fl.Names {
				if n.Name != "_" {
					f.rootCanon[u.info.Defs[n]] = "r"
					f.goParams[n.Name] = "r"
				}
			}
		}
	}
	{
		i := 0
		for _, fl := range fd.Type.Params.List {
			if len(fl.Names) == 0 {
				i++
			}
			for _, n := range fl.Names {
				if n.Name != "_" {
					f.rootCanon[u.info.Defs[n]] = fmt.Sprintf("a%d", i)
					f.goParams[n.Name] = fmt.Sprintf("a%d", i)
				}
				i++
			}
		}
	}
	for _, an := range u.absNames() {
		f.binders = append(f.binders, binder{an, "Type"})
	}
	if f.goSig != nil && f.goSig.Recv() != nil {
		rt := f.goSig.Recv().Type()
		if p, ok := rt.(*types.Pointer); ok {
			rt = p.Elem()
		}
		if n, ok := rt.(*types.Named); ok && n.TypeParams() != nil {
			for i := 0; i < n.TypeParams().Len(); i++ {
				pn := n.TypeParams().At(i).Obj().Name()
				if !f.hasBinder(pn) {
					f.binders = append(f.binders, binder{pn, "Type"})
					f.binders = append(f.binders, binder{pn + "_zero", pn}) // the zero value of the type parameter
				}
			}
		}
	}
	// external stateful objects: an abstract state type per object, the callee as a function on it
	var externVars []*types.Var
	if f.stateful {
		seenPath := map[string]bool{}
		for _, e := range u.extern[fd.Name.Name] {
			goPath := e.path
			e.path = t.canonPathFlag(e.path)
			f.legacyOf[pathName(e.path)] = pathName(goPath)
			f.externs = append(f.externs, e)
			f.externRead[e.callee] = u.externKind[fd.Name.Name+":"+e.callee] == "read"
			sty := "S_" + pathName(e.path)
			if !seenPath[e.path] {
				seenPath[e.path] = true
				f.binders = append(f.binders, binder{sty, "Type"})
				var node ast.Expr
				ast.Inspect(fd.Body, func(nd ast.Node) bool {
					if se, ok := nd.(*ast.SelectorExpr); ok && node == nil && t.isFieldPath(se) && t.pathKey(se) == e.path {
						node = se
					}
					return true
				})
				var v *types.Var
				if !strings.Contains(e.path, ".") {
					// a global object (the random source): not a field of anything here
					v = t.pathVarNamed(e.path, fd.Pos(), types.Typ[types.Invalid])
				} else if node == nil {
					// not mentioned here (a helper called from here may use it): still a parameter and a state component
					v = t.pathVarNamed(e.path, fd.Pos(), types.Typ[types.Invalid])
				} else {
					v = t.pathVarNamed(e.path, node.Pos(), t.typeOf(node))
				}
				f.typeOverride[v] = sty
				externVars = append(externVars, v)
			}
		}
		for _, e := range f.externs {
			sty := "S_" + pathName(e.path)
			ty := sty + " → Bytes → Int × Nat × " + sty
			if f.externRead[e.callee] {
				ty = sty + " → Int → Bytes × Nat × " + sty
			}
			if u.externKind[fd.Name.Name+":"+e.callee] == "value" {
				// callee() T: the object hands out one value
				var rt types.Type
				ast.Inspect(fd.Body, func(nd ast.Node) bool {
					if c, ok := nd.(*ast.CallExpr); ok && rt == nil && t.ck(c) == e.callee {
						rt = t.typeOf(c)
					}
					return true
				})
				if rt == nil {
					continue
				}
				ty = sty + " → " + t.leanType(rt) + " × " + sty
				f.externValue[e.callee] = true
			}
			if !f.hasBinder(leanName(e.name)) {
				f.binders = append(f.binders, binder{leanName(e.name), ty})
			}
		}
	} else if len(u.extern[fd.Name.Name]) > 0 {
		t.fail(fd, "-extern needs -stateful")
	}
	if hasWhile(t, fd.Body.List) {
		f.binders = append(f.binders, binder{"fuel", "Nat"})
	}
	t.opaqueBinders(f, fd.Body.List, u.opaque[fd.Name.Name], fd)
	t.blockBinders(f, fd.Body.List, fd.Name.Name, fd)
	t.absNilBinders(f, fd.Body.List)
	nImplicitHead := len(f.binders)
	t.autoHelpers(fd)
	extraPaths, extraTy := t.importCallees(f, fd.Body.List)
	nImplicitHead = len(f.binders)
	sg := &fsig{pathSrc: map[string]string{}, pathTy: map[string]types.Type{}, pathLean: map[string]string{}}
	var fields []*ast.Field
	if fd.Recv != nil {
		fields = append(fields, fd.Recv.List...)
	}
	fields = append(fields, fd.Type.Params.List...)
	outer := map[types.Object]bool{}
	var params []*ast.Ident
	for _, fl := range fields {
		for _, n := range fl.Names {
			if n.Name == "_" {
				continue
			}
			params = append(params, n)
			outer[u.info.Defs[n]] = true
		}
	}
	paths, ptys, proots, pnodes := t.collectPaths(fd.Body.List, outer)
	// receiver field paths that only a callee uses (the receiver has the same name in all methods of a type)
	for _, p := range extraPaths {
		if _, have := ptys[p]; have {
			continue
		}
		rootName, _, _ := strings.Cut(p, ".")
		for o := range outer {
			if o != nil && f.rootCanon[o] == rootName {
				paths = append(paths, p)
				ptys[p] = extraTy[p]
				proots[p] = o
			}
		}
		if _, ok := ptys[p]; !ok {
			t.fail(fd, "a callee needs %s, which is not a field path of a parameter here", p)
		}
	}
	plain := nImplicitHead == 0 && len(u.apply[fd.Name.Name]) == 0 && len(u.fill[fd.Name.Name]) == 0
	var sliceParams []*ast.Ident
	for _, n := range params {
		obj := u.info.Defs[n]
		k, _ := classify(obj.Type())
		if supported(k) {
			f.binders = append(f.binders, binder{f.rootCanon[obj], t.leanType(obj.Type())})
			f.env[obj] = f.rootCanon[obj]
			t.rank(obj)
			f.names = append(f.names, nameRec{f.rootCanon[obj], n.Name, leanName(n.Name), t.fset.Position(n.Pos()).Line})
			if _, isSlice := obj.Type().Underlying().(*types.Slice); isSlice && k == kBytes {
				sliceParams = append(sliceParams, n)
			} else if _, isPtr := obj.Type().Underlying().(*types.Pointer); isPtr && k == kBytes {
				sliceParams = append(sliceParams, n) // pointer to a byte array: writes through it are visible to the caller
			}
			if k != kAbs {
				continue
			}
			// an abstract object: its fields that are read are further (independent) abstract parameters
		}
		for _, p := range paths {
			if proots[p] == obj {
				pn := pathName(p)
				f.binders = append(f.binders, binder{pn, t.leanType(ptys[p])})
				var pv *types.Var
				if nd, ok := pnodes[p]; ok {
					pv = t.pathVar(nd)
				} else {
					pv = t.pathVarNamed(p, fd.Pos(), ptys[p])
				}
				f.env[pv] = pn
				sg.pathSrc[pn] = p
				sg.pathTy[pn] = ptys[p]
				plain = false
			}
		}
	}
	for _, v := range externVars {
		if f.hasBinder(v.Name()) {
			continue
		}
		f.binders = append(f.binders, binder{v.Name(), f.typeOverride[v]})
		f.env[v] = v.Name()
		for key, pv := range f.pvars {
			if pv == v {
				sg.pathSrc[v.Name()] = key
				sg.pathLean[v.Name()] = f.typeOverride[v]
			}
		}
		plain = false
	}
	t.scanClosures(fd.Body.List)
	t.findViews(fd.Body.List)
	// results
	res := fd.Type.Results
	var resTy string
	errOnly := false
	if f.stateful {
		t.statefulSetup(fd, outer)
		sp := t.storedObjs(fd.Body.List)
		for o := range sp {
			if r, ok := f.viewRoot[o]; ok {
				sp[r] = true
			}
		}
		var tys []string
		for _, o := range f.stateObjs {
			tys = append(tys, t.leanTypeOfObj(o))
		}
		for _, pn := range sliceParams {
			if o := u.info.Defs[pn]; sp[o] {
				f.outParams = append(f.outParams, o)
				tys = append(tys, "Bytes")
			}
		}
		for i := 0; i < f.goSig.Results().Len(); i++ {
			tys = append(tys, t.leanType(f.goSig.Results().At(i).Type()))
		}
		if len(tys) == 0 {
			t.fail(fd, "stateful function without state, written parameters or results")
		}
		resTy = strings.Join(tys, " × ")
		if strings.Contains(resTy, "UNSUPPORTED") {
			t.fail(fd, "result type of stateful %s: %s", fd.Name.Name, resTy)
		}
		plain = false
	} else if res != nil && len(res.List) > 0 {
		sig := u.info.Defs[fd.Name].Type().(*types.Signature)
		resTy = t.leanResult(t.dynResults(fd, sig.Results()))
		n := sig.Results().Len()
		if k, _ := classify(sig.Results().At(n - 1).Type()); k == kErr {
			f.optional = true
			n--
		}
		f.nres = n
		for _, fl := range res.List {
			if len(fl.Names) > 0 {
				t.fail(fd, "named results")
			}
		}
		if strings.Contains(resTy, "UNSUPPORTED") {
			t.fail(fd, "result type %s", sig.Results())
		}
		// slice parameters whose content is written: with an error-only result they are the value of the function
		// (a procedure that can fail); otherwise every return must hand the written parameter back
		stored := t.assignedObjs(fd.Body.List)
		sp := t.storedObjs(fd.Body.List)
		for o := range sp {
			if r, ok := f.viewRoot[o]; ok {
				sp[r] = true
			}
		}
		var storedParams []types.Object
		for _, pn := range sliceParams {
			if o := u.info.Defs[pn]; stored[o] && sp[o] {
				storedParams = append(storedParams, o)
			}
		}
		if len(storedParams) > 0 {
			if n == 0 && f.optional {
				errOnly = true
			} else {
				for _, o := range storedParams {
					visible := true
					ast.Inspect(fd.Body, func(nd ast.Node) bool {
						switch x := nd.(type) {
						case *ast.FuncLit:
							return false
						case *ast.ReturnStmt:
							if len(x.Results) == 0 {
								return true
							}
							if f.optional {
								if last, ok := x.Results[len(x.Results)-1].(*ast.Ident); !ok || last.Name != "nil" {
									return true // error return: the buffer content is unspecified
								}
							}
							found := false
							for _, r := range x.Results {
								if rootIs(t, r, o) {
									found = true
								}
							}
							if !found {
								visible = false
							}
						}
						return true
					})
					if !visible {
						t.fail(fd, "the content of parameter %s is written but not part of the results", o.Name())
					}
				}
			}
		}
	}
	if !f.stateful && (res == nil || len(res.List) == 0 || errOnly) {
		// a procedure: its value is the final content of the slice parameters whose content it writes
		// (re-slicing a parameter, `in = in[n:]`, only changes the local slice header)
		written := t.storedObjs(fd.Body.List)
		for o := range written {
			if r, ok := f.viewRoot[o]; ok {
				written[r] = true
			}
		}
		var outs []types.Object
		var tys []string
		for _, n := range sliceParams {
			if o := u.info.Defs[n]; written[o] {
				outs = append(outs, o)
				tys = append(tys, "Bytes")
			}
		}
		if len(outs) == 0 {
			t.fail(fd, "procedure without a written slice parameter")
		}
		for i, n := range params {
			for _, o := range outs {
				if u.info.Defs[n] == o {
					sg.outIdx = append(sg.outIdx, i) // index among the Go parameters (receiver first, if named)
				}
			}
		}
		sg.optional = errOnly
		if len(outs) == 1 && plain {
			// callable as a statement from later functions of this unit
			for i, n := range params {
				if u.info.Defs[n] == outs[0] && len(params) == len(f.binders) {
					defer func(i int) { u.procs[fd.Name.Name] = i }(i)
				}
			}
		}
		resTy = strings.Join(tys, " × ")
		if errOnly {
			if len(tys) > 1 {
				resTy = "(" + resTy + ")"
			}
			resTy = "Option " + resTy
		}
		f.outs = func() string {
			var vs []string
			for _, o := range outs {
				vs = append(vs, f.env[o])
			}
			if len(vs) == 1 {
				return vs[0]
			}
			return "(" + strings.Join(vs, ", ") + ")"
		}
		plain = false
	}
	k := func() string {
		if f.stateful && f.goSig.Results().Len() == 0 {
			return t.statefulRet(&ast.ReturnStmt{}, f.goSig)
		}
		if f.outs != nil {
			return f.outs()
		}
		return t.fail(fd, "control reaches the end of a function with results")
	}
	f.resTy = resTy
	sg.binders = append([]binder{}, f.binders...)
	sg.qual = t.ns + "." + u.sub + "." + leanName(fd.Name.Name)
	for i, b := range sg.binders {
		_, isPath := sg.pathSrc[b.name]
		sg.implicit = append(sg.implicit, i < nImplicitHead || isPath)
		if i < nImplicitHead || isPath {
			sg.nImplicit++
		}
	}
	sg.proc = f.outs != nil
	body := t.block(fd.Body.List, 1, k)
	sg.consumes = f.consumesParams
	if !f.stateful {
		// never drop a state change silently: assigning a field of the receiver / a pointer parameter needs -stateful
		isPath := map[types.Object]string{}
		for src, v := range f.pvars {
			isPath[v] = src
		}
		for o := range t.assignedObjs(fd.Body.List) {
			if src, ok := isPath[o]; ok {
				root, _, _ := strings.Cut(src, ".")
				for po := range outer {
					if po != nil && f.rootCanon[po] == root {
						t.fail(fd, "%s writes %s: translate it with -stateful", fd.Name.Name, src)
					}
				}
			}
		}
	}
	if plain {
		u.emitted[fd.Name.Name] = true
	}
	if f.stateful {
		sg.proc, sg.stateful = true, true
		sg.outIdx = nil
		for _, o := range f.stateObjs {
			for key, pv := range f.pvars {
				if types.Object(pv) == o {
					sg.stateKeys = append(sg.stateKeys, key)
				}
			}
		}
		for _, o := range f.outParams {
			for i, n := range params {
				if u.info.Defs[n] == o {
					sg.outIdx = append(sg.outIdx, i)
				}
			}
		}
		sg.nOutPar = len(f.outParams)
		for i := 0; i < f.goSig.Results().Len(); i++ {
			sg.resTys = append(sg.resTys, f.goSig.Results().At(i).Type())
		}
	}
	if fd.Recv != nil && len(fd.Recv.List) > 0 && len(fd.Recv.List[0].Names) > 0 && fd.Recv.List[0].Names[0].Name != "_" {
		sg.nRecv = 1
	}
	if _, plainProc := u.procs[fd.Name.Name]; !plainProc {
		nerr0 := len(t.errs)
		defer func() {
			if _, plainProc := u.procs[fd.Name.Name]; !plainProc && !(u.inProgress[fd.Name.Name] && len(t.errs) > nerr0) {
				u.sigs[fd.Name.Name] = sg
			}
		}()
	}
	return t.finish(f, resTy, body)
}

func (t *tr) region(fd *ast.FuncDecl, r regionSpec) string {
	u := t.u
	stmts := t.findRegion(fd, r)
	if stmts == nil {
		return ""
	}
	f := newFctx(leanName(r.name), u.opaque[r.name])
	t.f = f
	for _, an := range u.absNames() {
		f.binders = append(f.binders, binder{an, "Type"})
	}
	if hasWhile(t, stmts) {
		f.binders = append(f.binders, binder{"fuel", "Nat"})
	}
	t.opaqueBinders(f, stmts, u.opaque[r.name], fd)
	t.blockBinders(f, stmts, r.name, fd)
	start, end := stmts[0].Pos(), stmts[len(stmts)-1].End()
	inside := func(p token.Pos) bool { return p >= start && p <= end }
	// free variables in order of first occurrence
	var free []types.Object
	seen := map[types.Object]bool{}
	for _, s := range stmts {
		ast.Inspect(s, func(n ast.Node) bool {
			id, ok := n.(*ast.Ident)
			if !ok {
				return true
			}
			v, ok := u.info.Uses[id].(*types.Var)
			if !ok || v.IsField() || seen[v] || inside(v.Pos()) || v.Parent() == u.pkg.Scope() || v.Pkg() != u.pkg {
				return true
			}
			seen[v] = true
			free = append(free, v)
			return true
		})
	}
	f.patterns = u.patternsOf(r.name)
	for i, o := range free {
		// the free variables of a region are its parameters a0, a1, … in order of first occurrence
		f.rootCanon[o] = fmt.Sprintf("a%d", i)
		f.goParams[o.Name()] = f.rootCanon[o]
	}
	paths, ptys, proots, pnodes := t.collectPaths(stmts, seen)
	for _, o := range free {
		k, _ := classify(o.Type())
		if supported(k) {
			bn := f.rootCanon[o]
			f.binders = append(f.binders, binder{bn, t.leanType(o.Type())})
			f.env[o] = bn
			t.rank(o)
			f.names = append(f.names, nameRec{bn, o.Name(), leanName(o.Name()), t.fset.Position(o.Pos()).Line})
			continue
		}
		for _, p := range paths {
			if proots[p] == o {
				pn := pathName(p)
				f.binders = append(f.binders, binder{pn, t.leanType(ptys[p])})
				f.env[t.pathVar(pnodes[p])] = pn
			}
		}
	}
	// outputs
	var outs []types.Object
	for _, name := range r.outs {
		var obj types.Object
		for _, s := range stmts {
			ast.Inspect(s, func(n ast.Node) bool {
				if id, ok := n.(*ast.Ident); ok && obj == nil && id.Name == name {
					if o, ok := t.objOf(id).(*types.Var); ok && !o.IsField() {
						obj = o
					}
				}
				return true
			})
		}
		if obj == nil {
			t.fail(fd, "region %s: output variable %s does not occur", r.name, name)
			return ""
		}
		outs = append(outs, obj)
	}
	sort.SliceStable(outs, func(i, j int) bool { return false })
	var tys []string
	for _, o := range outs {
		tys = append(tys, t.leanType(o.Type()))
	}
	f.outs = func() string {
		var vs []string
		for _, o := range outs {
			v, ok := f.env[o]
			if !ok {
				return t.fail(fd, "region %s: output %s has no value at the end", r.name, o.Name())
			}
			vs = append(vs, v)
		}
		if len(vs) == 1 {
			return vs[0]
		}
		return "(" + strings.Join(vs, ", ") + ")"
	}
	t.scanClosures(stmts)
	t.findViews(stmts)
	f.resTy = strings.Join(tys, " × ")
	body := t.block(stmts, 1, f.outs)
	hdr := fmt.Sprintf("/- region of %s: statements `%s` … `%s` -/\n", r.fn, firstLine(t.src(stmts[0])), firstLine(t.src(stmts[len(stmts)-1])))
	return hdr + t.finish(f, strings.Join(tys, " × "), body)
}

func firstLine(s string) string {
	if i := strings.IndexByte(s, '\n'); i >= 0 {
		return s[:i] + " …"
	}
	return s
}

// absNilBinders: `x == nil` / `x != nil` on an abstract object asks the abstract predicate <Type>_isNil
func (t *tr) absNilBinders(f *fctx, stmts []ast.Stmt) {
	for _, s := range stmts {
		ast.Inspect(s, func(nd ast.Node) bool {
			if es, ok := nd.(*ast.ExprStmt); ok && t.isIgnored(es) {
				return false // dropped monitoring calls do not contribute
			}
			if c, ok := nd.(*ast.CallExpr); ok && len(c.Args) == 2 {
				for _, o := range t.u.read[f.fnName] {
					if t.ck(c) == o.callee {
						f.readops[o.callee] = o
						if !f.hasBinder(leanName(o.name)) {
							f.binders = append(f.binders, binder{leanName(o.name), t.leanType(t.typeOf(c.Args[0])) + " → Int → Option Bytes"})
						}
					}
				}
			}
			if ta, ok := nd.(*ast.TypeAssertExpr); ok && ta.Type != nil {
				// v, ok := x.(T) on abstract types: the abstract partial cast <X>_as_<T>
				if k1, _ := classify(t.typeOf(ta.X)); k1 == kAbs {
					if k2, _ := classify(t.typeOf(ta.Type)); k2 == kAbs {
						a1, _ := absTypeOf(t.typeOf(ta.X))
						a2, _ := absTypeOf(t.typeOf(ta.Type))
						if !f.hasBinder(a1 + "_as_" + a2) {
							f.binders = append(f.binders, binder{a1 + "_as_" + a2, a1 + " → " + a2 + " × Bool"})
						}
					}
				}
			}
			if cl, ok := nd.(*ast.CompositeLit); ok {
				if k, _ := classify(t.typeOf(cl)); k == kAbs {
					an, _ := absTypeOf(t.typeOf(cl))
					switch u := t.typeOf(cl).Underlying().(type) {
					case *types.Map:
						if len(cl.Elts) == 0 && !f.hasBinder(an+"_empty") {
							f.binders = append(f.binders, binder{an + "_empty", an}) // map[K]V{}: the empty abstract map
						}
					case *types.Struct:
						// T{f: e, …} of an abstract struct type: the abstract constructor applied to ALL fields in declaration order
						if len(cl.Elts) == u.NumFields() && !f.hasBinder(an+"_mk") {
							var ps []string
							okAll := true
							for i := 0; i < u.NumFields(); i++ {
								if kf, _ := classify(u.Field(i).Type()); !supported(kf) {
									okAll = false
								}
								ft := t.leanType(u.Field(i).Type())
								if strings.Contains(ft, " ") {
									ft = "(" + ft + ")"
								}
								ps = append(ps, ft)
							}
							if okAll {
								f.binders = append(f.binders, binder{an + "_mk", strings.Join(append(ps, an), " → ")})
							}
						}
					}
				}
			}
			if as, ok := nd.(*ast.AssignStmt); ok && as.Tok == token.ASSIGN && len(as.Lhs) == 1 && len(as.Rhs) == 1 {
				if ie, ok := as.Lhs[0].(*ast.IndexExpr); ok {
					if k, _ := classify(t.typeOf(ie.X)); k == kAbs {
						if mt, isMap := t.typeOf(ie.X).Underlying().(*types.Map); isMap {
							an, _ := absTypeOf(t.typeOf(ie.X))
							vt := t.leanType(t.typeOf(as.Rhs[0]))
							if !f.hasBinder(an+"_set") && !strings.Contains(vt, "UNSUPPORTED") {
								if strings.Contains(vt, " ") {
									vt = "(" + vt + ")"
								}
								f.binders = append(f.binders, binder{an + "_set", an + " → " + t.leanType(mt.Key()) + " → " + vt + " → " + an})
							}
						}
					}
				}
			}
			if ie, ok := nd.(*ast.IndexExpr); ok {
				// m[k] on an abstract map: only the comma-ok presence test `_, ok := m[k]` is translated: <Type>_has
				if k, _ := classify(t.typeOf(ie.X)); k == kAbs {
					if mt, isMap := t.typeOf(ie.X).Underlying().(*types.Map); isMap {
						an, _ := absTypeOf(t.typeOf(ie.X))
						if !f.hasBinder(an + "_has") {
							f.binders = append(f.binders, binder{an + "_has", an + " → " + t.leanType(mt.Key()) + " → Bool"})
						}
					}
				}
			}
			if se, ok := nd.(*ast.SelectorExpr); ok {
				if sel, ok := t.u.info.Selections[se]; ok && sel.Kind() == types.FieldVal {
					if t.absLocalBase(se.X) {
						if kb, _ := classify(t.typeOf(se.X)); kb == kAbs {
							if kf, _ := classify(t.typeOf(se)); supported(kf) {
								an, _ := absTypeOf(t.typeOf(se.X))
								if !f.hasBinder(an + "_" + se.Sel.Name) {
									f.binders = append(f.binders, binder{an + "_" + se.Sel.Name, an + " → " + t.leanType(t.typeOf(se))})
								}
							}
						}
					}
				}
			}
			be, ok := nd.(*ast.BinaryExpr)
			if !ok || (be.Op != token.EQL && be.Op != token.NEQ) {
				return true
			}
			for _, pr := range [][2]ast.Expr{{be.X, be.Y}, {be.Y, be.X}} {
				if id, ok := pr[1].(*ast.Ident); ok && id.Name == "nil" {
					if k, _ := classify(t.typeOf(pr[0])); k == kRecList {
						// nil-ness of a slice field of the receiver / a parameter at entry: an abstract Bool (a List cannot tell nil from empty);
						// only before the field is assigned
						if se, ok := pr[0].(*ast.SelectorExpr); ok && t.isFieldPath(se) {
							key := t.pathKey(se)
							early := false
							for _, s2 := range stmts {
								ast.Inspect(s2, func(n2 ast.Node) bool {
									if as, ok := n2.(*ast.AssignStmt); ok && as.Pos() < be.Pos() {
										for _, l := range as.Lhs {
											if ls, ok := l.(*ast.SelectorExpr); ok && t.isFieldPath(ls) && t.pathKey(ls) == key {
												early = true
											}
										}
									}
									return true
								})
							}
							bn := pathName(key) + "_isNil"
							if !early && !f.hasBinder(bn) {
								f.binders = append(f.binders, binder{bn, "Bool"})
							}
						}
					}
					if k, _ := classify(t.typeOf(pr[0])); k == kAbs {
						an, _ := absTypeOf(t.typeOf(pr[0]))
						if !f.hasBinder(an + "_isNil") {
							f.binders = append(f.binders, binder{an + "_isNil", an + " → Bool"})
						}
					}
				}
			}
			return true
		})
	}
}

func recvTypeName(fn *types.Func) string {
	sig, _ := fn.Type().(*types.Signature)
	if sig == nil || sig.Recv() == nil {
		return ""
	}
	ty := sig.Recv().Type()
	if p, ok := ty.(*types.Pointer); ok {
		ty = p.Elem()
	}
	if n, ok := ty.(*types.Named); ok {
		return n.Obj().Name()
	}
	return ""
}

// mapCalleePath: a field path of the callee rooted at its receiver (`r.x`) seen from the call `k.inner.M()` is the path
// `<key of k.inner>.x` of the caller.  (A call on the caller's own receiver maps r to r.)
func (t *tr) mapCalleePath(c *ast.CallExpr, src string) string {
	root, rest, has := strings.Cut(src, ".")
	if root != "r" {
		return src
	}
	sel, ok := c.Fun.(*ast.SelectorExpr)
	if !ok {
		return src
	}
	if s, ok := t.u.info.Selections[sel]; !ok || s.Kind() != types.MethodVal {
		return src
	}
	key := t.pathKey(sel.X)
	if !has {
		return key
	}
	return key + "." + rest
}

// absLocalBase: an expression denoting an abstract object that is not (a field path of) a parameter / the receiver: the result
// of a call, or a local variable (a loop variable, a value returned by an iterator).  Its fields are abstract projections.
func (t *tr) absLocalBase(e ast.Expr) bool {
	switch x := e.(type) {
	case *ast.CallExpr:
		return true
	case *ast.ParenExpr:
		return t.absLocalBase(x.X)
	case *ast.Ident:
		o := t.objOf(x)
		if o == nil {
			return false
		}
		if _, isParam := t.f.rootCanon[o]; isParam {
			return false
		}
		_, isVar := o.(*types.Var)
		return isVar && o.Parent() != t.u.pkg.Scope()
	}
	return false
}

// dynResults: a result declared as the empty interface (`any`) whose every return statement hands out a value of one and the
// same static type T (or nil together with an error) is typed T
func (t *tr) dynResults(fd *ast.FuncDecl, res *types.Tuple) *types.Tuple {
	var vars []*types.Var
	changed := false
	for i := 0; i < res.Len(); i++ {
		v := res.At(i)
		if _, ok := v.Type().Underlying().(*types.Interface); ok && !isErrorType(v.Type()) {
			var dyn types.Type
			okAll := true
			ast.Inspect(fd.Body, func(nd ast.Node) bool {
				if _, isLit := nd.(*ast.FuncLit); isLit {
					return false
				}
				r, ok := nd.(*ast.ReturnStmt)
				if ok && len(r.Results) == 1 && res.Len() > 1 {
					// return g(…): the callee's tuple
					if tup, isTup := t.typeOf(r.Results[0]).(*types.Tuple); isTup && tup.Len() == res.Len() {
						ty := tup.At(i).Type()
						if dyn == nil {
							dyn = ty
						} else if !types.Identical(dyn, ty) {
							okAll = false
						}
						return true
					}
				}
				if !ok || len(r.Results) != res.Len() {
					if ok {
						okAll = false
					}
					return true
				}
				if id, isId := r.Results[i].(*ast.Ident); isId && id.Name == "nil" {
					return true
				}
				ty := t.typeOf(r.Results[i])
				if ty == nil {
					okAll = false
				} else if dyn == nil {
					dyn = ty
				} else if !types.Identical(dyn, ty) {
					okAll = false
				}
				return true
			})
			if _, dynIsIface := func() (struct{}, bool) {
				if dyn == nil {
					return struct{}{}, true
				}
				_, is := dyn.Underlying().(*types.Interface)
				return struct{}{}, is
			}(); okAll && dyn != nil && !dynIsIface {
				vars = append(vars, types.NewVar(v.Pos(), v.Pkg(), v.Name(), dyn))
				changed = true
				continue
			}
		}
		vars = append(vars, v)
	}
	if !changed {
		return res
	}
	return types.NewTuple(vars...)
}

func isErrorType(ty types.Type) bool {
	n, ok := ty.(*types.Named)
	return ok && n.Obj().Pkg() == nil && n.Obj().Name() == "error"
}
