//go:build verif

package main

import (
	"fmt"
	"go/ast"
	"go/token"
	"go/types"
	"sort"
	"strings"
)

// RECORDS (-record pkg.Type=f1,f2,g.h,…): pointers to the named struct type are values of a generated Lean structure with
// the listed fields (a dotted path g.h is the field g_h; a pointer-typed path p is the Bool field p_isNil; every record
// has the Bool field isNil for the pointer itself).  A field is read as `x.f`, `x.g.h`, or through protobuf-style getters
// `x.GetF()`, `x.GetG().GetH()` — the record's field is the GETTER's value (zero when an intermediate pointer is nil).
// `[]*T` is `List T`; `for i, x := range l` folds over it (GoSem.forEachSteps); `slices.ContainsFunc(l, func(x *T) bool {…})`
// is `List.any`.  `map[K]bool` used as a set (only `m[k] = true` stores) is a `List` of keys: `m[k]` and the comma-ok
// form are membership, the store is `k :: m`.
const (
	kRec kind = iota + 100
	kRecList
	kSet
	kAbs // a named Go type (an interface such as a hash or MAC object) represented by an abstract Lean type (-abs)
	kMapList // map[string][]T (T a list element type): a function from byte strings to lists (missing key: the empty list)
	kOpt // *string, *uint32, *bool, …: a pointer to a basic value that is only tested for nil, dereferenced, or made by &x: Option
)

// optElem: the pointee of a pointer to a basic value
func optElem(ty types.Type) (types.Type, bool) {
	p, ok := ty.Underlying().(*types.Pointer)
	if !ok {
		return nil, false
	}
	if _, isBasic := p.Elem().Underlying().(*types.Basic); !isBasic {
		return nil, false
	}
	if k, _ := classifyBasicAny(p.Elem()); k == kBad {
		return nil, false
	}
	return p.Elem(), true
}

func classifyBasicAny(ty types.Type) (kind, int) {
	if b, ok := ty.Underlying().(*types.Basic); ok {
		switch b.Kind() {
		case types.Uint8:
			return kByte, 8
		case types.Uint16, types.Uint32, types.Uint64, types.Uint:
			return kNat, 64
		case types.Int32, types.Int, types.Int64:
			return kInt, 64
		case types.Bool:
			return kBool, 0
		case types.String:
			return kBytes, 0
		}
	}
	return kBad, 0
}

// listElem: element type of a slice that is translated as a Lean List (records, abstract objects, strings, byte slices)
// seqElem: iter.Seq[T] (a range-over-func iterator) for an abstract / record T is the list of the values it yields
func seqElem(ty types.Type) (types.Type, bool) {
	n, ok := ty.(*types.Named)
	if !ok || n.Obj().Pkg() == nil || n.Obj().Pkg().Path() != "iter" || n.Obj().Name() != "Seq" || n.TypeArgs() == nil || n.TypeArgs().Len() != 1 {
		return nil, false
	}
	el := n.TypeArgs().At(0)
	if _, ok := absTypeOf(el); ok {
		return el, true
	}
	if len(recordSpecs) > 0 && recordOf(el) != nil {
		return el, true
	}
	return nil, false
}

func listElem(ty types.Type) (types.Type, bool) {
	if el, ok := seqElem(ty); ok {
		return el, true
	}
	sl, ok := ty.Underlying().(*types.Slice)
	if !ok {
		return nil, false
	}
	if len(recordSpecs) > 0 && recordOf(sl.Elem()) != nil {
		return sl.Elem(), true
	}
	if _, ok := absTypeOf(sl.Elem()); ok {
		return sl.Elem(), true
	}
	if k, _ := classifyBasicAny(sl.Elem()); k == kBytes {
		return sl.Elem(), true // []string
	}
	if in, ok := sl.Elem().Underlying().(*types.Slice); ok {
		if k, _ := classifyBasicAny(in.Elem()); k == kByte {
			return sl.Elem(), true // [][]byte
		}
	}
	return nil, false
}

// absTypes: pkgpath.Type -> name of the Lean type variable standing for it (current unit)
var absTypes map[string]string

func absTypeOf(ty types.Type) (string, bool) {
	if ty == nil {
		return "", false
	}
	if tp, ok := ty.(*types.TypeParam); ok {
		return tp.Obj().Name(), true // a type parameter of a generic type is an abstract Lean type of the same name
	}
	if len(absTypes) == 0 {
		return "", false
	}
	if p, ok := ty.(*types.Pointer); ok {
		ty = p.Elem()
	}
	if n, ok := ty.(*types.Named); ok && n.Obj().Pkg() != nil {
		s, ok := absTypes[n.Obj().Pkg().Path()+"."+n.Obj().Name()]
		return s, ok
	}
	switch ty.(type) {
	case *types.Map, *types.Signature:
		// an unnamed map / function type named by its printed form: -abs 'map[string]*pkg/path.T=Name'
		s, ok := absTypes[types.TypeString(ty, nil)]
		return s, ok
	}
	return "", false
}

type recInfo struct {
	key      string // pkgname.Type as given on the command line
	lean     string // Lean structure name
	named    *types.Named
	fields   []string // Lean field names, in order (isNil first)
	fieldTy  map[string]string
	fieldGo  map[string]types.Type
	emitted  bool
}

var recordSpecs map[string][]string // pkgname.Type -> listed paths (current unit and earlier units)
var recordInfos = map[string]*recInfo{}

func recKey(n *types.Named) string {
	if n.Obj().Pkg() == nil {
		return ""
	}
	return n.Obj().Pkg().Name() + "." + n.Obj().Name()
}

func namedOfPtr(ty types.Type) *types.Named {
	if p, ok := ty.(*types.Pointer); ok {
		if n, ok := p.Elem().(*types.Named); ok {
			return n
		}
	}
	if p, ok := ty.Underlying().(*types.Pointer); ok {
		if n, ok := p.Elem().(*types.Named); ok {
			return n
		}
	}
	return nil
}

// recordOf: the record description of a pointer-to-struct type declared with -record (nil if none)
func recordOf(ty types.Type) *recInfo {
	n := namedOfPtr(ty)
	if n == nil {
		return nil
	}
	key := recKey(n)
	spec, ok := recordSpecs[key]
	if !ok {
		return nil
	}
	if ri, ok := recordInfos[key]; ok {
		return ri
	}
	ri := &recInfo{key: key, lean: n.Obj().Name(), named: n, fieldTy: map[string]string{}, fieldGo: map[string]types.Type{}}
	recordInfos[key] = ri
	ri.fields = append(ri.fields, "isNil")
	ri.fieldTy["isNil"] = "Bool"
	for _, path := range spec {
		var cur types.Type = n
		okp := true
		for _, step := range strings.Split(path, ".") {
			if p, ok := cur.Underlying().(*types.Pointer); ok {
				cur = p.Elem()
			}
			st, ok := cur.Underlying().(*types.Struct)
			if !ok {
				okp = false
				break
			}
			found := false
			for i := 0; i < st.NumFields(); i++ {
				if st.Field(i).Name() == step {
					cur = st.Field(i).Type()
					found = true
				}
			}
			if !found {
				okp = false
				break
			}
		}
		name := strings.ReplaceAll(path, ".", "_")
		if !okp {
			ri.fields = append(ri.fields, name)
			ri.fieldTy[name] = "UNSUPPORTED_TYPE"
			continue
		}
		if _, isPtr := cur.Underlying().(*types.Pointer); isPtr && recordOf(cur) == nil {
			name += "_isNil"
			ri.fields = append(ri.fields, name)
			ri.fieldTy[name] = "Bool"
			ri.fieldGo[name] = cur
			continue
		}
		ri.fields = append(ri.fields, name)
		ri.fieldTy[name] = leanTypeStatic(cur)
		ri.fieldGo[name] = cur
	}
	return ri
}

// leanTypeStatic: Lean type of a Go type without a translator context
func leanTypeStatic(ty types.Type) string {
	k, _ := classify(ty)
	switch k {
	case kAbs:
		s, _ := absTypeOf(ty)
		return s
	case kRec:
		return recordOf(ty).lean
	case kRecList:
		el, _ := listElem(ty)
		es := leanTypeStatic(el)
		if strings.Contains(es, " ") {
			es = "(" + es + ")"
		}
		return "List " + es
	case kMapList:
		return "(Bytes → " + leanTypeStatic(ty.Underlying().(*types.Map).Elem()) + ")"
	case kOpt:
		el, _ := optElem(ty)
		return optOf(leanTypeStatic(el))
	case kSet:
		kk, _ := classify(ty.Underlying().(*types.Map).Key())
		return "List " + leanTypeOfKind(kk)
	}
	return leanTypeOfKind(k)
}

func classifyRecord(ty types.Type) (kind, bool) {
	if _, ok := absTypeOf(ty); ok {
		return kAbs, true
	}
	if len(recordSpecs) > 0 {
		if recordOf(ty) != nil {
			return kRec, true
		}
	}
	if _, ok := listElem(ty); ok {
		return kRecList, true
	}
	if m, ok := ty.Underlying().(*types.Map); ok {
		if kk, _ := classifyBasicAny(m.Key()); kk == kBytes {
			if _, ok := listElem(m.Elem()); ok {
				return kMapList, true
			}
		}
	}
	if _, ok := optElem(ty); ok {
		return kOpt, true
	}
	if m, ok := ty.Underlying().(*types.Map); ok {
		isSetElem := false
		if b, ok := m.Elem().Underlying().(*types.Basic); ok && b.Kind() == types.Bool {
			isSetElem = true
		}
		if st, ok := m.Elem().Underlying().(*types.Struct); ok && st.NumFields() == 0 {
			isSetElem = true // map[K]struct{}
		}
		if isSetElem {
			if kk, _ := classifyBasic(m.Key()); kk == kNat || kk == kInt {
				return kSet, true
			}
		}
	}
	return kBad, false
}

func classifyBasic(ty types.Type) (kind, int) {
	if b, ok := ty.Underlying().(*types.Basic); ok {
		switch b.Kind() {
		case types.Uint16, types.Uint32, types.Uint64, types.Uint, types.Uintptr:
			return kNat, 64
		case types.Int32, types.Int, types.Int64:
			return kInt, 64
		}
	}
	return kBad, 0
}

// emitRecords: the Lean structures of the records first used by this unit
func (t *tr) emitRecords(sb *strings.Builder) {
	var keys []string
	for k, ri := range recordInfos {
		if !ri.emitted {
			keys = append(keys, k)
		}
	}
	// dependencies (a record with a list of records) first: emit until fixpoint
	sort.Strings(keys)
	pending := keys
	for len(pending) > 0 {
		var next []string
		progress := false
		for _, k := range pending {
			ri := recordInfos[k]
			ready := true
			for _, f := range ri.fields {
				for _, k2 := range pending {
					if k2 != k && strings.Contains(" "+ri.fieldTy[f]+" ", " "+recordInfos[k2].lean+" ") {
						ready = false
					}
				}
			}
			if !ready {
				next = append(next, k)
				continue
			}
			progress = true
			sb.WriteString(fmt.Sprintf("/-- record for Go type %s: fields are the values of the (getter) paths listed with -record -/\nstructure %s where\n", ri.key, ri.lean))
			for _, f := range ri.fields {
				if strings.Contains(ri.fieldTy[f], "UNSUPPORTED") {
					t.errs = append(t.errs, "record "+ri.key+": field path "+f+" not found or of an unsupported type")
				}
				sb.WriteString(fmt.Sprintf("  %s : %s\n", leanName(f), ri.fieldTy[f]))
			}
			sb.WriteString("  deriving Inhabited, Repr, BEq\n\n")
			ri.emitted = true
		}
		if !progress {
			t.errs = append(t.errs, "cyclic record definitions")
			break
		}
		pending = next
	}
}

// recPath peels field selections and GetX() getter calls down to an expression of record kind:
// x.KeyData.KeyMaterialType, x.GetKeyData().GetKeyMaterialType() ↦ (x, "KeyData_KeyMaterialType")
func (t *tr) recPath(e ast.Expr) (base ast.Expr, field string, ok bool) {
	var steps []string
	cur := e
	for {
		switch x := cur.(type) {
		case *ast.ParenExpr:
			cur = x.X
			continue
		case *ast.SelectorExpr:
			if sel, isSel := t.u.info.Selections[x]; isSel && sel.Kind() == types.FieldVal {
				steps = append([]string{x.Sel.Name}, steps...)
				cur = x.X
				if k, _ := t.kindOf(cur); k == kRec {
					return cur, strings.Join(steps, "_"), true
				}
				continue
			}
			return nil, "", false
		case *ast.CallExpr:
			sel, isSel := x.Fun.(*ast.SelectorExpr)
			if !isSel || len(x.Args) != 0 || !strings.HasPrefix(sel.Sel.Name, "Get") {
				return nil, "", false
			}
			if s, ok := t.u.info.Selections[sel]; !ok || s.Kind() != types.MethodVal {
				return nil, "", false
			}
			steps = append([]string{strings.TrimPrefix(sel.Sel.Name, "Get")}, steps...)
			cur = sel.X
			if k, _ := t.kindOf(cur); k == kRec {
				return cur, strings.Join(steps, "_"), true
			}
			continue
		}
		return nil, "", false
	}
}

// recField: translation of a field / getter path on a record, if e is one
func (t *tr) recField(e ast.Expr) (string, bool) {
	base, field, ok := t.recPath(e)
	if !ok {
		return "", false
	}
	ri := recordOf(t.typeOf(base))
	if ri == nil {
		return "", false
	}
	if _, has := ri.fieldTy[field]; !has {
		return t.fail(e, "field path %s is not listed in -record %s", strings.ReplaceAll(field, "_", "."), ri.key), true
	}
	return "(" + t.expr(base) + ")." + leanName(field), true
}

// nilTest: `x == nil` / `x != nil` for a record pointer or a pointer-typed record path
func (t *tr) nilTest(e ast.Expr) (string, bool) {
	if k, _ := t.kindOf(e); k == kOpt {
		return "((" + t.expr(e) + ").isSome = false)", true
	}
	if k, _ := t.kindOf(e); k == kRecList {
		if se, ok := e.(*ast.SelectorExpr); ok && t.isFieldPath(se) {
			bn := pathName(t.pathKey(se)) + "_isNil"
			if t.f.hasBinder(bn) {
				return "(" + bn + " = true)", true
			}
		}
	}
	if k, _ := t.kindOf(e); k == kAbs {
		an, _ := absTypeOf(t.typeOf(e))
		if t.f.hasBinder(an + "_isNil") {
			return "((" + an + "_isNil " + t.expr(e) + ") = true)", true
		}
	}
	if k, _ := t.kindOf(e); k == kRec {
		return "((" + t.expr(e) + ").isNil = true)", true
	}
	if base, field, ok := t.recPath(e); ok {
		ri := recordOf(t.typeOf(base))
		if ri != nil {
			if _, has := ri.fieldTy[field+"_isNil"]; has {
				return "((" + t.expr(base) + ")." + leanName(field+"_isNil") + " = true)", true
			}
			return t.fail(e, "pointer path %s is not listed in -record %s", field, ri.key), true
		}
	}
	return "", false
}

// rangeStmt: for i, x := range L { … } over a list of records
func (t *tr) rangeStmt(x *ast.RangeStmt, rest []ast.Stmt, depth int, k func() string) string {
	f := t.f
	if kd, _ := t.kindOf(x.X); kd == kInt || kd == kNat || kd == kBytes {
		return t.rangeIndexed(x, kd, rest, depth, k)
	}
	if kd, _ := t.kindOf(x.X); kd != kRecList {
		return t.fail(x, "range over %s", t.typeOf(x.X))
	}
	if x.Tok != token.DEFINE {
		return t.fail(x, "range with assignment to existing variables")
	}
	bad := false
	ast.Inspect(x.Body, func(n ast.Node) bool {
		switch b := n.(type) {
		case *ast.GoStmt, *ast.DeferStmt, *ast.LabeledStmt, *ast.SelectStmt:
			bad = true
		case *ast.BranchStmt:
			if b.Label != nil || (b.Tok != token.BREAK && b.Tok != token.CONTINUE) {
				bad = true
			}
		}
		return true
	})
	if bad {
		return t.fail(x, "loop body with go / defer / label / goto")
	}
	written := t.assignedObjs(x.Body.List)
	list := t.expr(x.X)
	elTy, _ := listElem(t.typeOf(x.X))
	elLean := leanTypeStatic(elTy)
	var iobj, vobj types.Object
	iname, vname := "i__", "x__"
	_, isSeq := seqElem(t.typeOf(x.X))
	if isSeq {
		// for v := range seq: the single variable is the value
		if x.Value != nil {
			return t.fail(x, "range over an iterator with two variables")
		}
		if id, ok := x.Key.(*ast.Ident); ok && id.Name != "_" {
			vobj = t.u.info.Defs[id]
		}
	} else if id, ok := x.Key.(*ast.Ident); ok && id.Name != "_" {
		iobj = t.u.info.Defs[id]
		iname = leanName(id.Name)
	}
	if x.Value != nil {
		if id, ok := x.Value.(*ast.Ident); ok && id.Name != "_" {
			vobj = t.u.info.Defs[id]
			vname = leanName(id.Name)
		}
	}
	if (iobj != nil && written[iobj]) || (vobj != nil && written[vobj]) {
		return t.fail(x, "range variable is modified in the body")
	}
	var state []types.Object
	for o := range written {
		if _, ok := f.env[o]; ok {
			state = append(state, o)
		}
	}
	t.rankAll(state)
	sort.Slice(state, func(i, j int) bool { return t.rank(state[i]) < t.rank(state[j]) })
	var tys, inits []string
	for _, o := range state {
		tys = append(tys, t.leanTypeOfObj(o))
		inits = append(inits, f.env[o])
	}
	sigma, initV := "Unit", "()"
	if len(state) > 0 {
		sigma = strings.Join(tys, " × ")
		initV = strings.Join(inits, ", ")
		if len(state) > 1 {
			initV = "(" + initV + ")"
		}
	}
	f.loopN++
	ln := fmt.Sprintf("loop%d", f.loopN)
	sn := fmt.Sprintf("s%d", f.loopN)
	iname, vname = fmt.Sprintf("i%d", f.loopN), fmt.Sprintf("x%d", f.loopN) // canonical, not the Go names
	savedB, savedEnv, savedName := f.binders, t.cloneEnv(), f.name
	outerArgs, outerDecl := f.args(), f.binderDecl()
	f.binders = append(append([]binder{}, f.binders...), binder{sn, sigma}, binder{iname, "Int"}, binder{vname, elLean})
	if iobj != nil {
		f.env[iobj] = iname
	}
	if vobj != nil {
		f.env[vobj] = vname
	}
	proj := func(base string, i int) string {
		p := base
		if len(state) > 1 {
			for j := 0; j < i; j++ {
				p += ".2"
			}
			if i < len(state)-1 {
				p += ".1"
			}
		}
		return p
	}
	for i, o := range state {
		f.env[o] = proj(sn, i)
	}
	f.name = savedName + "." + ln
	stateNow := func() string {
		if len(state) == 0 {
			return "()"
		}
		var vs []string
		for _, o := range state {
			vs = append(vs, f.env[o])
		}
		if len(vs) == 1 {
			return vs[0]
		}
		return "(" + strings.Join(vs, ", ") + ")"
	}
	f.loops = append(f.loops, &loopCtx{state: stateNow})
	body := t.block(x.Body.List, 1, func() string { return "GoSem.Step.next " + stateNow() })
	f.loops = f.loops[:len(f.loops)-1]
	stepTy := fmt.Sprintf("GoSem.Step (%s) (%s)", f.resTy, sigma)
	bodyName := savedName + "." + ln + ".body"
	f.aux = append(f.aux, fmt.Sprintf("def %s %s : %s :=\n%s\n", bodyName, f.binderDecl(), stepTy, body))
	f.binders, f.env, f.name = savedB, savedEnv, savedName
	loopName := savedName + "." + ln
	f.aux = append(f.aux, fmt.Sprintf("def %s %s : Option (%s) × (%s) :=\n  GoSem.forEachSteps %s (0 : Int) %s (fun %s %s %s => %s %s %s %s %s)\n", loopName, outerDecl, f.resTy, sigma,
		list, initV, sn, iname, vname, bodyName, outerArgs, sn, iname, vname))
	res := loopName
	if outerArgs != "" {
		res = "(" + loopName + " " + outerArgs + ")"
	}
	for i, o := range state {
		f.env[o] = t.define(o.Name(), t.leanTypeOfObj(o), proj(res+".2", i))
	}
	if !containsReturn(x.Body.List) {
		return t.block(rest, depth, k)
	}
	after := t.block(rest, depth+1, k)
	return fmt.Sprintf("%smatch %s.1 with\n%s| some r__ => %s\n%s| none =>\n%s", ind(depth), res, ind(depth), t.wrapRet("r__"), ind(depth), after)
}

// rangeIndexed: `for i := range n` and `for i[, v] := range b` (b a byte slice) are the index loop
// `for i := 0; i < n / len(b); i++` with v read as b[i] — the same generated text as that loop.
func (t *tr) rangeIndexed(x *ast.RangeStmt, kd kind, rest []ast.Stmt, depth int, k func() string) string {
	if x.Tok != token.DEFINE && x.Key != nil {
		return t.fail(x, "range with assignment to existing variables")
	}
	var iobj, vobj types.Object
	if id, ok := x.Key.(*ast.Ident); ok && id.Name != "_" {
		iobj = t.u.info.Defs[id]
	}
	if x.Value != nil {
		if id, ok := x.Value.(*ast.Ident); ok && id.Name != "_" {
			vobj = t.u.info.Defs[id]
		}
	}
	var bound string
	var pre func(in string)
	if kd == kBytes {
		// the variable (if any) whose memory the ranged expression reads: b, b[lo:hi], a view
		var base ast.Expr = x.X
		for {
			if se, ok := base.(*ast.SliceExpr); ok {
				base = se.X
				continue
			}
			if pe, ok := base.(*ast.ParenExpr); ok {
				base = pe.X
				continue
			}
			break
		}
		root, _ := t.placeObj(base)
		if vw := t.viewOf(base); vw != nil {
			root = vw.root
		}
		if vobj != nil && root != nil && t.assignedObjs(x.Body.List)[root] {
			return t.fail(x, "range over a byte slice that the body modifies")
		}
		b := t.expr(x.X)
		bound = "(GoSem.len " + b + ")"
		if vw := t.viewOf(x.X); vw != nil {
			bound = "(" + t.f.env[vw.hi] + " - " + t.f.env[vw.lo] + ")"
		}
		if vobj != nil {
			pre = func(in string) { t.f.env[vobj] = fmt.Sprintf("(GoSem.getAt %s %s)", b, in) }
		}
	} else {
		if vobj != nil {
			return t.fail(x, "range over an integer with two variables")
		}
		bound = t.intExpr(x.X)
	}
	if iobj != nil {
		if kdi, w := classify(iobj.Type()); kdi != kInt || w != 64 {
			return t.fail(x, "range index of type %s", iobj.Type())
		}
	}
	if !exits(x.Body.List) {
		return t.simpleLoop(x, iobj, nil, bound, x.Body, pre, rest, depth, k)
	}
	if iobj == nil {
		iobj = types.NewVar(x.Pos(), t.u.pkg, "i", types.Typ[types.Int])
	}
	return t.loopCore(x, x.Body, iobj, fmt.Sprintf("(GoSem.rangeUp (0 : Int) %s)", bound), nil, pre, rest, depth, k)
}

// containsFunc: slices.ContainsFunc(l, func(x *T) bool { … }) over a list of records
func (t *tr) containsFunc(c *ast.CallExpr) string {
	f := t.f
	fl, ok := c.Args[1].(*ast.FuncLit)
	if !ok || len(fl.Type.Params.List) != 1 || len(fl.Type.Params.List[0].Names) != 1 {
		return t.fail(c, "slices.ContainsFunc with a predicate that is not a one-parameter function literal")
	}
	if kd, _ := t.kindOf(c.Args[0]); kd != kRecList {
		return t.fail(c, "slices.ContainsFunc over %s", t.typeOf(c.Args[0]))
	}
	list := t.expr(c.Args[0])
	pid := fl.Type.Params.List[0].Names[0]
	pobj := t.u.info.Defs[pid]
	ri := recordOf(pobj.Type())
	if ri == nil {
		return t.fail(c, "predicate parameter of type %s", pobj.Type())
	}
	// the predicate may only read outer variables
	for o := range t.assignedObjs(fl.Body.List) {
		if _, outer := f.env[o]; outer {
			return t.fail(c, "the predicate writes the outer variable %s", o.Name())
		}
	}
	f.loopN++
	cn := fmt.Sprintf("pred%d", f.loopN)
	pname := fmt.Sprintf("p%d", f.loopN)
	savedB, savedEnv, savedName := f.binders, t.cloneEnv(), f.name
	savedOpt, savedN, savedOuts, savedLoops, savedRes, savedSt := f.optional, f.nres, f.outs, f.loops, f.resTy, f.stateful
	outerArgs := f.args()
	f.binders = append(append([]binder{}, f.binders...), binder{pname, ri.lean})
	f.env[pobj] = pname
	f.name = savedName + "." + cn
	f.optional, f.nres, f.outs, f.loops, f.resTy, f.stateful = false, 1, nil, nil, "Bool", false
	body := t.block(fl.Body.List, 1, func() string { return t.fail(fl, "control reaches the end of the predicate") })
	predName := savedName + "." + cn
	f.aux = append(f.aux, fmt.Sprintf("def %s %s : Bool :=\n%s\n", predName, f.binderDecl(), body))
	f.binders, f.env, f.name = savedB, savedEnv, savedName
	f.optional, f.nres, f.outs, f.loops, f.resTy, f.stateful = savedOpt, savedN, savedOuts, savedLoops, savedRes, savedSt
	return fmt.Sprintf("(List.any %s (fun %s => %s %s %s))", list, pname, predName, outerArgs, pname)
}
