//go:build verif

package main

import (
	"fmt"
	"go/ast"
	"go/types"
	"sort"
	"strings"
)

// STATEFUL functions (-stateful fn): methods that assign fields of their receiver (or of a pointer parameter) and / or
// talk to an external stateful object (an io.Reader source, an io.Writer sink).  Their Lean value is
//
//	(final values of the written fields and external objects …, final content of the written slice parameters …, results …)
//
// at EVERY return, error returns included (the state changes made before an error persist in Go).  In this mode an
// `error` is a plain value: a Nat code, 0 = nil, 1 = an error created here (fmt.Errorf / errors.New), other codes for
// the sentinel errors named with -errcodes; `x, err := f(…)` is an ordinary assignment of the components of f's result
// and `if err != nil` an ordinary condition.  External objects (-extern fn:callee=name[@path]) have an abstract state
// type S_<path>; a read-like callee `(buf) (int, error)` is `name : S → Int → Bytes × Nat × S` (capacity ↦ the bytes
// delivered, error code, next state), a write-like callee `(p) (int, error)` is `name : S → Bytes → Int × Nat × S`.
type externOp struct {
	callee, name, path string
}

func (t *tr) errTypeName() string { return "Nat" }

// statePaths: field-path variables rooted at a parameter / receiver that the body writes, plus external objects, in source order
func (t *tr) statefulSetup(fd *ast.FuncDecl, outer map[types.Object]bool) {
	f := t.f
	written := t.assignedObjs(fd.Body.List)
	isPath := map[types.Object]string{}
	for src, v := range f.pvars {
		isPath[v] = src
	}
	var st []types.Object
	for o := range written {
		if src, ok := isPath[o]; ok {
			root, _, _ := strings.Cut(src, ".")
			for p := range outer {
				if p != nil && f.rootCanon[p] == root {
					st = append(st, o)
				}
			}
		}
	}
	for _, e := range f.externs {
		v := f.pvars[e.path]
		dup := false
		for _, o := range st {
			if o == v {
				dup = true
			}
		}
		if v != nil && !dup {
			st = append(st, v)
		}
	}
	// by first occurrence in the source (no ranks are assigned here: the state components are ranked when the body reaches them)
	sort.Slice(st, func(i, j int) bool {
		if st[i].Pos() != st[j].Pos() {
			return st[i].Pos() < st[j].Pos()
		}
		return st[i].Name() < st[j].Name()
	})
	f.stateObjs = st
}

func (t *tr) leanTypeOfObj(o types.Object) string {
	if ty, ok := t.f.typeOverride[o]; ok {
		return ty
	}
	return t.leanType(o.Type())
}

// statefulRet: the value of `return e1, …, en` in a stateful function
func (t *tr) statefulRet(x *ast.ReturnStmt, sig *types.Signature) string {
	f := t.f
	var vs []string
	for _, o := range f.stateObjs {
		v, ok := f.env[o]
		if !ok {
			return t.fail(x, "state component %s has no value here", o.Name())
		}
		vs = append(vs, v)
	}
	for _, o := range f.outParams {
		vs = append(vs, f.env[o])
	}
	if len(x.Results) != sig.Results().Len() {
		return t.fail(x, "return arity")
	}
	for i, r := range x.Results {
		vs = append(vs, t.exprAs(r, sig.Results().At(i).Type()))
	}
	if len(vs) == 1 {
		return vs[0]
	}
	return "(" + strings.Join(vs, ", ") + ")"
}

// exprAs: an expression in a context of the given type (gives `nil` its meaning: error 0, empty slice)
func (t *tr) exprAs(e ast.Expr, ty types.Type) string {
	if id, ok := e.(*ast.Ident); ok && id.Name == "nil" {
		if k, _ := classify(ty); k == kErr {
			return "(0 : Nat)"
		}
		return "([] : Bytes)"
	}
	return t.expr(e)
}

// externCall: `n, err := obj.Read(buf)` / `io.ReadFull(obj, buf)` / `n, err := obj.Write(p)` for a declared external object
func (t *tr) externCall(x *ast.AssignStmt, c *ast.CallExpr, e externOp, s ast.Stmt) bool {
	f := t.f
	obj := f.pvars[e.path]
	cur, ok := f.env[obj]
	if !ok {
		t.fail(s, "external object %s has no value here", e.path)
		return true
	}
	t.rank(obj)
	args := c.Args
	if _, isSel := c.Fun.(*ast.SelectorExpr); isSel && t.ck(c) != e.callee {
		return false
	}
	if len(args) == 2 { // function form: f(obj, buf)
		args = args[1:]
	}
	if len(args) != 1 || len(x.Lhs) != 2 {
		t.fail(s, "external call shape")
		return true
	}
	sig, _ := t.typeOf(c.Fun).(*types.Signature)
	_ = sig
	readLike := f.externRead[e.callee]
	var tmp string
	if readLike {
		dst, curB, lo, hi, okw := t.window(args[0])
		if !okw {
			return true
		}
		tmp = t.define("ext_"+e.name, fmt.Sprintf("Bytes × Nat × %s", f.typeOverride[obj]), fmt.Sprintf("%s %s (%s - %s)", leanName(e.name), cur, hi, lo))
		t.store(dst, s, fmt.Sprintf("GoSem.copyInto %s %s %s %s.1", curB, lo, hi, tmp))
		t.assignTupleComp(x.Lhs[0], types.Typ[types.Int], "(GoSem.len "+tmp+".1)", s)
	} else {
		tmp = t.define("ext_"+e.name, fmt.Sprintf("Int × Nat × %s", f.typeOverride[obj]), fmt.Sprintf("%s %s %s", leanName(e.name), cur, t.expr(args[0])))
		t.assignTupleComp(x.Lhs[0], types.Typ[types.Int], tmp+".1", s)
	}
	t.assignTupleComp(x.Lhs[1], nil, tmp+".2.1", s)
	f.env[obj] = t.define(obj.Name(), f.typeOverride[obj], tmp+".2.2")
	return true
}

// assignTupleComp: one component of a tuple assignment (ty nil = error)
func (t *tr) assignTupleComp(lhs ast.Expr, ty types.Type, val string, s ast.Stmt) {
	if id, ok := lhs.(*ast.Ident); ok && id.Name == "_" {
		return
	}
	obj, name := t.placeObj(lhs)
	if obj == nil {
		t.fail(s, "assignment target %s", t.src(lhs))
		return
	}
	lt := "Nat"
	if ty != nil {
		lt = t.leanType(ty)
	}
	t.f.env[obj] = t.define(name, lt, val)
}

// tupleAssignStateful: `a, b := call` in a stateful function
func (t *tr) tupleAssignStateful(x *ast.AssignStmt, c *ast.CallExpr, tup *types.Tuple, s ast.Stmt) bool {
	f := t.f
	callee := t.ck(c)
	for _, e := range f.externs {
		if e.callee == callee {
			return t.externCall(x, c, e, s)
		}
	}
	n := tup.Len()
	if len(x.Lhs) != n {
		t.fail(s, "tuple assignment arity")
		return true
	}
	// a translated function of this unit with an Option result: (value, error) = (getD, isSome)
	if sg := t.calleeSig(c); sg != nil || (func() bool { id, ok := c.Fun.(*ast.Ident); return ok && t.u.emitted[id.Name] })() {
		if n != 2 {
			t.fail(s, "call of a translated function with %d results", n)
			return true
		}
		call := t.expr(c)
		k0, _ := classify(tup.At(0).Type())
		def := map[kind]string{kBytes: "[]", kNat: "0", kInt: "0", kByte: "0", kBool: "false"}[k0]
		tmp := t.define("opt_"+calleeName(c), optOf(t.leanType(tup.At(0).Type())), call)
		t.assignTupleComp(x.Lhs[0], tup.At(0).Type(), fmt.Sprintf("(%s).getD %s", tmp, def), s)
		t.assignTupleComp(x.Lhs[1], nil, fmt.Sprintf("if (%s).isSome then 0 else 1", tmp), s)
		return true
	}
	if _, ok := f.opaque[callee]; !ok {
		t.fail(s, "call of %s", callee)
		return true
	}
	var tys []string
	for i := 0; i < n; i++ {
		tys = append(tys, t.leanType(tup.At(i).Type()))
	}
	tmp := t.define("res_"+calleeName(c), strings.Join(tys, " × "), t.expr(c))
	for i := 0; i < n; i++ {
		p := tmp
		for j := 0; j < i; j++ {
			p += ".2"
		}
		if i < n-1 {
			p += ".1"
		}
		var ty types.Type
		if k, _ := classify(tup.At(i).Type()); k != kErr {
			ty = tup.At(i).Type()
		}
		t.assignTupleComp(x.Lhs[i], ty, p, s)
	}
	return true
}


// statefulCall: `r1, …, rn := recv.helper(args)` (or the bare call) of a helper translated in stateful mode: its value is
// (state components…, written parameters…, results…); the state components are written back to the caller's field
// variables (same canonical paths), the written slice parameters to the argument windows, the results to the targets.
func (t *tr) statefulCall(lhs []ast.Expr, c *ast.CallExpr, sg *fsig, s ast.Stmt) bool {
	_, ok := t.statefulCallR(lhs, c, sg, s)
	return ok
}

// statefulCallR also returns the Lean expressions of the results
func (t *tr) statefulCallR(lhs []ast.Expr, c *ast.CallExpr, sg *fsig, s ast.Stmt) (results []string, okr bool) {
	okr = true
	f := t.f
	name := calleeName(c)
	if !f.stateful {
		t.fail(s, "call of the stateful helper %s from a function that is not translated -stateful", name)
		return nil, true
	}
	if len(lhs) != 0 && len(lhs) != len(sg.resTys) {
		t.fail(s, "call of %s: %d targets for %d results", name, len(lhs), len(sg.resTys))
		return nil, true
	}
	// arguments (implicit binders by name / current value of the path, written slice arguments as window contents)
	type outw struct {
		dst         types.Object
		lo, hi      string
		whole       bool
	}
	isOut := map[int]bool{}
	for _, oi := range sg.outIdx {
		isOut[oi-sg.nRecv] = true
	}
	var outs []outw
	var args []string
	next := 0
	for i, b := range sg.binders {
		if sg.implicit[i] {
			if src, isPath := sg.pathSrc[b.name]; isPath {
				v, have := f.env[t.pathVarNamed(src, c.Pos(), sg.pathTy[b.name])]
				if !have {
					t.fail(s, "callee %s needs %s, which has no value here", name, src)
					return nil, true
				}
				args = append(args, v)
				continue
			}
			if !f.hasBinder(b.name) {
				t.fail(s, "callee %s needs the parameter %s, which this definition does not have", name, b.name)
				return nil, true
			}
			args = append(args, b.name)
			continue
		}
		if next >= len(c.Args) {
			t.fail(s, "call arity of %s", name)
			return nil, true
		}
		if isOut[next] {
			dst, cur, lo, hi, ok := t.window(c.Args[next])
			if !ok {
				return nil, true
			}
			a := c.Args[next]
			se, isSl := a.(*ast.SliceExpr)
			whole := t.viewOf(a) == nil && (!isSl || (se.Low == nil && se.High == nil && t.viewOf(se.X) == nil))
			outs = append(outs, outw{dst, lo, hi, whole})
			if whole {
				args = append(args, cur)
			} else {
				args = append(args, fmt.Sprintf("(GoSem.slice %s %s %s)", cur, lo, hi))
			}
		} else {
			args = append(args, t.exprAs(c.Args[next], t.typeOf(c.Args[next])))
		}
		next++
	}
	if next != len(c.Args) {
		t.fail(s, "call arity of %s", name)
		return nil, true
	}
	var tys []string
	for _, k := range sg.stateKeys {
		v := f.pvars[k]
		if v == nil {
			t.fail(s, "callee %s changes %s, which is not a field variable here", name, k)
			return nil, true
		}
		tys = append(tys, t.leanTypeOfObj(v))
	}
	for range outs {
		tys = append(tys, "Bytes")
	}
	for _, rt := range sg.resTys {
		tys = append(tys, t.leanType(rt))
	}
	n := len(tys)
	if n == 0 {
		t.fail(s, "stateful callee %s without a value", name)
		return nil, true
	}
	tmp := t.define("call_"+name, strings.Join(tys, " × "), sg.qual+" "+strings.Join(args, " "))
	proj := func(i int) string {
		if n == 1 {
			return tmp
		}
		p := tmp
		for j := 0; j < i; j++ {
			p += ".2"
		}
		if i < n-1 {
			p += ".1"
		}
		return p
	}
	i := 0
	for _, k := range sg.stateKeys {
		v := f.pvars[k]
		t.rank(v)
		f.env[v] = t.define(v.Name(), t.leanTypeOfObj(v), proj(i))
		i++
	}
	for _, o := range outs {
		if o.whole {
			t.store(o.dst, s, proj(i))
		} else {
			t.store(o.dst, s, fmt.Sprintf("GoSem.copyInto %s %s %s %s", f.env[o.dst], o.lo, o.hi, proj(i)))
		}
		i++
	}
	for j, rt := range sg.resTys {
		results = append(results, proj(i))
		if len(lhs) > 0 {
			var ty types.Type
			if k, _ := classify(rt); k != kErr {
				ty = rt
			}
			t.assignTupleComp(lhs[j], ty, proj(i), s)
		}
		i++
	}
	return results, true
}

// statefulSig: the signature of a stateful helper that a call targets
func (t *tr) statefulSig(e ast.Expr) (*ast.CallExpr, *fsig) {
	c, ok := e.(*ast.CallExpr)
	if !ok {
		return nil, nil
	}
	if sg := t.calleeSig(c); sg != nil && sg.stateful {
		return c, sg
	}
	return nil, nil
}
