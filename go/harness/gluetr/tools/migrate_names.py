#!/usr/bin/env python3
"""One-off migration of the tie proofs from Go-named generated definitions (Compute.numBlocksButLast_3) to the canonical
names (Compute.v3).  Usage: migrate_names.py <dir with *.map written by `gluetr -namemap`> <lean files...>
Each map line is `<Sub>.<legacy name> <Sub>.<canonical name>`; identifiers in the Lean files that END with a legacy name
(at a `.` boundary) are rewritten.  Kept for the record; not used by ./check."""
import glob, re, sys
mapdir, files = sys.argv[1], sys.argv[2:]
m = {}
for f in glob.glob(mapdir + "/*.map"):
    for line in open(f):
        a, b = line.split()
        if a in m and m[a] != b:
            print("CONFLICT", a, m[a], b)
        m[a] = b
ident = re.compile(r"[A-Za-z_][A-Za-z0-9_']*(?:\.[A-Za-z_][A-Za-z0-9_']*)*")
def fix(tok):
    parts = tok.split(".")
    for i in range(len(parts)):
        suf = ".".join(parts[i:])
        if suf in m:
            return ".".join(parts[:i] + [m[suf]])
    return tok
n = 0
for path in files:
    s = open(path).read()
    out = ident.sub(lambda mo: fix(mo.group(0)), s)
    if out != s:
        n += 1
        open(path, "w").write(out)
print("rewrote", n, "of", len(files), "files with", len(m), "names")
