//go:build verif

package main

import (
	"os"
	"fmt"
	"sort"
	"go/ast"
	"go/token"
	"go/types"
	"strings"
)

type kind int

const (
	kBad kind = iota
	kByte
	kNat
	kInt
	kBool
	kBytes
	kErr
)

// reprKinds: named types of the current unit that are represented by a plain value (-repr), e.g. a cipher.Stream by its IV
var reprKinds map[string]kind

func classify(ty types.Type) (kind, int) {
	if ty == nil {
		return kBad, 0
	}
	if n, ok := ty.(*types.Named); ok && n.Obj().Pkg() != nil && len(reprKinds) > 0 {
		if k, ok := reprKinds[n.Obj().Pkg().Path()+"."+n.Obj().Name()]; ok {
			return k, 64
		}
	}
	if n, ok := ty.(*types.Named); ok && n.Obj().Pkg() == nil && n.Obj().Name() == "error" {
		return kErr, 0
	}
	switch u := ty.Underlying().(type) {
	case *types.Basic:
		switch u.Kind() {
		case types.Uint8:
			return kByte, 8
		case types.Uint16:
			return kNat, 16
		case types.Uint32:
			return kNat, 32
		case types.Uint64, types.Uint, types.Uintptr:
			return kNat, 64
		case types.Int32:
			return kInt, 32
		case types.Int, types.Int64:
			return kInt, 64
		case types.UntypedInt, types.UntypedRune:
			return kInt, 0
		case types.Bool, types.UntypedBool:
			return kBool, 0
		case types.String, types.UntypedString:
			return kBytes, 0
		}
	case *types.Slice:
		if k, _ := classify(u.Elem()); k == kByte {
			return kBytes, 0
		}
	case *types.Array:
		if k, _ := classify(u.Elem()); k == kByte {
			return kBytes, 0
		}
	case *types.Pointer:
		// a pointer to a byte array (`a *address`, address = [32]byte) is used like the array: a[i], a[lo:hi], copy(a[:], …)
		if arr, ok := u.Elem().Underlying().(*types.Array); ok {
			if k, _ := classify(arr.Elem()); k == kByte {
				return kBytes, 0
			}
		}
	}
	if k, ok := classifyRecord(ty); ok {
		return k, 0
	}
	return kBad, 0
}

// optOf: Option of a Lean type (parenthesised when it is an application)
func optOf(ty string) string {
	if strings.Contains(ty, " ") && !(strings.HasPrefix(ty, "(") && strings.HasSuffix(ty, ")")) {
		return "Option (" + ty + ")"
	}
	return "Option " + ty
}

func leanTypeOfKind(k kind) string {
	switch k {
	case kByte:
		return "UInt8"
	case kNat:
		return "Nat"
	case kInt:
		return "Int"
	case kBool:
		return "Bool"
	case kBytes:
		return "Bytes"
	}
	return "UNSUPPORTED_TYPE"
}

func (t *tr) leanType(ty types.Type) string {
	if tup, ok := ty.(*types.Tuple); ok {
		return t.leanResult(tup)
	}
	k, _ := classify(ty)
	if k == kErr && t.f != nil && t.f.stateful {
		return "Nat"
	}
	if k == kErr && t.f != nil && !t.f.stateful {
		return "Bool" // a stored error (a struct field): only whether it is non-nil
	}
	if k == kRec || k == kRecList || k == kSet || k == kAbs || k == kOpt || k == kMapList {
		return leanTypeStatic(ty)
	}
	if k == kBad {
		if fs := structFields(ty); len(fs) > 0 {
			var ps []string
			for _, f := range fs {
				ps = append(ps, t.leanType(f.Type()))
			}
			return strings.Join(ps, " × ")
		}
	}
	return leanTypeOfKind(k)
}

// structFields: the fields of a supported (byte / integer / bool / byte-slice) type of a struct or pointer-to-struct type,
// in declaration order.  A struct VALUE is the tuple of these; fields of other types (interfaces such as cipher.Block,
// nested objects) are abstract: they carry no value and can only be the receiver of a call declared -block / -opaque.
func structFields(ty types.Type) []*types.Var {
	if ty == nil {
		return nil
	}
	if p, ok := ty.Underlying().(*types.Pointer); ok {
		ty = p.Elem()
	}
	st, ok := ty.Underlying().(*types.Struct)
	if !ok {
		return nil
	}
	var r []*types.Var
	for i := 0; i < st.NumFields(); i++ {
		if k, _ := classify(st.Field(i).Type()); supported(k) {
			r = append(r, st.Field(i))
		}
	}
	return r
}

// pathKey: canonical printed form of a field path: the receiver is `r`, the i-th parameter `a<i>`, a local root keeps its
// Go name (plus its declaration position; it never reaches the generated text)
func (t *tr) pathKey(e ast.Expr) string {
	switch x := e.(type) {
	case *ast.ParenExpr:
		return t.pathKey(x.X)
	case *ast.StarExpr:
		return t.pathKey(x.X)
	case *ast.SelectorExpr:
		return t.pathKey(x.X) + "." + x.Sel.Name
	case *ast.Ident:
		o := t.objOf(x)
		if c, ok := t.f.rootCanon[o]; ok {
			return c
		}
		if o != nil {
			return fmt.Sprintf("%s#%d", x.Name, o.Pos())
		}
		return x.Name
	}
	return t.src(e)
}

func localKey(o types.Object) string { return fmt.Sprintf("%s#%d", o.Name(), o.Pos()) }

// pathVar: the synthetic variable that stands for the location denoted by a field path (keyed by its canonical form).
func (t *tr) pathVar(e ast.Expr) *types.Var {
	v := t.pathVarNamed(t.pathKey(e), e.Pos(), t.typeOf(e))
	if _, ok := t.f.legacyOf[v.Name()]; !ok {
		t.f.legacyOf[v.Name()] = pathName(t.src(e))
	}
	return v
}

func (t *tr) pathVarNamed(key string, pos token.Pos, ty types.Type) *types.Var {
	if v, ok := t.f.pvars[key]; ok {
		return v
	}
	v := types.NewVar(pos, t.u.pkg, pathName(key), ty)
	t.f.pvars[key] = v
	return v
}

// canonPathFlag: a path written in a flag (`r.w`, or with the Go receiver / parameter name `w.w`) in canonical form
func (t *tr) canonPathFlag(p string) string {
	root, rest, ok := strings.Cut(p, ".")
	if c, isParam := t.f.goParams[root]; isParam {
		root = c
	}
	if !ok {
		return root
	}
	return root + "." + rest
}

// leanResult: (T1, …, Tn) → T1 × … × Tn, a trailing `error` turns the rest into an Option.
func (t *tr) leanResult(tup *types.Tuple) string {
	if t.f != nil && t.f.stateful {
		var ps []string
		for i := 0; i < tup.Len(); i++ {
			ps = append(ps, t.leanType(tup.At(i).Type()))
		}
		if len(ps) == 0 {
			return "Unit"
		}
		return strings.Join(ps, " × ")
	}
	n := tup.Len()
	opt := false
	if n > 0 {
		if k, _ := classify(tup.At(n - 1).Type()); k == kErr {
			opt = true
			n--
		}
	}
	var ps []string
	for i := 0; i < n; i++ {
		ps = append(ps, t.leanType(tup.At(i).Type()))
	}
	s := strings.Join(ps, " × ")
	if n == 0 {
		s = "Unit"
	}
	if opt {
		if n > 1 || strings.Contains(s, " × ") || (strings.Contains(s, " ") && !strings.HasPrefix(s, "(")) {
			s = "(" + s + ")"
		}
		return "Option " + s
	}
	return s
}

func pow2(w int) string {
	return new(bigPow).s(w)
}

type bigPow struct{}

func (*bigPow) s(w int) string {
	r := []byte{1}
	for i := 0; i < w; i++ { // decimal doubling
		carry := 0
		for j := 0; j < len(r); j++ {
			v := int(r[j])*2 + carry
			r[j] = byte(v % 10)
			carry = v / 10
		}
		if carry > 0 {
			r = append(r, byte(carry))
		}
	}
	var sb strings.Builder
	for j := len(r) - 1; j >= 0; j-- {
		sb.WriteByte('0' + r[j])
	}
	return sb.String()
}

type binder struct{ name, ty string }

// fctx is the state of one Lean definition group (a function or a region).
type fctx struct {
	name     string
	binders  []binder
	env      map[types.Object]string // Go variable -> current Lean expression
	pvars    map[string]*types.Var   // printed field path p.f.g -> synthetic variable standing for that location
	blockops map[string]opq          // printed callee -> block function name
	abstract map[string]bool         // printed callee -> constructor of an abstract object
	objRoots map[types.Object][]*types.Var // local struct objects (x := &T{…}): their fields of a supported type
	applyops map[string]opq          // printed callee -> length-preserving keyed transformation written into the destination
	closureLits map[types.Object]*ast.FuncLit // all local procedures of the definition (static)
	closures map[types.Object]*ast.FuncLit // local procedures `f := func(…) {…}` (no results): calls are inlined
	everAssigned map[types.Object]bool // variables assigned anywhere in the function body (after their definition)
	nonNil   []string // field paths of error type known to be non-nil here (inside `if p != nil { … }`)
	nilTypes map[*ast.Ident]types.Type // the type each untyped nil is converted to
	consumesParams bool
	consumed map[types.Object]bool   // abstract objects behind pointers handed to a translated callee (which may change them): no read before the next assignment
	errBool  map[types.Object]bool   // error variables kept as "is an error" Booleans (Option mode)
	fnName   string
	readops  map[string]opq          // -read callees
	stepops  map[string]opq          // printed callee X.m -> function (object, args…) ↦ results… × object
	mutops   map[string]opq          // printed callee X.m -> function (object, args…) ↦ object: X.m(args) updates the abstract object X
	inouts   map[string]opq          // printed callee -> function (window content, args…) ↦ Option (new window content = returned slice)
	fillops  map[string]opq          // printed callee -> source of fresh bytes written into the destination
	ctors    map[string]int          // printed callee -> index of the argument that represents the constructed abstract object
	views    map[types.Object]*view  // live views (see views.go)
	viewRoot map[types.Object]types.Object
	viewVars map[types.Object][2]*types.Var
	count    map[string]int
	aux      []string
	alias    map[types.Object][]types.Object
	opaque   map[string]opq
	optional bool // result is Option
	nres     int  // number of non-error results
	errVars  map[types.Object]bool // error variables known to be non-nil here
	loopN    int
	vcount   int                     // canonical numbering of the SSA definitions of this definition group: v1, v2, …
	bcount   int                     // canonical numbering of lambda-bound variables: b1, b2, …
	names    []nameRec               // canonical name -> Go local, for the comment block and the one-off proof migration
	curPos   token.Pos               // position of the statement being translated
	order    map[types.Object]int    // rank of a variable: parameters by position, locals by their first definition
	ordN     int
	rootCanon map[types.Object]string // receiver -> "r", i-th parameter -> "a<i>"
	patterns []string                // callee patterns of the flags given for this function
	legacyOf map[string]string       // canonical field-path variable name -> its old, Go-named form (one-off proof migration)
	goParams map[string]string       // Go name of receiver / parameter -> canonical root (for flag paths written with Go names)
	sortedRuns map[ast.Stmt]bool // statements of initialisation runs already put into canonical order
	knownEmpty map[string]bool   // Lean expressions known to denote the empty byte string (make([]byte, 0, n), nil, []byte{})
	loops    []*loopCtx // enclosing general loops (innermost last)
	stateful     bool                    // see stateful.go
	stateObjs    []types.Object          // written receiver fields and external objects: first components of the result
	outParams    []types.Object          // written slice parameters: next components of the result
	externs      []externOp              // external stateful objects and their callees
	externRead   map[string]bool         // callee -> read-like (else write-like)
	externValue  map[string]bool         // callee -> hands out one value
	typeOverride map[types.Object]string // Lean type of variables whose Go type has no translation (external objects)
	goSig        *types.Signature
	resTy    string     // Lean type of the definition's result
	outs     func() string // value of "falling off the end" / bare return
}

func newFctx(name string, opaque []opq) *fctx {
	f := &fctx{name: name, env: map[types.Object]string{}, pvars: map[string]*types.Var{}, count: map[string]int{},
		alias: map[types.Object][]types.Object{}, opaque: map[string]opq{}, errVars: map[types.Object]bool{},
		blockops: map[string]opq{}, abstract: map[string]bool{}, objRoots: map[types.Object][]*types.Var{},
		applyops: map[string]opq{}, fillops: map[string]opq{}, inouts: map[string]opq{}, mutops: map[string]opq{}, stepops: map[string]opq{}, readops: map[string]opq{}, errBool: map[types.Object]bool{}, consumed: map[types.Object]bool{}, nilTypes: map[*ast.Ident]types.Type{}, closures: map[types.Object]*ast.FuncLit{}, closureLits: map[types.Object]*ast.FuncLit{}, ctors: map[string]int{}, views: map[types.Object]*view{},
		viewRoot: map[types.Object]types.Object{}, viewVars: map[types.Object][2]*types.Var{},
		externRead: map[string]bool{}, externValue: map[string]bool{}, typeOverride: map[types.Object]string{},
		order: map[types.Object]int{}, rootCanon: map[types.Object]string{}, goParams: map[string]string{}, legacyOf: map[string]string{}}
	for _, o := range opaque {
		f.opaque[o.callee] = o
	}
	return f
}

func (f *fctx) binderDecl() string {
	var bs []string
	for _, b := range f.binders {
		bs = append(bs, fmt.Sprintf("(%s : %s)", b.name, b.ty))
	}
	return strings.Join(bs, " ")
}

func (f *fctx) args() string {
	var as []string
	for _, b := range f.binders {
		as = append(as, b.name)
	}
	return strings.Join(as, " ")
}

func (f *fctx) hasBinder(n string) bool {
	for _, b := range f.binders {
		if b.name == n {
			return true
		}
	}
	return false
}

type nameRec struct {
	canon, goName, legacy string
	line                  int
}

// define emits an auxiliary definition for a new version of a Go local and returns the expression naming it.
// The Lean name is CANONICAL: v<k>, k counting the definitions of the function in translation order — never the Go
// local's name, so that renaming a local does not change the generated text.  (The Go name is kept in a comment.)
func (t *tr) define(name, ty, value string) string {
	f := t.f
	lname := name
	if l, ok := f.legacyOf[name]; ok {
		lname = l
	}
	f.count[lname]++
	legacy := leanName(lname)
	if f.count[lname] > 1 {
		legacy = fmt.Sprintf("%s_%d", lname, f.count[lname])
	}
	f.vcount++
	ln := fmt.Sprintf("v%d", f.vcount)
	full := f.name + "." + ln
	line := 0
	if f.curPos.IsValid() {
		line = t.fset.Position(f.curPos).Line
	}
	f.names = append(f.names, nameRec{full, name, f.name + "." + legacy, line})
	f.aux = append(f.aux, fmt.Sprintf("def %s %s : %s :=\n  %s\n", full, f.binderDecl(), ty, value))
	ref := full
	if len(f.binders) > 0 {
		ref = "(" + full + " " + f.args() + ")"
	}
	if value == "([] : Bytes)" {
		if f.knownEmpty == nil {
			f.knownEmpty = map[string]bool{}
		}
		f.knownEmpty[ref] = true
	}
	return ref
}

// rank records the canonical order of variables (parameters first, then locals in order of first definition); loop
// states and if-joins are ordered by it, not by source position
func (t *tr) rank(o types.Object) int {
	if r, ok := t.f.order[o]; ok {
		return r
	}
	t.f.ordN++
	t.f.order[o] = t.f.ordN
	return t.f.ordN
}

// rankAll gives the not yet ranked objects of a set their ranks in order of (first) occurrence in the source, so that
// sorting by rank is deterministic; translation visits the source in canonical order, so ranks follow it
func (t *tr) rankAll(objs []types.Object) {
	var un []types.Object
	for _, o := range objs {
		if _, ok := t.f.order[o]; !ok {
			un = append(un, o)
		}
	}
	sort.Slice(un, func(i, j int) bool {
		if un[i].Pos() != un[j].Pos() {
			return un[i].Pos() < un[j].Pos()
		}
		return un[i].Name() < un[j].Name()
	})
	for _, o := range un {
		t.rank(o)
	}
}

// newBinderName: canonical name of a lambda-bound variable (the value of `x, err := f()`, a procedure's result)
func (t *tr) newBinderName() string {
	t.f.bcount++
	return fmt.Sprintf("b%d", t.f.bcount)
}

func (t *tr) objOf(id *ast.Ident) types.Object {
	if o := t.u.info.Uses[id]; o != nil {
		return o
	}
	return t.u.info.Defs[id]
}

func (t *tr) typeOf(e ast.Expr) types.Type {
	if id, ok := e.(*ast.Ident); ok && id.Name == "nil" && t.f != nil {
		if ty, ok := t.f.nilTypes[id]; ok {
			return ty
		}
	}
	return t.u.info.TypeOf(e)
}

// scanNils: the type an untyped `nil` is converted to by its context (call argument, struct field, result, assignment)
func (t *tr) scanNils(body ast.Node, results *types.Tuple) {
	isNil := func(e ast.Expr) (*ast.Ident, bool) {
		id, ok := e.(*ast.Ident)
		return id, ok && id.Name == "nil"
	}
	ast.Inspect(body, func(nd ast.Node) bool {
		switch x := nd.(type) {
		case *ast.CallExpr:
			sig, _ := t.u.info.TypeOf(x.Fun).(*types.Signature)
			if sig == nil {
				return true
			}
			for i, a := range x.Args {
				if id, ok := isNil(a); ok {
					pi := i
					if pi >= sig.Params().Len() {
						pi = sig.Params().Len() - 1
					}
					if pi >= 0 {
						pt := sig.Params().At(pi).Type()
						if sig.Variadic() && pi == sig.Params().Len()-1 && !x.Ellipsis.IsValid() {
							if sl, ok := pt.(*types.Slice); ok {
								pt = sl.Elem()
							}
						}
						t.f.nilTypes[id] = pt
					}
				}
			}
		case *ast.CompositeLit:
			st, _ := t.u.info.TypeOf(x).Underlying().(*types.Struct)
			if st == nil {
				return true
			}
			for i, el := range x.Elts {
				if kv, ok := el.(*ast.KeyValueExpr); ok {
					if id, ok := isNil(kv.Value); ok {
						if kid, ok := kv.Key.(*ast.Ident); ok {
							for j := 0; j < st.NumFields(); j++ {
								if st.Field(j).Name() == kid.Name {
									t.f.nilTypes[id] = st.Field(j).Type()
								}
							}
						}
					}
				} else if id, ok := isNil(el); ok && i < st.NumFields() {
					t.f.nilTypes[id] = st.Field(i).Type()
				}
			}
		case *ast.ReturnStmt:
			if results != nil && len(x.Results) == results.Len() {
				for i, r := range x.Results {
					if id, ok := isNil(r); ok {
						t.f.nilTypes[id] = results.At(i).Type()
					}
				}
			}
		case *ast.AssignStmt:
			if len(x.Lhs) == len(x.Rhs) {
				for i, r := range x.Rhs {
					if id, ok := isNil(r); ok {
						if lt := t.u.info.TypeOf(x.Lhs[i]); lt != nil {
							t.f.nilTypes[id] = lt
						}
					}
				}
			}
		}
		return true
	})
}

func (t *tr) kindOf(e ast.Expr) (kind, int) { return classify(t.typeOf(e)) }

func (t *tr) constLit(e ast.Expr) (string, bool) {
	tv, ok := t.u.info.Types[e]
	if !ok || tv.Value == nil {
		return "", false
	}
	k, _ := classify(tv.Type)
	return constString(tv.Value, k)
}

// isFieldPath: p.f.g where every step is a field selection and the root is a variable
func (t *tr) isFieldPath(e ast.Expr) bool {
	switch x := e.(type) {
	case *ast.Ident:
		_, ok := t.objOf(x).(*types.Var)
		return ok
	case *ast.SelectorExpr:
		sel, ok := t.u.info.Selections[x]
		return ok && sel.Kind() == types.FieldVal && t.isFieldPath(x.X)
	case *ast.ParenExpr:
		return t.isFieldPath(x.X)
	case *ast.StarExpr:
		return t.isFieldPath(x.X)
	}
	return false
}

func pathName(src string) string {
	if i := strings.IndexByte(src, '#'); i >= 0 { // local root `name#pos.f`
		if j := strings.IndexByte(src[i:], '.'); j >= 0 {
			src = src[:i] + src[i+j:]
		} else {
			src = src[:i]
		}
	}
	r := strings.NewReplacer(".", "_", "(", "", ")", "", "*", "")
	return leanName(r.Replace(src))
}

func (t *tr) expr(e ast.Expr) string {
	if lit, ok := t.constLit(e); ok {
		return lit
	}
	switch e.(type) {
	case *ast.SelectorExpr, *ast.CallExpr:
		if s, ok := t.recField(e); ok {
			return s
		}
	}
	switch x := e.(type) {
	case *ast.ParenExpr:
		return t.expr(x.X)
	case *ast.Ident:
		if x.Name == "nil" {
			if k, _ := t.kindOf(x); k == kOpt {
				return "none"
			}
			if k, _ := t.kindOf(x); k == kRecList {
				return "[]"
			}
			return "([] : Bytes)"
		}
		obj := t.objOf(x)
		if t.f.stateful {
			if code, ok := t.u.errcodes[x.Name]; ok {
				if k, _ := t.kindOf(x); k == kErr {
					return fmt.Sprintf("(%d : Nat)", code)
				}
			}
		}
		if vw, ok := t.f.views[obj]; ok {
			return fmt.Sprintf("(GoSem.slice %s %s %s)", t.f.env[vw.root], t.f.env[vw.lo], t.f.env[vw.hi])
		}
		if t.f.consumed[obj] {
			return t.fail(e, "%s is read after it was handed to a callee that may change it", x.Name)
		}
		if v, ok := t.f.env[obj]; ok {
			return v
		}
		if fs, ok := t.f.objRoots[obj]; ok {
			// a local struct object as a value: the tuple of its fields
			var vs []string
			for _, fld := range fs {
				fv, ok := t.f.env[t.pathVarNamed(localKey(obj)+"."+fld.Name(), x.Pos(), fld.Type())]
				if !ok {
					return t.fail(e, "field %s.%s has no value here", x.Name, fld.Name())
				}
				vs = append(vs, fv)
			}
			if len(vs) == 1 {
				return vs[0]
			}
			return "(" + strings.Join(vs, ", ") + ")"
		}
		if v, ok := obj.(*types.Var); ok && v.Parent() == t.u.pkg.Scope() {
			for _, n := range t.u.vars {
				if n == x.Name {
					return leanName(x.Name)
				}
			}
			return t.fail(e, "package variable %s is not listed under -vars", x.Name)
		}
		return t.fail(e, "variable %s has no translated value here", x.Name)
	case *ast.SelectorExpr:
		if _, ok := t.u.info.Selections[x]; ok && t.isFieldPath(x) {
			if p, ok := t.f.env[t.pathVar(x)]; ok {
				t.rank(t.pathVar(x))
				return p
			}
		}
			if t.f.stateful {
			if code, ok := t.u.errcodes[t.src(x)]; ok {
				return fmt.Sprintf("(%d : Nat)", code)
			}
		}
		if sel, ok := t.u.info.Selections[x]; ok && sel.Kind() == types.FieldVal {
			if t.absLocalBase(x.X) {
				if kb, _ := t.kindOf(x.X); kb == kAbs {
					an, _ := absTypeOf(t.typeOf(x.X))
					if t.f.hasBinder(an + "_" + x.Sel.Name) {
						// a field of an abstract object that a call returned: an abstract projection
						return "(" + an + "_" + leanName(x.Sel.Name) + " " + t.expr(x.X) + ")"
					}
				}
			}
		}
		return t.fail(e, "selector %s", t.src(x))
	case *ast.BinaryExpr:
		if k, _ := t.kindOf(x); k == kBool {
			return "(decide " + t.cond(x) + ")"
		}
		return t.binary(x.X, x.Op, x.Y, t.typeOf(x), x)
	case *ast.UnaryExpr:
		if cl, ok := x.X.(*ast.CompositeLit); ok && x.Op == token.AND {
			return t.expr(cl) // &T{…}: the struct value (tuple of its supported fields)
		}
		if x.Op == token.AND {
			if kk, _ := t.kindOf(x); kk == kAbs {
				if ko, _ := t.kindOf(x.X); ko == kAbs {
					a1, _ := absTypeOf(t.typeOf(x))
					a2, _ := absTypeOf(t.typeOf(x.X))
					if a1 == a2 {
						return t.expr(x.X) // &obj of an abstract object: the same abstract object
					}
				}
			}
			if kk, _ := t.kindOf(x); kk == kOpt {
				// &v of a basic variable that is never assigned again: a pointer to its (constant) value
				id, ok := x.X.(*ast.Ident)
				if !ok || t.objOf(id) == nil || t.f.everAssigned[t.objOf(id)] {
					return t.fail(e, "address of %s (only of a variable that is never assigned)", t.src(x.X))
				}
				return "(some " + t.expr(x.X) + ")"
			}
		}
		k, w := t.kindOf(x)
		switch {
		case x.Op == token.NOT:
			return "(!" + t.expr(x.X) + ")"
		case x.Op == token.SUB && k == kInt:
			return t.wrapS(w, "(-"+t.expr(x.X)+")", x)
		case x.Op == token.XOR && k == kByte:
			return "(~~~" + t.expr(x.X) + ")"
		}
		return t.fail(e, "unary operator %s on %s", x.Op, t.typeOf(x))
	case *ast.StarExpr:
		if c, ok := x.X.(*ast.CallExpr); ok && len(c.Args) == 1 {
			if fid, ok := c.Fun.(*ast.Ident); ok && fid.Name == "new" && t.objOf(fid) != nil && t.objOf(fid).Pkg() == nil {
				if tv, ok := t.u.info.Types[c.Args[0]]; ok && tv.IsType() {
					if tp, isTP := tv.Type.(*types.TypeParam); isTP && t.f.hasBinder(tp.Obj().Name()+"_zero") {
						return tp.Obj().Name() + "_zero" // *new(P): the zero value of the type parameter
					}
				}
			}
		}
		if kk, _ := t.kindOf(x.X); kk == kOpt {
			// *p: Go panics on nil (poison: the zero value)
			return "((" + t.expr(x.X) + ").getD default)"
		}
		return t.fail(e, "dereference of %s", t.typeOf(x.X))
	case *ast.CallExpr:
		return t.call(x)
	case *ast.IndexExpr:
		if k, _ := t.kindOf(x.X); k == kSet {
			return fmt.Sprintf("(decide (%s ∈ %s))", t.expr(x.Index), t.expr(x.X))
		}
		if k, _ := t.kindOf(x.X); k == kMapList {
			return fmt.Sprintf("(%s %s)", t.expr(x.X), t.expr(x.Index)) // missing key: the map function gives []
		}
		if k, _ := t.kindOf(x.X); k == kRecList {
			if el, _ := listElem(t.typeOf(x.X)); el != nil {
				if tp, isTP := el.(*types.TypeParam); isTP {
					return fmt.Sprintf("(GoSem.listAtD %s %s %s_zero)", t.expr(x.X), t.intExpr(x.Index), tp.Obj().Name())
				}
				if _, isAbs := absTypeOf(el); isAbs {
					return t.fail(e, "index into a list of abstract objects (no zero value)")
				}
			}
			return fmt.Sprintf("(GoSem.listAt %s %s)", t.expr(x.X), t.intExpr(x.Index))
		}
		if k, _ := t.kindOf(x.X); k != kBytes {
			return t.fail(e, "index into %s", t.typeOf(x.X))
		}
		return fmt.Sprintf("(GoSem.getAt %s %s)", t.expr(x.X), t.intExpr(x.Index))
	case *ast.SliceExpr:
		if k, _ := t.kindOf(x.X); k != kBytes || x.Slice3 {
			return t.fail(e, "slice of %s", t.typeOf(x.X))
		}
		base := t.expr(x.X)
		if x.Low == nil && x.High == nil {
			return base
		}
		lo, hi := "(0 : Int)", "(GoSem.len "+base+")"
		if x.Low != nil {
			lo = t.intExpr(x.Low)
		}
		if x.High != nil {
			hi = t.intExpr(x.High)
		}
		return fmt.Sprintf("(GoSem.slice %s %s %s)", base, lo, hi)
	case *ast.CompositeLit:
		if k, _ := t.kindOf(x); k == kAbs {
			an, _ := absTypeOf(t.typeOf(x))
			switch u := t.typeOf(x).Underlying().(type) {
			case *types.Map:
				if len(x.Elts) == 0 && t.f.hasBinder(an+"_empty") {
					return an + "_empty"
				}
			case *types.Struct:
				if len(x.Elts) == u.NumFields() && t.f.hasBinder(an+"_mk") {
					vals := make([]string, u.NumFields())
					for i, el := range x.Elts {
						if kv, ok := el.(*ast.KeyValueExpr); ok {
							kid, _ := kv.Key.(*ast.Ident)
							for j := 0; j < u.NumFields(); j++ {
								if kid != nil && u.Field(j).Name() == kid.Name {
									vals[j] = t.expr(kv.Value)
								}
							}
						} else {
							vals[i] = t.expr(el)
						}
					}
					for _, v := range vals {
						if v == "" {
							return t.fail(e, "composite literal of the abstract type %s: every field must be given once", an)
						}
					}
					return "(" + an + "_mk " + strings.Join(vals, " ") + ")"
				}
			}
			return t.fail(e, "composite literal of the abstract type %s", an)
		}
		if ri := recordOf(types.NewPointer(t.typeOf(x))); ri != nil && len(recordSpecs) > 0 {
			// &T{…} of a record type: the listed fields that are given (the others keep their zero value; fields not listed
			// with -record are not part of the record)
			st, _ := t.typeOf(x).Underlying().(*types.Struct)
			parts := []string{"isNil := false"}
			for i, el := range x.Elts {
				var name string
				var val ast.Expr
				if kv, ok := el.(*ast.KeyValueExpr); ok {
					if kid, ok := kv.Key.(*ast.Ident); ok {
						name, val = kid.Name, kv.Value
					}
				} else if st != nil && i < st.NumFields() {
					name, val = st.Field(i).Name(), el
				}
				if _, listed := ri.fieldTy[name]; listed && val != nil {
					parts = append(parts, leanName(name)+" := "+t.expr(val))
				}
			}
			return "({ (default : " + ri.lean + ") with " + strings.Join(parts, ", ") + " } : " + ri.lean + ")"
		}
		if k, _ := t.kindOf(x); k != kBytes {
			if st, ok := t.typeOf(x).Underlying().(*types.Struct); ok && st.NumFields() == 0 {
				return "()"
			}
			if st, ok := t.typeOf(x).Underlying().(*types.Struct); ok {
				// a struct value: the tuple of its fields of a supported type (zero unless given)
				fields := structFields(t.typeOf(x))
				given := map[string]ast.Expr{}
				for i, el := range x.Elts {
					if kv, ok := el.(*ast.KeyValueExpr); ok {
						if kid, ok := kv.Key.(*ast.Ident); ok {
							given[kid.Name] = kv.Value
						}
					} else if i < st.NumFields() {
						given[st.Field(i).Name()] = el
					}
				}
				var vs []string
				for _, fld := range fields {
					if ge, ok := given[fld.Name()]; ok {
						vs = append(vs, t.expr(ge))
						continue
					}
					kd, _ := classify(fld.Type())
					switch kd {
					case kBytes:
						if arr, ok := fld.Type().Underlying().(*types.Array); ok {
							vs = append(vs, fmt.Sprintf("(GoSem.makeBytes (%d : Int))", arr.Len()))
						} else {
							vs = append(vs, "([] : Bytes)")
						}
					case kBool:
						vs = append(vs, "false")
					default:
						vs = append(vs, "0")
					}
				}
				if len(vs) == 1 {
					return vs[0]
				}
				if len(vs) > 1 {
					return "(" + strings.Join(vs, ", ") + ")"
				}
			}
			return t.fail(e, "composite literal of type %s", t.typeOf(x))
		}
		var els []string
		for _, el := range x.Elts {
			if _, isKV := el.(*ast.KeyValueExpr); isKV {
				return t.fail(e, "keyed composite literal")
			}
			els = append(els, t.expr(el))
		}
		if arr, ok := t.typeOf(x).Underlying().(*types.Array); ok && int(arr.Len()) != len(els) {
			return t.fail(e, "array literal with %d of %d elements", len(els), arr.Len())
		}
		return "([" + strings.Join(els, ", ") + "] : Bytes)"
	}
	return t.fail(e, "expression %T", e)
}

// intExpr translates an index / size expression to a Lean Int.
func (t *tr) intExpr(e ast.Expr) string {
	k, _ := t.kindOf(e)
	switch k {
	case kInt:
		return t.expr(e)
	case kNat:
		return "(Int.ofNat " + t.expr(e) + ")"
	case kByte:
		return "(Int.ofNat " + t.expr(e) + ".toNat)"
	}
	return t.fail(e, "index of type %s", t.typeOf(e))
}

func (t *tr) wrapS(w int, s string, n ast.Node) string {
	switch w {
	case 0:
		return s
	case 64:
		return "(GoSem.i64 " + s + ")"
	case 32:
		return "(GoSem.i32 " + s + ")"
	}
	return t.fail(n, "signed arithmetic of width %d", w)
}

// cond translates a boolean expression to a decidable Prop.
func (t *tr) cond(e ast.Expr) string {
	switch x := e.(type) {
	case *ast.ParenExpr:
		return t.cond(x.X)
	case *ast.UnaryExpr:
		if x.Op == token.NOT {
			return "(¬ " + t.cond(x.X) + ")"
		}
	case *ast.BinaryExpr:
		switch x.Op {
		case token.LAND:
			return "(" + t.cond(x.X) + " ∧ " + t.cond(x.Y) + ")"
		case token.LOR:
			return "(" + t.cond(x.X) + " ∨ " + t.cond(x.Y) + ")"
		case token.EQL, token.NEQ, token.LSS, token.GTR, token.LEQ, token.GEQ:
			ka, _ := t.kindOf(x.X)
			kb, _ := t.kindOf(x.Y)
			if x.Op == token.EQL || x.Op == token.NEQ {
				isNilId := func(e ast.Expr) bool { id, ok := e.(*ast.Ident); return ok && id.Name == "nil" }
				var other ast.Expr
				if isNilId(x.Y) {
					other = x.X
				} else if isNilId(x.X) {
					other = x.Y
				}
				if other != nil {
					if s, ok := t.nilTest(other); ok {
						if x.Op == token.NEQ {
							return "(¬ " + s + ")"
						}
						return s
					}
				}
			}
			if !t.f.stateful && (x.Op == token.EQL || x.Op == token.NEQ) {
				isNilId := func(e ast.Expr) bool { id, ok := e.(*ast.Ident); return ok && id.Name == "nil" }
				var ev ast.Expr
				if isNilId(x.Y) {
					ev = x.X
				} else if isNilId(x.X) {
					ev = x.Y
				}
				if se, ok := ev.(*ast.SelectorExpr); ok && t.isFieldPath(se) {
					if ke, _ := t.kindOf(se); ke == kErr {
						v := t.expr(se)
						if x.Op == token.NEQ {
							return "(" + v + " = true)"
						}
						return "(" + v + " = false)"
					}
				}
				if id, ok := ev.(*ast.Ident); ok && t.f.errBool[t.objOf(id)] {
					if x.Op == token.NEQ {
						return "(" + t.f.env[t.objOf(id)] + " = true)"
					}
					return "(" + t.f.env[t.objOf(id)] + " = false)"
				}
			}
			if t.f.stateful && (x.Op == token.EQL || x.Op == token.NEQ) {
				isNil := func(e ast.Expr) bool { id, ok := e.(*ast.Ident); return ok && id.Name == "nil" }
				sym := map[token.Token]string{token.EQL: "=", token.NEQ: "≠"}[x.Op]
				switch {
				case ka == kErr && isNil(x.Y):
					return fmt.Sprintf("(%s %s (0 : Nat))", t.expr(x.X), sym)
				case kb == kErr && isNil(x.X):
					return fmt.Sprintf("(%s %s (0 : Nat))", t.expr(x.Y), sym)
				case ka == kErr && kb == kErr:
					return fmt.Sprintf("(%s %s %s)", t.expr(x.X), sym, t.expr(x.Y))
				}
			}
			if ka != kb || ka == kBad || ka == kErr || ka >= kRec || (ka == kBytes && x.Op != token.EQL && x.Op != token.NEQ) {
				// strings / byte arrays: equality is equality of the values; order comparisons are refused
				return t.fail(e, "comparison of %s and %s", t.typeOf(x.X), t.typeOf(x.Y))
			}
			op := map[token.Token]string{token.EQL: "=", token.NEQ: "≠", token.LSS: "<", token.GTR: ">", token.LEQ: "≤", token.GEQ: "≥"}[x.Op]
			return fmt.Sprintf("(%s %s %s)", t.expr(x.X), op, t.expr(x.Y))
		}
	}
	if k, _ := t.kindOf(e); k == kBool {
		return "(" + t.expr(e) + " = true)"
	}
	return t.fail(e, "condition %s", t.src(e))
}

func (t *tr) shiftCount(e ast.Expr, max int) (string, bool) {
	tv := t.u.info.Types[e]
	if tv.Value != nil {
		s := tv.Value.ExactString()
		var n int
		fmt.Sscanf(s, "%d", &n)
		if strings.HasPrefix(s, "-") || (max > 0 && n >= max) {
			return "", false
		}
		return s, true
	}
	return "", false
}

func (t *tr) binary(X ast.Expr, op token.Token, Y ast.Expr, ty types.Type, n ast.Node) string {
	k, w := classify(ty)
	a := t.expr(X)
	if op == token.SHL || op == token.SHR {
		switch k {
		case kByte:
			c, ok := t.shiftCount(Y, 8)
			if !ok {
				// variable count: through Nat (a Go byte shifted by ≥ 8 is 0; UInt8 shifts would reduce the count mod 8)
				cnt := t.natCount(Y, n)
				if op == token.SHL {
					return fmt.Sprintf("(UInt8.ofNat ((%s.toNat <<< %s) %% 256))", a, cnt)
				}
				return fmt.Sprintf("(UInt8.ofNat (%s.toNat >>> %s))", a, cnt)
			}
			if op == token.SHL {
				return fmt.Sprintf("(%s <<< (%s : UInt8))", a, c)
			}
			return fmt.Sprintf("(%s >>> (%s : UInt8))", a, c)
		case kNat:
			c, ok := t.shiftCount(Y, 0)
			if !ok {
				c = t.natCount(Y, n)
			}
			if op == token.SHL {
				return fmt.Sprintf("((%s <<< %s) %% %s)", a, c, pow2(w))
			}
			return fmt.Sprintf("(%s >>> %s)", a, c)
		case kInt:
			c, ok := t.shiftCount(Y, 63)
			if !ok {
				return t.fail(n, "signed shift by a non-constant count")
			}
			var cn int
			fmt.Sscanf(c, "%d", &cn)
			if op == token.SHL {
				return t.wrapS(w, fmt.Sprintf("(%s * %s)", a, pow2(cn)), n)
			}
			return fmt.Sprintf("(%s / %s)", a, pow2(cn)) // Int `/` rounds toward −∞ for a positive divisor = arithmetic shift
		}
		return t.fail(n, "shift on %s", ty)
	}
	b := t.expr(Y)
	switch k {
	case kByte:
		switch op {
		case token.ADD:
			return fmt.Sprintf("(%s + %s)", a, b)
		case token.SUB:
			return fmt.Sprintf("(%s - %s)", a, b)
		case token.MUL:
			return fmt.Sprintf("(%s * %s)", a, b)
		case token.AND:
			return fmt.Sprintf("(%s &&& %s)", a, b)
		case token.OR:
			return fmt.Sprintf("(%s ||| %s)", a, b)
		case token.XOR:
			return fmt.Sprintf("(%s ^^^ %s)", a, b)
		}
	case kNat:
		m := pow2(w)
		switch op {
		case token.ADD:
			return fmt.Sprintf("((%s + %s) %% %s)", a, b, m)
		case token.SUB:
			return fmt.Sprintf("((%s + %s - %s) %% %s)", a, m, b, m)
		case token.MUL:
			return fmt.Sprintf("((%s * %s) %% %s)", a, b, m)
		case token.QUO, token.REM:
			if tv := t.u.info.Types[Y]; tv.Value == nil || tv.Value.ExactString() == "0" {
				return t.fail(n, "division by a non-constant")
			}
			if op == token.QUO {
				return fmt.Sprintf("(%s / %s)", a, b)
			}
			return fmt.Sprintf("(%s %% %s)", a, b)
		case token.AND:
			return fmt.Sprintf("(%s &&& %s)", a, b)
		case token.OR:
			return fmt.Sprintf("(%s ||| %s)", a, b)
		case token.XOR:
			return fmt.Sprintf("(%s ^^^ %s)", a, b)
		}
	case kInt:
		switch op {
		case token.ADD:
			return t.wrapS(w, fmt.Sprintf("(%s + %s)", a, b), n)
		case token.SUB:
			return t.wrapS(w, fmt.Sprintf("(%s - %s)", a, b), n)
		case token.MUL:
			return t.wrapS(w, fmt.Sprintf("(%s * %s)", a, b), n)
		case token.QUO, token.REM:
			// Go truncates toward zero; a constant positive divisor excludes both the zero panic and the MinInt/-1 overflow
			tv := t.u.info.Types[Y]
			if tv.Value == nil || strings.HasPrefix(tv.Value.ExactString(), "-") || tv.Value.ExactString() == "0" {
				return t.fail(n, "signed division by a non-constant or non-positive divisor")
			}
			if op == token.QUO {
				return fmt.Sprintf("(Int.tdiv %s %s)", a, b)
			}
			return fmt.Sprintf("(Int.tmod %s %s)", a, b)
		}
	}
	return t.fail(n, "operator %s on %s", op, ty)
}

// natCount: a variable shift count as a Nat (Go panics on a negative count: `.toNat` gives 0 there — junk like other panics)
func (t *tr) natCount(Y ast.Expr, n ast.Node) string {
	switch ky, _ := t.kindOf(Y); ky {
	case kNat:
		return t.expr(Y)
	case kInt:
		return "(" + t.expr(Y) + ").toNat"
	case kByte:
		return t.expr(Y) + ".toNat"
	}
	return t.fail(n, "shift count of type %s", t.typeOf(Y))
}

func (t *tr) convert(c *ast.CallExpr, dst types.Type) string {
	if len(c.Args) != 1 {
		return t.fail(c, "conversion arity")
	}
	src := t.typeOf(c.Args[0])
	sk, sw := classify(src)
	dk, dw := classify(dst)
	a := t.expr(c.Args[0])
	switch {
	case sk == kBytes && dk == kBytes:
		return a
	case dk == kByte:
		switch sk {
		case kByte:
			return a
		case kNat:
			return "(UInt8.ofNat " + a + ")"
		case kInt:
			return "(UInt8.ofNat (GoSem.toUnsigned 8 " + a + "))"
		}
	case dk == kNat:
		switch sk {
		case kByte:
			return a + ".toNat"
		case kNat:
			if dw < sw {
				return fmt.Sprintf("(%s %% %s)", a, pow2(dw))
			}
			return a
		case kInt:
			return fmt.Sprintf("(GoSem.toUnsigned %d %s)", dw, a)
		}
	case dk == kInt && dw > 0:
		switch sk {
		case kByte:
			return "(Int.ofNat " + a + ".toNat)"
		case kNat:
			if sw < dw {
				return "(Int.ofNat " + a + ")"
			}
			return fmt.Sprintf("(GoSem.toSigned %d %s)", dw, a)
		case kInt:
			if sw != 0 && sw <= dw {
				return a
			}
			return t.wrapS(dw, a, c)
		}
	}
	return t.fail(c, "conversion %s -> %s", src, dst)
}

var endianFns = map[string]struct {
	w  int
	op string
}{"Uint16": {2, "get"}, "Uint32": {4, "get"}, "Uint64": {8, "get"},
	"AppendUint16": {2, "append"}, "AppendUint32": {4, "append"}, "AppendUint64": {8, "append"},
	"PutUint16": {2, "put"}, "PutUint32": {4, "put"}, "PutUint64": {8, "put"}}

// stdCallee: ("encoding/binary", "BigEndian", "PutUint32") style resolution of a call target
func (t *tr) stdCallee(fun ast.Expr) (pkg, recv, name string) {
	sel, ok := fun.(*ast.SelectorExpr)
	if !ok {
		return
	}
	switch x := sel.X.(type) {
	case *ast.Ident:
		if pn, ok := t.objOf(x).(*types.PkgName); ok {
			return pn.Imported().Path(), "", sel.Sel.Name
		}
	case *ast.SelectorExpr:
		if id, ok := x.X.(*ast.Ident); ok {
			if pn, ok := t.objOf(id).(*types.PkgName); ok {
				return pn.Imported().Path(), x.Sel.Name, sel.Sel.Name
			}
		}
	}
	return
}

// calleeKeys: the forms under which a flag may name the callee of a call: the printed source (`c.bc.Encrypt`), the source
// with the receiver / parameter root made canonical (`r.bc.Encrypt`, `a0.id`), and the method / function by type
// (`(crypto/cipher.Block).Encrypt`, `crypto/aes.NewCipher`; the module prefix is dropped) — the last two do not depend
// on the names of Go locals.
func (t *tr) calleeKeys(c *ast.CallExpr) []string {
	keys := []string{t.src(c.Fun)}
	strip := func(s string) string { return strings.ReplaceAll(s, modulePath, "") }
	switch x := c.Fun.(type) {
	case *ast.SelectorExpr:
		if sel, ok := t.u.info.Selections[x]; ok {
			keys = append(keys, t.pathKey(x.X)+"."+x.Sel.Name)
			if fn, ok := sel.Obj().(*types.Func); ok {
				keys = append(keys, strip(fn.FullName()))
				// also by the static type of the receiver expression (an interface field calls the interface's method)
				keys = append(keys, "("+strip(types.TypeString(t.typeOf(x.X), nil))+")."+x.Sel.Name)
			}
		} else if fn, ok := t.u.info.Uses[x.Sel].(*types.Func); ok {
			keys = append(keys, strip(fn.FullName()))
		}
	case *ast.Ident:
		if fn, ok := t.u.info.Uses[x].(*types.Func); ok && fn.Pkg() != t.u.pkg {
			keys = append(keys, strip(fn.FullName()))
		}
	}
	return keys
}

// ck: the flag pattern that names this call's callee (the printed source if no flag does)
func (t *tr) ck(c *ast.CallExpr) string {
	if os.Getenv("GLUETR_KEYS") != "" {
		fmt.Fprintf(os.Stderr, "KEYS %v\n", t.calleeKeys(c))
	}
	if t.f != nil && len(t.f.patterns) > 0 {
		for _, k := range t.calleeKeys(c) {
			for _, p := range t.f.patterns {
				if p == k {
					return p
				}
			}
		}
	}
	return t.src(c.Fun)
}

func (t *tr) unitOfPath(path string) *unit {
	for _, u := range t.units {
		if modulePath+u.dir == path {
			return u
		}
	}
	return nil
}

func (t *tr) call(c *ast.CallExpr) string {
	info := t.u.info
	if tv, ok := info.Types[c.Fun]; ok && tv.IsType() {
		return t.convert(c, tv.Type)
	}
	if idx, ok := t.f.ctors[t.ck(c)]; ok {
		if idx >= len(c.Args) {
			return t.fail(c, "-ctor argument index")
		}
		return t.expr(c.Args[idx])
	}
	if o, ok := t.f.inouts[t.ck(c)]; ok {
		// in expression position only with a nil destination: nothing of the caller's is written
		if id, isId := c.Args[0].(*ast.Ident); !isId || id.Name != "nil" {
			return t.fail(c, "-inout call %s with a destination in expression position", t.src(c.Fun))
		}
		args := []string{"([] : Bytes)"}
		for _, a := range c.Args[1:] {
			args = append(args, t.expr(a))
		}
		return "(" + leanName(o.name) + " " + strings.Join(args, " ") + ")"
	}
	if o, ok := t.f.opaque[t.ck(c)]; ok {
		var args []string
		if sel, isSel := c.Fun.(*ast.SelectorExpr); isSel {
			if kr, _ := t.kindOf(sel.X); kr == kAbs {
				args = append(args, t.expr(sel.X)) // a method of an abstract object: the object is the first argument
			}
		}
		for _, a := range c.Args {
			if ty := t.typeOf(a); ty != nil && emptyStruct(ty) {
				continue // a token: no information
			}
			args = append(args, t.expr(a))
		}
		if len(args) == 0 {
			return o.name
		}
		return "(" + o.name + " " + strings.Join(args, " ") + ")"
	}
	if id, ok := c.Fun.(*ast.Ident); ok {
		if _, isB := t.objOf(id).(*types.Builtin); isB {
			switch id.Name {
			case "len":
				if k, _ := t.kindOf(c.Args[0]); k == kRecList || k == kSet {
					return "(Int.ofNat (" + t.expr(c.Args[0]) + ").length)"
				}
				if k, _ := t.kindOf(c.Args[0]); k != kBytes {
					return t.fail(c, "len of %s", t.typeOf(c.Args[0]))
				}
				if vw := t.viewOf(c.Args[0]); vw != nil {
					return "(" + t.f.env[vw.hi] + " - " + t.f.env[vw.lo] + ")"
				}
				return "(GoSem.len " + t.expr(c.Args[0]) + ")"
			case "make":
				if k, _ := classify(t.typeOf(c)); k == kSet {
					return "([] : " + t.leanType(t.typeOf(c)) + ")"
				}
				if k, _ := classify(t.typeOf(c)); k != kBytes || len(c.Args) < 2 {
					return t.fail(c, "make of %s", t.typeOf(c))
				}
				if tv := t.u.info.Types[c.Args[1]]; tv.Value != nil && tv.Value.ExactString() == "0" {
					return "([] : Bytes)" // make([]byte, 0, n): an empty buffer to append to
				}
				return "(GoSem.makeBytes " + t.intExpr(c.Args[1]) + ")"
			case "append":
				if k, _ := classify(t.typeOf(c)); k == kRecList && !c.Ellipsis.IsValid() {
					var els []string
					for _, a := range c.Args[1:] {
						els = append(els, t.expr(a))
					}
					return "(" + t.expr(c.Args[0]) + " ++ [" + strings.Join(els, ", ") + "])"
				}
				if k, _ := classify(t.typeOf(c)); k != kBytes {
					return t.fail(c, "append on %s", t.typeOf(c))
				}
				base := t.expr(c.Args[0])
				empty := base == "([] : Bytes)" || t.f.knownEmpty[base]
				if c.Ellipsis.IsValid() {
					if empty {
						return t.expr(c.Args[1]) // append(<empty>, x...) is a fresh copy of x
					}
					return "(" + base + " ++ " + t.expr(c.Args[1]) + ")"
				}
				var els []string
				for _, a := range c.Args[1:] {
					els = append(els, t.expr(a))
				}
				if empty {
					return "([" + strings.Join(els, ", ") + "] : Bytes)"
				}
				return "(" + base + " ++ [" + strings.Join(els, ", ") + "])"
			}
				if (id.Name == "min" || id.Name == "max") && len(c.Args) >= 2 {
					if k, _ := t.kindOf(c); k == kInt || k == kNat {
						r := t.expr(c.Args[0])
						for _, a := range c.Args[1:] {
							r = fmt.Sprintf("(%s %s %s)", id.Name, r, t.expr(a))
						}
						return r
					}
				}
				return t.fail(c, "builtin %s in an expression", id.Name)
		}
		if sg := t.calleeSig(c); sg != nil && sg.nImplicit > 0 && !sg.proc {
			return t.callSig(id.Name, sg, c)
		}
		if t.u.emitted[id.Name] {
			return t.callTranslated(t.u, id.Name, nil, c)
		}
		if sg := t.calleeSig(c); sg != nil {
			return t.callSig(id.Name, sg, c)
		}
		return t.fail(c, "call of untranslated function %s", id.Name)
	}
	if sg := t.calleeSig(c); sg != nil {
		return t.callSig(c.Fun.(*ast.SelectorExpr).Sel.Name, sg, c)
	}
	pkg, recv, name := t.stdCallee(c.Fun)
	if t.f.stateful && ((pkg == "fmt" && name == "Errorf") || (pkg == "errors" && name == "New")) {
		return "(1 : Nat)"
	}
	var args []string
	argv := func() []string {
		if args == nil {
			for _, a := range c.Args {
				args = append(args, t.expr(a))
			}
		}
		return args
	}
	switch {
	case pkg == "encoding/binary" && (recv == "BigEndian" || recv == "LittleEndian"):
		e := "BE"
		if recv == "LittleEndian" {
			e = "LE"
		}
		if f, ok := endianFns[name]; ok {
			switch f.op {
			case "get":
				return fmt.Sprintf("(GoSem.get%s %d %s)", e, f.w, argv()[0])
			case "append":
				return fmt.Sprintf("(%s ++ Bytes.ofNat%s %d %s)", argv()[0], e, f.w, argv()[1])
			}
		}
	case pkg == "slices" && name == "Concat":
		if k, _ := classify(t.typeOf(c)); k == kBytes {
			if len(c.Args) == 0 {
				return "([] : Bytes)"
			}
			return "(" + strings.Join(argv(), " ++ ") + ")"
		}
	case (pkg == "slices" || pkg == "bytes") && name == "Clone":
		if k, _ := classify(t.typeOf(c)); k == kBytes {
			return argv()[0]
		}
	case pkg == "slices" && name == "ContainsFunc" && len(c.Args) == 2:
		return t.containsFunc(c)
	case pkg == "slices" && name == "Equal" && len(c.Args) == 2:
		if k, _ := t.kindOf(c.Args[0]); k == kBytes {
			return "(decide (" + argv()[0] + " = " + argv()[1] + "))"
		}
	case pkg == "bytes" && name == "HasPrefix" && len(c.Args) == 2:
		a, p := argv()[0], argv()[1]
		return fmt.Sprintf("(decide (((GoSem.len %s) ≥ (GoSem.len %s)) ∧ ((GoSem.slice %s (0 : Int) (GoSem.len %s)) = %s)))", a, p, a, p, p)
	case pkg == "bytes" && name == "Equal" && len(c.Args) == 2:
		return "(decide (" + argv()[0] + " = " + argv()[1] + "))"
	case pkg == "crypto/subtle" && recv == "":
		switch name {
		case "ConstantTimeCompare":
			return "(GoSem.ctCompare " + strings.Join(argv(), " ") + ")"
		case "ConstantTimeSelect":
			return "(GoSem.ctSelect " + strings.Join(argv(), " ") + ")"
		case "ConstantTimeEq":
			return "(GoSem.ctEq " + strings.Join(argv(), " ") + ")"
		case "ConstantTimeLessOrEq":
			return "(GoSem.ctLessOrEq " + strings.Join(argv(), " ") + ")"
		}
	case pkg != "" && recv == "":
		if sg := t.calleeSig(c); sg != nil && sg.nImplicit > 0 {
			return t.callSig(name, sg, c)
		}
		if u := t.unitOfPath(pkg); u != nil && u.emitted[name] {
			return t.callTranslated(u, name, nil, c)
		}
	}
	return t.fail(c, "call of %s", t.src(c.Fun))
}

// callSig: call of an emitted function with implicit binders (passed on by name / current value of the field path)
func (t *tr) callSig(name string, sg *fsig, c *ast.CallExpr) string {
	if sg.proc {
		return t.fail(c, "call of the procedure %s in expression position", name)
	}
	var args []string
	next := 0
	for i, b := range sg.binders {
		if sg.implicit[i] {
			if src, isPath := sg.pathSrc[b.name]; isPath {
				src = t.mapCalleePath(c, src)
				v, ok := t.f.env[t.pathVarNamed(src, c.Pos(), sg.pathTy[b.name])]
				if !ok {
					return t.fail(c, "callee %s needs %s, which has no value here", name, src)
				}
				args = append(args, v)
				continue
			}
			if !t.f.hasBinder(b.name) {
				return t.fail(c, "callee %s needs the parameter %s, which this definition does not have", name, b.name)
			}
			args = append(args, b.name)
			continue
		}
		if next >= len(c.Args) {
			return t.fail(c, "call arity of %s", name)
		}
		args = append(args, t.expr(c.Args[next]))
		if id, ok := c.Args[next].(*ast.Ident); ok {
			if _, isPtr := t.typeOf(id).(*types.Pointer); isPtr {
				if k, _ := classify(t.typeOf(id)); k == kAbs && t.objOf(id) != nil && sg.consumes {
					if _, isParam := t.f.rootCanon[t.objOf(id)]; isParam {
						t.f.consumesParams = true
					}
					defer func(o types.Object) { t.f.consumed[o] = true }(t.objOf(id))
				}
			}
		}
		next++
	}
	if next != len(c.Args) {
		return t.fail(c, "call arity of %s", name)
	}
	if len(args) == 0 {
		return sg.qual
	}
	return "(" + sg.qual + " " + strings.Join(args, " ") + ")"
}

// qualified: the full name of a definition of the current unit (a Go local of the same name would otherwise shadow it
// inside `def f.local`, whose body is elaborated in namespace f)
func (t *tr) qualified(name string) string {
	return t.ns + "." + t.u.sub + "." + leanName(name)
}

// procCall: a call of an emitted procedure (value = new content of the slice arguments it writes, a tuple if several).
// Returns the destination windows and the Lean call in which each destination argument is the current window content.
type procOut struct {
	dst          types.Object
	cur, lo, hi  string
	whole        bool
}

func (t *tr) procCall(name string, sg *fsig, c *ast.CallExpr) (outs []procOut, call string, ok bool) {
	if len(sg.outIdx) == 0 {
		t.fail(c, "call of procedure %s, which writes no slice parameter", name)
		return
	}
	isOut := map[int]int{}
	for k, oi := range sg.outIdx {
		di := oi - sg.nRecv
		if di < 0 || di >= len(c.Args) {
			t.fail(c, "procedure call arity of %s", name)
			return
		}
		isOut[di] = k
		dst, cur, lo, hi, okw := t.window(c.Args[di])
		if !okw {
			return
		}
		for _, o := range outs {
			if o.dst == dst {
				t.fail(c, "two written arguments of %s share the variable %s", name, dst.Name())
				return
			}
		}
		outs = append(outs, procOut{dst: dst, cur: cur, lo: lo, hi: hi})
	}
	var args []string
	next := 0
	for i, b := range sg.binders {
		if sg.implicit[i] {
			if src, isPath := sg.pathSrc[b.name]; isPath {
				v, have := t.f.env[t.pathVarNamed(src, c.Pos(), sg.pathTy[b.name])]
				if !have {
					t.fail(c, "callee %s needs %s, which has no value here", name, src)
					return
				}
				args = append(args, v)
				continue
			}
			if !t.f.hasBinder(b.name) {
				t.fail(c, "callee %s needs the parameter %s, which this definition does not have", name, b.name)
				return
			}
			args = append(args, b.name)
			continue
		}
		if next >= len(c.Args) {
			t.fail(c, "call arity of %s", name)
			return
		}
		if k, isO := isOut[next]; isO {
			a := c.Args[next]
			o := &outs[k]
			if se, isSl := a.(*ast.SliceExpr); t.viewOf(a) == nil && (!isSl || (se.Low == nil && se.High == nil && t.viewOf(se.X) == nil)) {
				o.whole = true
				args = append(args, o.cur)
			} else {
				args = append(args, fmt.Sprintf("(GoSem.slice %s %s %s)", o.cur, o.lo, o.hi))
			}
		} else {
			for _, o := range outs {
				if rootIs(t, c.Args[next], o.dst) {
					t.fail(c, "procedure argument %s overlaps a written argument", t.src(c.Args[next]))
					return
				}
			}
			args = append(args, t.expr(c.Args[next]))
		}
		next++
	}
	if next != len(c.Args) {
		t.fail(c, "call arity of %s", name)
		return
	}
	call = "(" + sg.qual + " " + strings.Join(args, " ") + ")"
	ok = true
	return
}

// storeProcOuts writes the components of a procedure's value `val` (a tuple when there are several outputs) back
func (t *tr) storeProcOuts(outs []procOut, val string, n ast.Node) {
	for k, o := range outs {
		p := val
		if len(outs) > 1 {
			for j := 0; j < k; j++ {
				p += ".2"
			}
			if k < len(outs)-1 {
				p += ".1"
			}
		}
		if o.whole {
			t.store(o.dst, n, p)
		} else {
			t.store(o.dst, n, fmt.Sprintf("GoSem.copyInto %s %s %s %s", t.f.env[o.dst], o.lo, o.hi, p))
		}
	}
}

func poisonTuple(n int) string {
	if n == 1 {
		return "[]"
	}
	var ps []string
	for i := 0; i < n; i++ {
		ps = append(ps, "[]")
	}
	return "(" + strings.Join(ps, ", ") + ")"
}

func bytesTuple(n int) string {
	var ps []string
	for i := 0; i < n; i++ {
		ps = append(ps, "Bytes")
	}
	return strings.Join(ps, " × ")
}

func calleeName(c *ast.CallExpr) string {
	switch x := c.Fun.(type) {
	case *ast.Ident:
		return x.Name
	case *ast.SelectorExpr:
		return x.Sel.Name
	}
	return ""
}

func (t *tr) callTranslated(u *unit, name string, _ []string, c *ast.CallExpr) string {
	var args []string
	for _, a := range c.Args {
		args = append(args, t.expr(a))
	}
	full := leanName(name)
	if u != t.u {
		full = t.ns + "." + u.sub + "." + full
	}
	if len(args) == 0 {
		return full
	}
	return "(" + full + " " + strings.Join(args, " ") + ")"
}
