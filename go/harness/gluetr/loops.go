//go:build verif

package main

import (
	"fmt"
	"go/ast"
	"go/token"
	"go/types"
	"sort"
	"strings"
)

// General loops (everything that is not the plain `for i := 0; i < N; i++ { no return / break / continue }`):
//
//	for i := a; i < b; i++ { … }      index list GoSem.rangeUp a b
//	for i := a; i >= b; i-- { … }     index list GoSem.rangeDown a b
//	for cond { … }   for { … }        GoSem.whileSteps with the extra parameter `fuel : Nat` of the definition
//
// The body is a function state → GoSem.Step ρ σ (next s | brk s | ret r) where ρ is the result type of the enclosing
// definition; `return e` is `ret e`, `break` is `brk`, `continue` and the end of the body are `next`.  The loop yields
// (Option ρ × σ): an early result, or the final state from which the statements after the loop continue.
// A tie theorem about a definition with `fuel` is stated for every sufficiently large fuel: it then also shows that the
// Go loop terminates within that many iterations.
type loopCtx struct {
	state func() string
	post  ast.Stmt // the post statement of a general `for init; cond; post`: runs at the end of the body and on `continue`
}

func isSimpleFor(t *tr, x *ast.ForStmt) bool {
	init, ok1 := x.Init.(*ast.AssignStmt)
	cnd, ok2 := x.Cond.(*ast.BinaryExpr)
	post, ok3 := x.Post.(*ast.IncDecStmt)
	if !ok1 || !ok2 || !ok3 || init.Tok != token.DEFINE || len(init.Lhs) != 1 || len(init.Rhs) != 1 || cnd.Op != token.LSS || post.Tok != token.INC {
		return false
	}
	if tv := t.u.info.Types[init.Rhs[0]]; tv.Value == nil || tv.Value.ExactString() != "0" {
		return false
	}
	return !exits(x.Body.List)
}

// hasWhile: some loop needs the fuel parameter (a while loop, or a for loop that is not an index loop)
func hasWhile(t *tr, stmts []ast.Stmt) bool {
	found := false
	for _, s := range stmts {
		ast.Inspect(s, func(n ast.Node) bool {
			if fs, ok := n.(*ast.ForStmt); ok {
				if (fs.Init == nil && fs.Post == nil) || !indexLoopForm(t, fs) {
					found = true
				}
			}
			return true
		})
	}
	return found
}

// indexLoopForm: `for i := a; i < b; i++` or `for i := a; i >= b; i--` over an int variable that the body does not modify
func indexLoopForm(t *tr, x *ast.ForStmt) bool {
	init, ok1 := x.Init.(*ast.AssignStmt)
	cnd, ok2 := x.Cond.(*ast.BinaryExpr)
	post, ok3 := x.Post.(*ast.IncDecStmt)
	if !ok1 || !ok2 || !ok3 || init.Tok != token.DEFINE || len(init.Lhs) != 1 || len(init.Rhs) != 1 {
		return false
	}
	iv, ok := init.Lhs[0].(*ast.Ident)
	if !ok {
		return false
	}
	iobj := t.u.info.Defs[iv]
	ci, okc := cnd.X.(*ast.Ident)
	pi, okp := post.X.(*ast.Ident)
	if !okc || !okp || iobj == nil || t.u.info.Uses[ci] != iobj || t.u.info.Uses[pi] != iobj {
		return false
	}
	if kd, w := classify(iobj.Type()); kd != kInt || w != 64 {
		return false
	}
	if !((cnd.Op == token.LSS && post.Tok == token.INC) || (cnd.Op == token.GEQ && post.Tok == token.DEC)) {
		return false
	}
	// the loop variable must not be assigned in the body
	mod := false
	ast.Inspect(x.Body, func(n ast.Node) bool {
		switch y := n.(type) {
		case *ast.AssignStmt:
			for _, l := range y.Lhs {
				if id, ok := l.(*ast.Ident); ok && t.u.info.Uses[id] == iobj {
					mod = true
				}
			}
		case *ast.IncDecStmt:
			if id, ok := y.X.(*ast.Ident); ok && t.u.info.Uses[id] == iobj {
				mod = true
			}
		}
		return true
	})
	return !mod
}

// loopAsWhile: any other `for init; cond; post { body }` is `init; for cond { body; post }` (a while loop with fuel)
func (t *tr) loopAsWhile(x *ast.ForStmt, rest []ast.Stmt, depth int, k func() string) string {
	if false {
		hasContinue := false
		var walk func(n ast.Node)
		walk = func(n ast.Node) {
			ast.Inspect(n, func(y ast.Node) bool {
				switch z := y.(type) {
				case *ast.ForStmt, *ast.RangeStmt, *ast.FuncLit:
					if z != n {
						return false
					}
				case *ast.BranchStmt:
					if z.Tok == token.CONTINUE {
						hasContinue = true
					}
				}
				return true
			})
		}
		walk(x.Body)
		if hasContinue {
			return t.fail(x, "general for loop with a post statement and `continue`")
		}
	}
	body := append([]ast.Stmt{}, x.Body.List...)
	w := &ast.ForStmt{For: x.For, Cond: x.Cond, Body: &ast.BlockStmt{Lbrace: x.Body.Lbrace, List: body, Rbrace: x.Body.Rbrace}}
	if x.Post != nil {
		t.postOf[w] = x.Post
	}
	var stmts []ast.Stmt
	if x.Init != nil {
		stmts = append(stmts, x.Init)
	}
	stmts = append(stmts, w)
	return t.block(append(stmts, rest...), depth, k)
}

func containsReturn(stmts []ast.Stmt) bool {
	found := false
	for _, s := range stmts {
		ast.Inspect(s, func(n ast.Node) bool {
			switch n.(type) {
			case *ast.FuncLit:
				return false
			case *ast.ReturnStmt:
				found = true
			}
			return true
		})
	}
	return found
}

func hasBreak(stmts []ast.Stmt) bool {
	found := false
	var walk func(n ast.Node)
	walk = func(n ast.Node) {
		ast.Inspect(n, func(x ast.Node) bool {
			switch y := x.(type) {
			case *ast.ForStmt, *ast.RangeStmt, *ast.SwitchStmt, *ast.FuncLit:
				if y != n {
					return false // a break in there leaves that statement
				}
			case *ast.BranchStmt:
				if y.Tok == token.BREAK {
					found = true
				}
			}
			return true
		})
	}
	for _, s := range stmts {
		walk(s)
	}
	return found
}

// fuelOut: the value of a definition whose infinite loop ran out of fuel
func (t *tr) fuelOut(n ast.Node) string {
	f := t.f
	if f.stateful {
		var vs []string
		for _, o := range f.stateObjs {
			vs = append(vs, f.env[o])
		}
		for _, o := range f.outParams {
			vs = append(vs, f.env[o])
		}
		for i := 0; i < f.goSig.Results().Len(); i++ {
			kd, _ := classify(f.goSig.Results().At(i).Type())
			switch kd {
			case kBytes:
				vs = append(vs, "([] : Bytes)")
			case kBool:
				vs = append(vs, "false")
			case kErr:
				vs = append(vs, "(1 : Nat)")
			default:
				vs = append(vs, "0")
			}
		}
		if len(vs) == 1 {
			return t.wrapRet(vs[0])
		}
		return t.wrapRet("(" + strings.Join(vs, ", ") + ")")
	}
	if f.optional {
		return t.wrapRet("none")
	}
	return t.fail(n, "infinite loop in a function without an error result")
}

func (t *tr) wrapRet(r string) string {
	if len(t.f.loops) > 0 {
		return "GoSem.Step.ret (" + r + ")"
	}
	return r
}

func (t *tr) loopGeneral(x *ast.ForStmt, rest []ast.Stmt, depth int, k func() string) string {
	var iobj types.Object
	var list string
	var condE ast.Expr
	switch {
	case x.Init == nil && x.Post == nil:
		condE = x.Cond // may be nil: for { }
		if condE != nil {
			// a condition that calls a stateful helper is evaluated inside the body: for { if cond {} else { break }; … }
			hasStateful := false
			ast.Inspect(condE, func(n ast.Node) bool {
				if ce, ok := n.(ast.Expr); ok {
					if _, sg := t.statefulSig(ce); sg != nil {
						hasStateful = true
					}
				}
				return true
			})
			if hasStateful {
				guard := &ast.IfStmt{If: x.For, Cond: condE, Body: &ast.BlockStmt{Lbrace: x.For, Rbrace: x.For},
					Else: &ast.BlockStmt{Lbrace: x.For, List: []ast.Stmt{&ast.BranchStmt{TokPos: x.For, Tok: token.BREAK}}, Rbrace: x.For}}
				nb := &ast.BlockStmt{Lbrace: x.Body.Lbrace, List: append([]ast.Stmt{guard}, x.Body.List...), Rbrace: x.Body.Rbrace}
				return t.loopCore(x, nb, nil, "", nil, nil, rest, depth, k)
			}
		}
	default:
		if !indexLoopForm(t, x) {
			return t.loopAsWhile(x, rest, depth, k)
		}
		init, ok1 := x.Init.(*ast.AssignStmt)
		cnd, ok2 := x.Cond.(*ast.BinaryExpr)
		post, ok3 := x.Post.(*ast.IncDecStmt)
		if !ok1 || !ok2 || !ok3 || init.Tok != token.DEFINE || len(init.Lhs) != 1 || len(init.Rhs) != 1 {
			return t.fail(x, "loop is not of the form `for i := a; i < b; i++`, `for i := a; i >= b; i--` or `for cond`")
		}
		iv, ok := init.Lhs[0].(*ast.Ident)
		if !ok {
			return t.fail(x, "loop variable")
		}
		iobj = t.u.info.Defs[iv]
		ci, okc := cnd.X.(*ast.Ident)
		pi, okp := post.X.(*ast.Ident)
		if !okc || !okp || t.objOf(ci) != iobj || t.objOf(pi) != iobj {
			return t.fail(x, "loop condition / post statement do not use the loop variable")
		}
		if kd, w := classify(iobj.Type()); kd != kInt || w != 64 {
			return t.fail(x, "loop variable of type %s", iobj.Type())
		}
		written := t.assignedObjs(x.Body.List)
		inv := true
		ast.Inspect(cnd.Y, func(n ast.Node) bool {
			if id, ok := n.(*ast.Ident); ok {
				if o := t.u.info.Uses[id]; o != nil && written[o] {
					inv = false
				}
			}
			return true
		})
		if !inv {
			return t.fail(x, "loop bound is modified in the body")
		}
		a, b := t.intExpr(init.Rhs[0]), t.intExpr(cnd.Y)
		switch {
		case cnd.Op == token.LSS && post.Tok == token.INC:
			list = fmt.Sprintf("(GoSem.rangeUp %s %s)", a, b)
		case cnd.Op == token.GEQ && post.Tok == token.DEC:
			list = fmt.Sprintf("(GoSem.rangeDown %s %s)", a, b)
		default:
			return t.fail(x, "loop direction")
		}
	}
	return t.loopCore(x, x.Body, iobj, list, condE, nil, rest, depth, k)
}

// loopCore: a loop over an index list (iobj != nil) or a while loop (iobj == nil, condE may be nil), body with GoSem.Step
func (t *tr) loopCore(x ast.Node, xBody *ast.BlockStmt, iobj types.Object, list string, condE ast.Expr, pre func(in string), rest []ast.Stmt, depth int, k func() string) string {
	f := t.f
	bad := false
	ast.Inspect(xBody, func(n ast.Node) bool {
		switch b := n.(type) {
		case *ast.GoStmt, *ast.DeferStmt, *ast.FuncLit, *ast.LabeledStmt, *ast.SelectStmt:
			bad = true
		case *ast.BranchStmt:
			if b.Label != nil || (b.Tok != token.BREAK && b.Tok != token.CONTINUE) {
				bad = true
			}
		}
		return true
	})
	if bad {
		return t.fail(x, "loop body with go / defer / closure / label / goto")
	}
	written := t.assignedObjs(xBody.List)
	if fs, ok := x.(*ast.ForStmt); ok && t.postOf[fs] != nil {
		for o := range t.assignedObjs([]ast.Stmt{t.postOf[fs]}) {
			written[o] = true
		}
	}
	var iname, cond string
	if iobj != nil {
		if written[iobj] {
			return t.fail(x, "loop variable is modified in the body")
		}
		iname = "i"
	}
	var state []types.Object
	for o := range written {
		if _, ok := f.env[o]; ok && o != iobj {
			state = append(state, o)
		}
	}
	t.rankAll(state)
	sort.Slice(state, func(i, j int) bool { return t.rank(state[i]) < t.rank(state[j]) })
	var tys, inits []string
	for _, o := range state {
		tys = append(tys, t.leanTypeOfObj(o))
		inits = append(inits, f.env[o])
	}
	sigma, initV := "Unit", "()"
	if len(state) > 0 {
		sigma = strings.Join(tys, " × ")
		initV = strings.Join(inits, ", ")
		if len(state) > 1 {
			initV = "(" + initV + ")"
		}
	}
	f.loopN++
	ln := fmt.Sprintf("loop%d", f.loopN)
	sn := fmt.Sprintf("s%d", f.loopN)
	if iname != "" {
		iname = fmt.Sprintf("i%d", f.loopN) // canonical, not the Go name
	}
	savedB, savedEnv, savedName := f.binders, t.cloneEnv(), f.name
	savedViews := map[types.Object]*view{}
	for o, v := range f.views {
		savedViews[o] = v
	}
	outerArgs, outerDecl := f.args(), f.binderDecl()
	f.binders = append(append([]binder{}, f.binders...), binder{sn, sigma})
	if iobj != nil {
		f.binders = append(f.binders, binder{iname, "Int"})
		f.env[iobj] = iname
		if pre != nil {
			pre(iname)
		}
	}
	proj := func(base string, i int) string {
		p := base
		if len(state) > 1 {
			for j := 0; j < i; j++ {
				p += ".2"
			}
			if i < len(state)-1 {
				p += ".1"
			}
		}
		return p
	}
	for i, o := range state {
		f.env[o] = proj(sn, i)
	}
	f.name = savedName + "." + ln
	stateNow := func() string {
		if len(state) == 0 {
			return "()"
		}
		var vs []string
		for _, o := range state {
			vs = append(vs, f.env[o])
		}
		if len(vs) == 1 {
			return vs[0]
		}
		return "(" + strings.Join(vs, ", ") + ")"
	}
	if condE != nil {
		cond = t.cond(condE)
	}
	var post ast.Stmt
	if fs, ok := x.(*ast.ForStmt); ok {
		post = t.postOf[fs]
	}
	f.loops = append(f.loops, &loopCtx{state: stateNow, post: post})
	endBody := func() string { return "GoSem.Step.next " + stateNow() }
	if post != nil {
		endBody = func() string {
			return strings.TrimLeft(t.block([]ast.Stmt{post}, 1, func() string { return "GoSem.Step.next " + stateNow() }), " ")
		}
	}
	body := t.block(xBody.List, 1, endBody)
	f.loops = f.loops[:len(f.loops)-1]
	if cond != "" {
		body = fmt.Sprintf("  if %s then\n%s\n  else GoSem.Step.brk %s", cond, body, sn)
	}
	rho := f.resTy
	stepTy := fmt.Sprintf("GoSem.Step (%s) (%s)", rho, sigma)
	bodyName := savedName + "." + ln + ".body"
	f.aux = append(f.aux, fmt.Sprintf("def %s %s : %s :=\n%s\n", bodyName, f.binderDecl(), stepTy, body))
	f.binders, f.env, f.name, f.views = savedB, savedEnv, savedName, savedViews
	loopName := savedName + "." + ln
	resTy := fmt.Sprintf("Option (%s) × (%s)", rho, sigma)
	if iobj != nil {
		f.aux = append(f.aux, fmt.Sprintf("def %s %s : %s :=\n  GoSem.forSteps %s %s (fun %s %s => %s %s %s %s)\n", loopName, outerDecl, resTy,
			list, initV, sn, iname, bodyName, outerArgs, sn, iname))
	} else {
		if !f.hasBinder("fuel") {
			return t.fail(x, "internal: while loop without a fuel parameter")
		}
		f.aux = append(f.aux, fmt.Sprintf("def %s %s : %s :=\n  GoSem.whileSteps fuel %s (fun %s => %s %s %s)\n", loopName, outerDecl, resTy,
			initV, sn, bodyName, outerArgs, sn))
	}
	res := loopName
	if outerArgs != "" {
		res = "(" + loopName + " " + outerArgs + ")"
	}
	for i, o := range state {
		f.env[o] = t.define(o.Name(), t.leanTypeOfObj(o), proj(res+".2", i))
	}
	if !containsReturn(xBody.List) {
		return t.block(rest, depth, k)
	}
	if iobj == nil && condE == nil && !hasBreak(xBody.List) {
		// `for { … return … }`: the statements after the loop are unreachable in Go; running out of fuel gives the
		// current state with zero results (tie theorems are stated for sufficient fuel)
		if len(rest) != 0 {
			return t.fail(x, "statements after an infinite loop without break")
		}
		k = func() string { return t.fuelOut(x) }
	}
	after := t.block(rest, depth+1, k)
	return fmt.Sprintf("%smatch %s.1 with\n%s| some r__ => %s\n%s| none =>\n%s", ind(depth), res, ind(depth), t.wrapRet("r__"), ind(depth), after)
}
