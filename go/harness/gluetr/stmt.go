//go:build verif

package main

import (
	"fmt"
	"go/ast"
	"go/token"
	"go/types"
	"sort"
	"strings"
)

// ---------- stores ----------

// placeObj: the variable, or the synthetic variable of a field path, that an expression denotes (nil if neither).
func (t *tr) placeObj(e ast.Expr) (types.Object, string) {
	switch x := e.(type) {
	case *ast.ParenExpr:
		return t.placeObj(x.X)
	case *ast.Ident:
		if o := t.objOf(x); o != nil {
			if _, ok := o.(*types.Var); ok {
				return o, x.Name
			}
		}
	case *ast.SelectorExpr:
		if _, ok := t.u.info.Selections[x]; ok && t.isFieldPath(x) {
			v := t.pathVar(x)
			return v, v.Name()
		}
	}
	return nil, ""
}

// window resolves a destination operand `v`, `v[:]`, `v[lo:]`, `v[:hi]`, `v[lo:hi]` over a variable or field path v.
func (t *tr) window(e ast.Expr) (obj types.Object, cur, lo, hi string, ok bool) {
	switch x := e.(type) {
	case *ast.ParenExpr:
		return t.window(x.X)
	case *ast.Ident, *ast.SelectorExpr:
		if k, _ := t.kindOf(x); k != kBytes {
			break
		}
		if vw := t.viewOf(x); vw != nil {
			return vw.root, t.f.env[vw.root], t.f.env[vw.lo], t.f.env[vw.hi], true
		}
		o, _ := t.placeObj(x)
		if o == nil {
			break
		}
		b := t.expr(x)
		return o, b, "(0 : Int)", "(GoSem.len " + b + ")", true
	case *ast.SliceExpr:
		if vw := t.viewOf(x.X); vw != nil && !x.Slice3 {
			blo := t.f.env[vw.lo]
			lo, hi = blo, t.f.env[vw.hi]
			if x.Low != nil {
				lo = "(" + blo + " + " + t.intExpr(x.Low) + ")"
			}
			if x.High != nil {
				hi = "(" + blo + " + " + t.intExpr(x.High) + ")"
			}
			return vw.root, t.f.env[vw.root], lo, hi, true
		}
		o, _ := t.placeObj(x.X)
		if o == nil || x.Slice3 {
			break
		}
		if k, _ := t.kindOf(x.X); k != kBytes {
			break
		}
		b := t.expr(x.X)
		lo, hi = "(0 : Int)", "(GoSem.len "+b+")"
		if x.Low != nil {
			lo = t.intExpr(x.Low)
		}
		if x.High != nil {
			hi = t.intExpr(x.High)
		}
		return o, b, lo, hi, true
	}
	t.fail(e, "store destination %s is not a (slice of a) variable", t.src(e))
	return nil, "", "", "", false
}

// setVar records a new version of a Go variable.
func (t *tr) setVar(id *ast.Ident, ty types.Type, val string) {
	obj := t.objOf(id)
	if obj == nil {
		t.fail(id, "unresolved variable %s", id.Name)
		return
	}
	t.setObj(obj, id.Name, ty, val, id)
}

func (t *tr) setObj(obj types.Object, name string, ty types.Type, val string, n ast.Node) {
	lt := t.leanType(ty)
	if lt == "UNSUPPORTED_TYPE" {
		t.fail(n, "variable %s of type %s", name, ty)
		return
	}
	t.rank(obj)
	delete(t.f.consumed, obj)
	t.f.env[obj] = t.define(name, lt, val)
}

// store: the variable's CONTENT is modified in place (visible through aliases → refuse if any)
func (t *tr) store(obj types.Object, n ast.Node, val string) {
	if len(t.f.alias[obj]) > 0 {
		t.fail(n, "store into %s, which shares memory with another translated variable", obj.Name())
		return
	}
	if v, ok := obj.(*types.Var); ok && v.Parent() == t.u.pkg.Scope() {
		t.fail(n, "store into package variable %s", obj.Name())
		return
	}
	if _, isStr := obj.Type().Underlying().(*types.Basic); isStr {
		t.fail(n, "store into the string %s", obj.Name())
		return
	}
	t.setObj(obj, obj.Name(), obj.Type(), val, n)
}

func (t *tr) noteAlias(lhs *ast.Ident, rhs ast.Expr) {
	var root *ast.Ident
	e := rhs
	for root == nil {
		switch x := e.(type) {
		case *ast.Ident:
			root = x
		case *ast.SliceExpr:
			e = x.X
		case *ast.ParenExpr:
			e = x.X
		case *ast.CallExpr:
			if id, ok := x.Fun.(*ast.Ident); ok && id.Name == "append" && len(x.Args) > 0 {
				e = x.Args[0]
				continue
			}
			return
		default:
			return
		}
	}
	if _, isArr := t.typeOf(root).Underlying().(*types.Array); isArr && rhs == ast.Expr(root) {
		return // array assignment copies
	}
	if k, _ := t.kindOf(root); k != kBytes {
		return
	}
	if _, isStr := t.typeOf(root).Underlying().(*types.Basic); isStr {
		return // strings are immutable
	}
	a, b := t.objOf(lhs), t.objOf(root)
	if a == nil || b == nil || a == b {
		return
	}
	t.f.alias[a] = append(t.f.alias[a], b)
	t.f.alias[b] = append(t.f.alias[b], a)
}

func sameExpr(t *tr, a, b ast.Expr) bool { return t.src(a) == t.src(b) }

// callStmt handles copy / PutUintN / XORBytes.
func (t *tr) callStmt(c *ast.CallExpr) bool {
	if id, ok := c.Fun.(*ast.Ident); ok && id.Name == "copy" {
		if _, isB := t.objOf(id).(*types.Builtin); isB && len(c.Args) == 2 {
			dst, cur, lo, hi, ok := t.window(c.Args[0])
			if !ok {
				return true
			}
			if k, _ := t.kindOf(c.Args[1]); k != kBytes {
				t.fail(c, "copy from %s", t.typeOf(c.Args[1]))
				return true
			}
			if rootIs(t, c.Args[1], dst) {
				t.fail(c, "copy within one variable")
				return true
			}
			t.store(dst, c, fmt.Sprintf("GoSem.copyInto %s %s %s %s", cur, lo, hi, t.expr(c.Args[1])))
			return true
		}
	}
	pkg, recv, name := t.stdCallee(c.Fun)
	if pkg == "encoding/binary" && (recv == "BigEndian" || recv == "LittleEndian") {
		if f, ok := endianFns[name]; ok && f.op == "put" {
			dst, cur, lo, hi, ok := t.window(c.Args[0])
			if !ok {
				return true
			}
			e := "BE"
			if recv == "LittleEndian" {
				e = "LE"
			}
			t.store(dst, c, fmt.Sprintf("GoSem.put%s %d %s %s %s %s", e, f.w, cur, lo, hi, t.expr(c.Args[1])))
			return true
		}
	}
	if pkg == "crypto/subtle" && name == "XORBytes" && len(c.Args) == 3 {
		dst, cur, lo, hi, ok := t.window(c.Args[0])
		if !ok {
			return true
		}
		for _, a := range c.Args[1:] {
			// operands over the destination variable must be exactly the destination (Go panics on inexact overlap)
			if rootIs(t, a, dst) && !sameExpr(t, a, c.Args[0]) {
				t.fail(c, "XORBytes operand %s overlaps the destination inexactly", t.src(a))
				return true
			}
		}
		t.store(dst, c, fmt.Sprintf("GoSem.xorInto %s %s %s %s %s", cur, lo, hi, t.expr(c.Args[1]), t.expr(c.Args[2])))
		return true
	}
	if o, ok := t.f.mutops[t.ck(c)]; ok {
		// X.m(args) on an abstract object: X := name X args
		sel := c.Fun.(*ast.SelectorExpr)
		obj, name := t.placeObj(sel.X)
		if obj == nil {
			t.fail(c, "-mutate receiver %s is not a variable", t.src(sel.X))
			return true
		}
		args := []string{t.expr(sel.X)}
		for _, a := range c.Args {
			args = append(args, t.expr(a))
		}
		t.setObj(obj, name, t.typeOf(sel.X), leanName(o.name)+" "+strings.Join(args, " "), c)
		return true
	}
	if o, ok := t.f.blockops[t.ck(c)]; ok && len(c.Args) == 2 {
		// cipher.Block Encrypt / Decrypt (dst, src): one 16-byte block of src into the first 16 bytes of dst
		dst, cur, lo, hi, ok := t.window(c.Args[0])
		if !ok {
			return true
		}
		if rootIs(t, c.Args[1], dst) && !sameExpr(t, c.Args[1], c.Args[0]) {
			t.fail(c, "block operand %s overlaps the destination inexactly", t.src(c.Args[1]))
			return true
		}
		bf := leanName(o.name)
		if sel, ok := c.Fun.(*ast.SelectorExpr); ok {
			if kr, _ := t.kindOf(sel.X); kr == kBytes {
				bf = "(" + bf + " " + t.expr(sel.X) + ")" // the cipher object is represented by its key
			}
		}
		t.store(dst, c, fmt.Sprintf("GoSem.blockInto 16 %s %s %s %s %s", bf, cur, lo, hi, t.expr(c.Args[1])))
		return true
	}
	if o, ok := t.f.applyops[t.ck(c)]; ok && len(c.Args) == 2 {
		// a length-preserving keyed transformation (cipher.Stream.XORKeyStream(dst, src) …): len(src) bytes into dst
		dst, cur, lo, hi, ok := t.window(c.Args[0])
		if !ok {
			return true
		}
		if rootIs(t, c.Args[1], dst) && !sameExpr(t, c.Args[1], c.Args[0]) {
			t.fail(c, "operand %s overlaps the destination inexactly", t.src(c.Args[1]))
			return true
		}
		fn := leanName(o.name)
		if sel, ok := c.Fun.(*ast.SelectorExpr); ok {
			if kr, _ := t.kindOf(sel.X); kr != kBad && kr != kErr {
				fn = "(" + fn + " " + t.expr(sel.X) + ")" // the receiver's representation is the key of the transformation
			}
		}
		t.store(dst, c, fmt.Sprintf("GoSem.applyInto %s %s %s %s %s", fn, cur, lo, hi, t.expr(c.Args[1])))
		return true
	}
	if o, ok := t.f.fillops[t.ck(c)]; ok && len(c.Args) == 1 {
		// fresh bytes (random.MustRand(dst), rand.Read(dst)): the whole window is overwritten
		dst, cur, lo, hi, ok := t.window(c.Args[0])
		if !ok {
			return true
		}
		t.store(dst, c, fmt.Sprintf("GoSem.copyInto %s %s %s (%s (%s - %s))", cur, lo, hi, leanName(o.name), hi, lo))
		return true
	}
	if id, ok := c.Fun.(*ast.Ident); ok {
		if idx, isProc := t.u.procs[id.Name]; isProc && t.objOf(id) != nil && t.objOf(id).Parent() == t.u.pkg.Scope() {
			// call of a translated procedure: its value is the new content of the one slice argument it writes
			if idx >= len(c.Args) {
				t.fail(c, "procedure call arity")
				return true
			}
			dst, cur, lo, hi, ok := t.window(c.Args[idx])
			if !ok {
				return true
			}
			var args []string
			whole := false
			for i, a := range c.Args {
				if i == idx {
					if se, isSl := a.(*ast.SliceExpr); !isSl || (se.Low == nil && se.High == nil) {
						whole = true
						args = append(args, cur)
					} else {
						args = append(args, fmt.Sprintf("(GoSem.slice %s %s %s)", cur, lo, hi))
					}
					continue
				}
				if rootIs(t, a, dst) {
					t.fail(c, "procedure argument %s overlaps the written argument", t.src(a))
					return true
				}
				args = append(args, t.expr(a))
			}
			call := t.qualified(id.Name) + " " + strings.Join(args, " ")
			if whole {
				t.store(dst, c, call)
			} else {
				t.store(dst, c, fmt.Sprintf("GoSem.copyInto %s %s %s (%s)", cur, lo, hi, call))
			}
			return true
		}
	}
	if sg := t.calleeSig(c); sg != nil && sg.proc {
		// P(…, dst, …) of an emitted procedure; a dropped error result leaves the poison value in dst on failure
		name := calleeName(c)
		outs, call, ok := t.procCall(name, sg, c)
		if !ok {
			return true
		}
		if sg.optional {
			call = "(" + call + ".getD " + poisonTuple(len(outs)) + ")"
		}
		if len(outs) > 1 {
			call = t.define("res_"+name, bytesTuple(len(outs)), call)
		}
		t.storeProcOuts(outs, call, c)
		return true
	}
	return false
}

func rootIs(t *tr, e ast.Expr, obj types.Object) bool {
	for {
		switch x := e.(type) {
		case *ast.Ident:
			if vw := t.f.views[t.objOf(x)]; vw != nil {
				return vw.root == obj
			}
			return t.objOf(x) == obj
		case *ast.SelectorExpr:
			o, _ := t.placeObj(x)
			return o != nil && o == obj
		case *ast.SliceExpr:
			e = x.X
		case *ast.ParenExpr:
			e = x.X
		default:
			return false
		}
	}
}

// ---------- statements ----------

func isPanic(s ast.Stmt) bool {
	if x, ok := s.(*ast.ExprStmt); ok {
		if c, ok := x.X.(*ast.CallExpr); ok {
			if id, ok := c.Fun.(*ast.Ident); ok && id.Name == "panic" {
				return true
			}
		}
	}
	return false
}

func terminates(stmts []ast.Stmt) bool {
	if len(stmts) == 0 {
		return false
	}
	switch x := stmts[len(stmts)-1].(type) {
	case *ast.ReturnStmt, *ast.BranchStmt:
		return true
	case *ast.ExprStmt:
		return isPanic(x)
	case *ast.BlockStmt:
		return terminates(x.List)
	case *ast.IfStmt:
		if x.Else == nil {
			return false
		}
		if eb, ok := x.Else.(*ast.BlockStmt); ok {
			return terminates(x.Body.List) && terminates(eb.List)
		}
		if ei, ok := x.Else.(*ast.IfStmt); ok {
			return terminates(x.Body.List) && terminates([]ast.Stmt{ei})
		}
	case *ast.SwitchStmt:
		hasDefault := false
		for _, cc := range x.Body.List {
			c := cc.(*ast.CaseClause)
			if c.List == nil {
				hasDefault = true
			}
			if !terminates(c.Body) {
				return false
			}
		}
		return hasDefault
	}
	return false
}

func (t *tr) cloneEnv() map[types.Object]string {
	m := make(map[types.Object]string, len(t.f.env))
	for k, v := range t.f.env {
		m[k] = v
	}
	return m
}

// isNonNilErr: an expression that certainly denotes a non-nil error
func (t *tr) isNonNilErr(e ast.Expr) bool {
	switch x := e.(type) {
	case *ast.CallExpr:
		pkg, _, name := t.stdCallee(x.Fun)
		return (pkg == "fmt" && name == "Errorf") || (pkg == "errors" && name == "New")
	case *ast.Ident:
		obj := t.objOf(x)
		if v, ok := obj.(*types.Var); ok {
			if v.Parent() == t.u.pkg.Scope() {
				k, _ := classify(v.Type())
				return k == kErr && strings.HasPrefix(strings.ToLower(x.Name), "err") // package-level sentinel errors
			}
			return t.f.errVars[obj]
		}
	case *ast.SelectorExpr:
		// a field path of error type inside the branch guarded by `<path> != nil`
		if t.isFieldPath(x) {
			for _, kq := range t.f.nonNil {
				if kq == t.pathKey(x) {
					return true
				}
			}
		}
	}
	return false
}

func (t *tr) ret(x *ast.ReturnStmt) string {
	f := t.f
	if f.stateful {
		return t.statefulRet(x, f.goSig)
	}
	if len(x.Results) == 0 {
		if f.outs != nil && !f.optional && f.nres == 0 {
			return f.outs()
		}
		return t.fail(x, "bare return")
	}
	if f.outs != nil && f.optional && f.nres == 0 && len(x.Results) == 1 {
		// a procedure that can fail: `return nil` is the written parameters, `return err` is none
		if id, ok := x.Results[0].(*ast.Ident); ok && id.Name == "nil" {
			return "some " + f.outs()
		}
		if t.isNonNilErr(x.Results[0]) {
			return "none"
		}
		return t.fail(x, "returned error %s is not known to be nil or non-nil", t.src(x.Results[0]))
	}
	res := x.Results
	if f.optional && len(res) == 1 && !t.isNonNilErr(res[0]) {
		if _, isCall := res[0].(*ast.CallExpr); isCall {
			ty := t.typeOf(res[0])
			if tup, ok := ty.(*types.Tuple); ok && tup.Len() == f.nres+1 {
				if ke, _ := classify(tup.At(tup.Len() - 1).Type()); ke == kErr {
					return t.expr(res[0]) // the callee's Option value is the result
				}
			}
			if ke, _ := classify(ty); ke == kErr && f.nres == 0 {
				return t.expr(res[0])
			}
		}
	}
	if !f.optional && len(res) == 1 && f.nres > 1 {
		if _, isCall := res[0].(*ast.CallExpr); isCall {
			if tup, ok := t.typeOf(res[0]).(*types.Tuple); ok && tup.Len() == f.nres {
				return t.expr(res[0]) // return g(…): the callee's tuple is the result
			}
		}
	}
	if f.optional {
		errE := res[len(res)-1]
		res = res[:len(res)-1]
		if id, ok := errE.(*ast.Ident); !ok || id.Name != "nil" {
			if t.isNonNilErr(errE) {
				return "none"
			}
			return t.fail(x, "returned error %s is not known to be nil or non-nil", t.src(errE))
		}
	}
	if len(res) != f.nres {
		return t.fail(x, "return arity")
	}
	var rs []string
	for _, r := range res {
		rs = append(rs, t.expr(r))
	}
	v := strings.Join(rs, ", ")
	if len(rs) != 1 {
		v = "(" + v + ")"
	}
	if f.optional {
		return "some " + v
	}
	return v
}

// errGuard recognises `if err != nil { return …, <non-nil> }` for the given error variable.
// isIgnored: a statement that is a call of a unit-level -ignore callee (monitoring)
func (t *tr) isIgnored(s ast.Stmt) bool {
	es, ok := s.(*ast.ExprStmt)
	if !ok {
		return false
	}
	c, ok := es.X.(*ast.CallExpr)
	if !ok {
		return false
	}
	key := t.ck(c)
	for _, ig := range t.u.ignore {
		if ig == key {
			return true
		}
	}
	return false
}

func (t *tr) dropIgnored(l []ast.Stmt) []ast.Stmt {
	var r []ast.Stmt
	for _, s := range l {
		if !t.isIgnored(s) {
			r = append(r, s)
		}
	}
	return r
}

func (t *tr) errGuard(s ast.Stmt, errObj types.Object) bool {
	is, ok := s.(*ast.IfStmt)
	if ok && is.Body != nil && len(t.u.ignore) > 0 {
		cp := *is
		cp.Body = &ast.BlockStmt{Lbrace: is.Body.Lbrace, List: t.dropIgnored(is.Body.List), Rbrace: is.Body.Rbrace}
		is = &cp
	}
	if !ok || is.Init != nil || is.Else != nil || len(is.Body.List) != 1 {
		return false
	}
	be, ok := is.Cond.(*ast.BinaryExpr)
	if !ok || be.Op != token.NEQ {
		return false
	}
	a, ok1 := be.X.(*ast.Ident)
	b, ok2 := be.Y.(*ast.Ident)
	if !ok1 || !ok2 || t.objOf(a) != errObj || b.Name != "nil" {
		return false
	}
	r, ok := is.Body.List[0].(*ast.ReturnStmt)
	if !ok || len(r.Results) == 0 || !t.f.optional {
		return false
	}
	last := r.Results[len(r.Results)-1]
	if id, ok := last.(*ast.Ident); ok && t.objOf(id) == errObj {
		return true
	}
	return t.isNonNilErr(last)
}

// okGuard recognises `if err == nil { … }` (no else) and returns its body
func (t *tr) okGuard(s ast.Stmt, errObj types.Object) ([]ast.Stmt, bool) {
	is, ok := s.(*ast.IfStmt)
	if !ok || is.Init != nil || is.Else != nil {
		return nil, false
	}
	be, ok := is.Cond.(*ast.BinaryExpr)
	if !ok || be.Op != token.EQL {
		return nil, false
	}
	a, ok1 := be.X.(*ast.Ident)
	b, ok2 := be.Y.(*ast.Ident)
	if !ok1 || !ok2 || t.objOf(a) != errObj || b.Name != "nil" {
		return nil, false
	}
	return is.Body.List, true
}

// loopGuard recognises `if err != nil { continue }` / `{ break }` inside a translated loop and returns that statement
func (t *tr) loopGuard(s ast.Stmt, errObj types.Object) ast.Stmt {
	is, ok := s.(*ast.IfStmt)
	if !ok || is.Init != nil || is.Else != nil || len(is.Body.List) != 1 || len(t.f.loops) == 0 {
		return nil
	}
	be, ok := is.Cond.(*ast.BinaryExpr)
	if !ok || be.Op != token.NEQ {
		return nil
	}
	a, ok1 := be.X.(*ast.Ident)
	b, ok2 := be.Y.(*ast.Ident)
	if !ok1 || !ok2 || t.objOf(a) != errObj || b.Name != "nil" {
		return nil
	}
	if br, ok := is.Body.List[0].(*ast.BranchStmt); ok && br.Label == nil && (br.Tok == token.CONTINUE || br.Tok == token.BREAK) {
		return br
	}
	return nil
}

// inlineClosure: a call of a local procedure `f := func(a T, dst []byte) {…}`: scalar parameters are bound to the argument
// values, a slice parameter the body writes into becomes a VIEW of the argument's window, then the body is translated in place.
func (t *tr) inlineClosure(fl *ast.FuncLit, c *ast.CallExpr, rest []ast.Stmt, depth int, k func() string) string {
	f := t.f
	var params []*ast.Ident
	for _, fld := range fl.Type.Params.List {
		params = append(params, fld.Names...)
	}
	if len(params) != len(c.Args) {
		return t.fail(c, "local function call arity")
	}
	stored := t.storedObjs(fl.Body.List)
	for i, p := range params {
		pobj := t.u.info.Defs[p]
		if pobj == nil {
			continue
		}
		kd, _ := classify(pobj.Type())
		if kd == kBytes && stored[pobj] {
			root, _, lo, hi, ok := t.window(c.Args[i])
			if !ok {
				return "(UNSUPPORTED)"
			}
			vars, have := f.viewVars[pobj]
			if !have {
				vars = [2]*types.Var{
					types.NewVar(p.Pos(), t.u.pkg, p.Name+"_lo", types.Typ[types.Int]),
					types.NewVar(p.Pos()+1, t.u.pkg, p.Name+"_hi", types.Typ[types.Int]),
				}
				f.viewVars[pobj] = vars
			}
			f.viewRoot[pobj] = root
			t.setObj(vars[0], vars[0].Name(), vars[0].Type(), lo, c)
			t.setObj(vars[1], vars[1].Name(), vars[1].Type(), hi, c)
			f.views[pobj] = &view{root: root, lo: vars[0], hi: vars[1]}
			continue
		}
		if !supported(kd) {
			return t.fail(c, "local function parameter %s of type %s", p.Name, pobj.Type())
		}
		t.setObj(pobj, p.Name, pobj.Type(), t.exprAs(c.Args[i], pobj.Type()), c)
	}
	return t.block(append(append([]ast.Stmt{}, fl.Body.List...), rest...), depth, k)
}

// sortInitRun: a maximal run of adjacent, mutually independent, pure initialisations (`x := e`, `var x T [= e]`) at the head of
// the statement list is put into a canonical order — by kind of value, then by the text of the translated initialiser, then by
// the original order — so that swapping such statements in the Go source does not change the generated definitions.
func (t *tr) sortInitRun(stmts []ast.Stmt) []ast.Stmt {
	f := t.f
	if f.sortedRuns == nil {
		f.sortedRuns = map[ast.Stmt]bool{}
	}
	if len(stmts) < 2 || f.sortedRuns[stmts[0]] {
		return nil
	}
	type item struct {
		s    ast.Stmt
		rank int
		text string
		idx  int
	}
	var run []item
	defined := map[types.Object]bool{}
	for i, s := range stmts {
		obj, rhs, ty, ok := t.simpleInit(s)
		if !ok {
			break
		}
		dep := false
		if rhs != nil {
			ast.Inspect(rhs, func(n ast.Node) bool {
				if id, ok := n.(*ast.Ident); ok && defined[t.u.info.Uses[id]] {
					dep = true
				}
				return true
			})
		}
		if dep {
			break
		}
		defined[obj] = true
		kd, _ := classify(ty)
		rank := map[kind]int{kSet: 0, kNat: 1, kBool: 2, kInt: 3, kByte: 4, kBytes: 5, kRec: 6, kRecList: 7, kAbs: 8}[kd]
		text := "zero"
		if rhs != nil {
			nerr := len(t.errs)
			text = t.exprAs(rhs, ty)
			t.errs = t.errs[:nerr] // a failure is reported when the statement is translated
		}
		run = append(run, item{s, rank, text, i})
	}
	for _, it := range run {
		f.sortedRuns[it.s] = true
	}
	if len(run) < 2 {
		return nil
	}
	sort.SliceStable(run, func(i, j int) bool {
		if run[i].rank != run[j].rank {
			return run[i].rank < run[j].rank
		}
		if run[i].text != run[j].text {
			return run[i].text < run[j].text
		}
		return run[i].idx < run[j].idx
	})
	out := make([]ast.Stmt, 0, len(stmts))
	for _, it := range run {
		out = append(out, it.s)
	}
	return append(out, stmts[len(run):]...)
}

// simpleInit: `x := e` / `var x T` / `var x T = e` with a pure initialiser and a plain (non-view, non-struct) variable
func (t *tr) simpleInit(s ast.Stmt) (obj types.Object, rhs ast.Expr, ty types.Type, ok bool) {
	switch x := s.(type) {
	case *ast.AssignStmt:
		if x.Tok != token.DEFINE || len(x.Lhs) != 1 || len(x.Rhs) != 1 {
			return
		}
		id, isId := x.Lhs[0].(*ast.Ident)
		if !isId || id.Name == "_" {
			return
		}
		obj, rhs = t.u.info.Defs[id], x.Rhs[0]
	case *ast.DeclStmt:
		gd, isG := x.Decl.(*ast.GenDecl)
		if !isG || gd.Tok != token.VAR || len(gd.Specs) != 1 {
			return
		}
		vs := gd.Specs[0].(*ast.ValueSpec)
		if len(vs.Names) != 1 || len(vs.Values) > 1 || vs.Names[0].Name == "_" {
			return
		}
		obj = t.u.info.Defs[vs.Names[0]]
		if len(vs.Values) == 1 {
			rhs = vs.Values[0]
		}
	default:
		return
	}
	if obj == nil {
		return
	}
	ty = obj.Type()
	if kd, _ := classify(ty); !supported(kd) {
		return
	}
	if _, isView := t.f.viewVars[obj]; isView {
		return
	}
	if rhs != nil && !t.pureExpr(rhs) {
		return
	}
	return obj, rhs, ty, true
}

// pureExpr: no call except conversions, len / min / max / make, the binary.*.Uint* readers and callees declared -opaque
// (pure by assumption); no function literal, no struct literal
func (t *tr) pureExpr(e ast.Expr) bool {
	pure := true
	ast.Inspect(e, func(n ast.Node) bool {
		switch x := n.(type) {
		case *ast.FuncLit:
			pure = false
		case *ast.CompositeLit:
			if k, _ := t.kindOf(x); k != kBytes {
				pure = false
			}
		case *ast.UnaryExpr:
			if x.Op == token.AND {
				pure = false
			}
		case *ast.CallExpr:
			if tv, ok := t.u.info.Types[x.Fun]; ok && tv.IsType() {
				return true
			}
			if id, ok := x.Fun.(*ast.Ident); ok {
				if _, isB := t.objOf(id).(*types.Builtin); isB && (id.Name == "len" || id.Name == "min" || id.Name == "max" || id.Name == "make") {
					return true
				}
			}
			if pkg, recv, name := t.stdCallee(x.Fun); pkg == "encoding/binary" && recv != "" {
				if fn, ok := endianFns[name]; ok && fn.op == "get" {
					return true
				}
			}
			if _, ok := t.f.opaque[t.ck(x)]; ok {
				return true
			}
			pure = false
		}
		return pure
	})
	return pure
}

// panicGuard recognises `if err != nil { panic(…) }`
func (t *tr) panicGuard(s ast.Stmt, errObj types.Object) bool {
	is, ok := s.(*ast.IfStmt)
	if !ok || is.Init != nil || is.Else != nil || len(is.Body.List) != 1 || !isPanic(is.Body.List[0]) {
		return false
	}
	be, ok := is.Cond.(*ast.BinaryExpr)
	if !ok || be.Op != token.NEQ {
		return false
	}
	a, ok1 := be.X.(*ast.Ident)
	b, ok2 := be.Y.(*ast.Ident)
	return ok1 && ok2 && t.objOf(a) == errObj && b.Name == "nil"
}

func ind(n int) string { return strings.Repeat("  ", n) }

// block translates a statement list followed by the continuation k (the value of falling off the end).
func (t *tr) block(stmts []ast.Stmt, depth int, k func() string) string {
	if len(stmts) == 0 {
		return ind(depth) + k()
	}
	if sorted := t.sortInitRun(stmts); sorted != nil {
		stmts = sorted
	}
	s, rest := stmts[0], stmts[1:]
	info := t.u.info
	t.f.curPos = s.Pos()
	switch x := s.(type) {
	case *ast.EmptyStmt:
		return t.block(rest, depth, k)
	case *ast.BlockStmt:
		return t.block(append(append([]ast.Stmt{}, x.List...), rest...), depth, k)
	case *ast.DeclStmt:
		gd, ok := x.Decl.(*ast.GenDecl)
		if !ok {
			return t.fail(s, "declaration")
		}
		if gd.Tok == token.CONST {
			return t.block(rest, depth, k)
		}
		if gd.Tok != token.VAR {
			return t.fail(s, "declaration %s", gd.Tok)
		}
		for _, sp := range gd.Specs {
			vs := sp.(*ast.ValueSpec)
			for i, n := range vs.Names {
				ty := info.TypeOf(n)
				if obj := info.Defs[n]; obj != nil {
					ty = obj.Type()
				}
				if len(vs.Values) == len(vs.Names) {
					t.setVar(n, ty, t.expr(vs.Values[i]))
					t.noteAliasAssign(n, vs.Values[i])
					continue
				}
				if len(vs.Values) != 0 {
					return t.fail(s, "var declaration with a tuple initialiser")
				}
				kd, _ := classify(ty)
				switch kd {
				case kBytes:
					if arr, ok := ty.Underlying().(*types.Array); ok {
						t.setVar(n, ty, fmt.Sprintf("(GoSem.makeBytes (%d : Int))", arr.Len()))
					} else {
						t.setVar(n, ty, "([] : Bytes)")
					}
				case kByte, kNat, kInt:
					t.setVar(n, ty, "0")
				case kBool:
					t.setVar(n, ty, "false")
				case kOpt:
					t.setVar(n, ty, "none")
				case kRecList, kSet:
					t.setVar(n, ty, "[]")
				case kAbs:
					if tp, isTP := ty.(*types.TypeParam); isTP && t.f.hasBinder(tp.Obj().Name()+"_zero") {
						t.setVar(n, ty, tp.Obj().Name()+"_zero") // var zero P
					}
					// otherwise no zero value in the model: the variable must be assigned before it is read (a read fails)
				case kErr:
					// no zero value in the model: the variable must be assigned before it is read (a read fails)
				default:
					return t.fail(s, "var of type %s", ty)
				}
			}
		}
		return t.block(rest, depth, k)
	case *ast.IncDecStmt:
		op := token.ADD
		if x.Tok == token.DEC {
			op = token.SUB
		}
		ty := t.typeOf(x.X)
		val := t.binaryStr(x.X, op, "(1 : UInt8)", ty, x)
		return t.assignTo(x.X, ty, val, s, rest, depth, k)
	case *ast.AssignStmt:
		if x.Tok == token.DEFINE || x.Tok == token.ASSIGN {
			if len(x.Rhs) == 1 {
				if c, ok := x.Rhs[0].(*ast.CallExpr); ok {
					if o, isStep := t.f.stepops[t.ck(c)]; isStep {
						// r1, …, rn := X.m(args) on an abstract object X: (r1, …, rn, X') := name X args
						sel := c.Fun.(*ast.SelectorExpr)
						xobj, xname := t.placeObj(sel.X)
						if _, isParam := t.f.rootCanon[xobj]; isParam {
							t.f.consumesParams = true
						}
						sig, _ := t.typeOf(c.Fun).(*types.Signature)
						if xobj == nil || sig == nil || sig.Results().Len() != len(x.Lhs) {
							return t.fail(s, "-step call shape")
						}
						args := append([]string{t.expr(sel.X)}, t.stepArgs(c, sig)...)
						var tys []string
						for i := 0; i < sig.Results().Len(); i++ {
							tys = append(tys, t.leanType(sig.Results().At(i).Type()))
						}
						tys = append(tys, t.leanType(t.typeOf(sel.X)))
						tmp := t.define("step_"+o.name, strings.Join(tys, " × "), leanName(o.name)+" "+strings.Join(args, " "))
						n := len(tys)
						for i, l := range x.Lhs {
							p := tmp
							for j := 0; j < i; j++ {
								p += ".2"
							}
							if i < n-1 {
								p += ".1"
							}
							if id, ok := l.(*ast.Ident); ok && id.Name == "_" {
								continue
							}
							lo, ln := t.placeObj(l)
							if lo == nil {
								return t.fail(s, "-step target %s", t.src(l))
							}
							if ke, _ := classify(sig.Results().At(i).Type()); ke == kErr {
								t.f.errBool[lo] = true // an error handed out by the object: only whether it is non-nil
							}
							t.setObj(lo, ln, sig.Results().At(i).Type(), p, s)
						}
						last := tmp
						for j := 0; j < n-1; j++ {
							last += ".2"
						}
						t.setObj(xobj, xname, t.typeOf(sel.X), last, s)
						return t.block(rest, depth, k)
					}
				}
				if c, sg := t.statefulSig(x.Rhs[0]); sg != nil {
					t.statefulCall(x.Lhs, c, sg, s)
					return t.block(rest, depth, k)
				}
			}
			if t.f.stateful && len(x.Lhs) == 1 && len(x.Rhs) == 1 {
				if c, ok := x.Rhs[0].(*ast.CallExpr); ok && t.f.externValue[t.ck(c)] {
					// v := obj.Draw(): the value and the object's next state
					for _, e := range t.f.externs {
						if e.callee == t.ck(c) {
							obj := t.f.pvars[e.path]
							cur, have := t.f.env[obj]
							if !have || len(c.Args) != 0 {
								return t.fail(s, "external value call %s", e.callee)
							}
							tmp := t.define("ext_"+e.name, t.leanType(t.typeOf(c))+" × "+t.f.typeOverride[obj], leanName(e.name)+" "+cur)
							t.f.env[obj] = t.define(obj.Name(), t.f.typeOverride[obj], tmp+".2")
							return t.assignTo(x.Lhs[0], t.typeOf(c), tmp+".1", s, rest, depth, k)
						}
					}
				}
			}
			if len(x.Lhs) == 2 && len(x.Rhs) == 1 {
				if ie, ok := x.Rhs[0].(*ast.IndexExpr); ok {
					if kd, _ := t.kindOf(ie.X); kd == kAbs {
						an, _ := absTypeOf(t.typeOf(ie.X))
						vid, isId := x.Lhs[0].(*ast.Ident)
						oid, isId2 := x.Lhs[1].(*ast.Ident)
						if !isId || !isId2 || vid.Name != "_" || !t.f.hasBinder(an+"_has") {
							return t.fail(s, "lookup in the abstract map %s: only `_, ok := m[k]` is translated", t.src(ie.X))
						}
						if oid.Name != "_" {
							t.setVar(oid, types.Typ[types.Bool], fmt.Sprintf("(%s_has %s %s)", an, t.expr(ie.X), t.expr(ie.Index)))
						}
						return t.block(rest, depth, k)
					}
					if kd, _ := t.kindOf(ie.X); kd == kSet {
						// v, found := m[k] on a set: both are membership
						mem := fmt.Sprintf("(decide (%s ∈ %s))", t.expr(ie.Index), t.expr(ie.X))
						for _, l := range x.Lhs {
							if id, ok := l.(*ast.Ident); ok && id.Name != "_" {
								t.setVar(id, types.Typ[types.Bool], mem)
							}
						}
						return t.block(rest, depth, k)
					}
				}
			}
			if t.f.stateful && len(x.Rhs) == 1 && len(x.Lhs) >= 2 {
				if c, isCall := x.Rhs[0].(*ast.CallExpr); isCall {
					if tup, ok := t.typeOf(c).(*types.Tuple); ok {
						t.tupleAssignStateful(x, c, tup, s)
						return t.block(rest, depth, k)
					}
				}
			}
			if !t.f.stateful && len(x.Lhs) == 1 && len(x.Rhs) == 1 {
				if ke, _ := t.kindOf(x.Rhs[0]); ke == kErr {
					if _, isCall := x.Rhs[0].(*ast.CallExpr); isCall {
						return t.bindOption(x, nil, rest, depth, k)
					}
				}
			}
			if len(x.Lhs) == 2 && len(x.Rhs) == 1 {
				if ta, ok := x.Rhs[0].(*ast.TypeAssertExpr); ok && ta.Type != nil {
					k1, _ := t.kindOf(ta.X)
					k2, _ := classify(t.typeOf(ta.Type))
					a1, _ := absTypeOf(t.typeOf(ta.X))
					a2, _ := absTypeOf(t.typeOf(ta.Type))
					if k1 == kAbs && k2 == kAbs && t.f.hasBinder(a1+"_as_"+a2) {
						tmp := t.define("cast_"+a2, a2+" × Bool", fmt.Sprintf("%s_as_%s %s", a1, a2, t.expr(ta.X)))
						if id, ok := x.Lhs[0].(*ast.Ident); ok && id.Name != "_" {
							t.setVar(id, t.typeOf(ta.Type), tmp+".1")
						}
						if id, ok := x.Lhs[1].(*ast.Ident); ok && id.Name != "_" {
							t.setVar(id, types.Typ[types.Bool], tmp+".2")
						}
						return t.block(rest, depth, k)
					}
				}
			}
			if !t.f.stateful && len(x.Lhs) == 2 && len(x.Rhs) == 1 {
				if c, isCall := x.Rhs[0].(*ast.CallExpr); isCall && len(c.Args) == 2 {
					if o, isRead := t.f.readops[t.ck(c)]; isRead {
						// _, err := io.ReadFull(r, buf); if err != nil { return … }: on success buf holds exactly len(buf) bytes from r
						eid, ok := x.Lhs[1].(*ast.Ident)
						vid, ok2 := x.Lhs[0].(*ast.Ident)
						if !ok || !ok2 || vid.Name != "_" || len(rest) == 0 || !t.errGuard(rest[0], t.objOf(eid)) {
							return t.fail(s, "a -read call must be `_, err := f(r, buf)` followed by `if err != nil { return …, err }`")
						}
						dst, cur, lo, hi, okw := t.window(c.Args[1])
						if !okw {
							return "(UNSUPPORTED)"
						}
						f := t.f
						opt := t.define("opt_read", "Option Bytes", fmt.Sprintf("(%s %s (%s - %s))", leanName(o.name), t.expr(c.Args[0]), hi, lo))
						saved := f.binders
						bn := t.newBinderName()
						f.binders = append(append([]binder{}, f.binders...), binder{bn, "Bytes"})
						t.store(dst, x, fmt.Sprintf("GoSem.copyInto %s %s %s %s", cur, lo, hi, bn))
						body := t.block(rest[1:], depth+1, k)
						f.binders = saved
						if len(t.f.loops) > 0 {
							return t.fail(s, "-read call inside a loop")
						}
						return fmt.Sprintf("%s(%s).bind (fun %s =>\n%s)", ind(depth), opt, bn, body)
					}
				}
			}
			if !t.f.stateful && len(x.Lhs) == 2 && len(x.Rhs) == 1 {
				if tup, ok := t.typeOf(x.Rhs[0]).(*types.Tuple); ok && tup.Len() == 2 {
					if ke, _ := classify(tup.At(1).Type()); ke == kErr {
						if c, isCall := x.Rhs[0].(*ast.CallExpr); isCall {
							if _, isFill := t.f.fillops[t.ck(c)]; isFill {
								// _, err := rand.Read(dst); if err != nil { return … }: the source of fresh bytes is assumed not to fail
								eid, ok := x.Lhs[1].(*ast.Ident)
								if !ok || len(rest) == 0 || !(t.errGuard(rest[0], t.objOf(eid)) || t.panicGuard(rest[0], t.objOf(eid))) {
									return t.fail(s, "a fill call must be followed by `if err != nil { return …, err }` or `{ panic(err) }`")
								}
								if vid, ok := x.Lhs[0].(*ast.Ident); !ok || vid.Name != "_" {
									return t.fail(s, "the byte count of a fill call is not translated")
								}
								t.callStmt(c)
								return t.block(rest[1:], depth, k)
							}
						}
						if c, isCall := x.Rhs[0].(*ast.CallExpr); isCall {
							if idx, isCtor := t.f.ctors[t.ck(c)]; isCtor {
								// x, err := <constructor represented by one of its arguments>(…): assumed to succeed
								eid, ok := x.Lhs[1].(*ast.Ident)
								vid, ok2 := x.Lhs[0].(*ast.Ident)
								if !ok || !ok2 || idx >= len(c.Args) || len(rest) == 0 || !t.errGuard(rest[0], t.objOf(eid)) {
									return t.fail(s, "a -ctor call with an error result must be followed by `if err != nil { return …, err }`")
								}
								t.setVar(vid, tup.At(0).Type(), t.expr(c.Args[idx]))
								return t.block(rest[1:], depth, k)
							}
						}
						if c, isCall := x.Rhs[0].(*ast.CallExpr); isCall && t.f.abstract[t.ck(c)] {
							// x, err := <constructor of an abstract object>(…); if err != nil { return … }:
							// the object carries no value and the constructor is assumed to succeed
							if kv, _ := classify(tup.At(0).Type()); kv != kBad {
								return t.fail(s, "-abstract callee %s returns a value of a translated type", t.src(c.Fun))
							}
							eid, ok := x.Lhs[1].(*ast.Ident)
							if !ok || len(rest) == 0 || !t.errGuard(rest[0], t.objOf(eid)) {
								return t.fail(s, "an abstract constructor must be followed by `if err != nil { return …, err }`")
							}
							return t.block(rest[1:], depth, k)
						}
						return t.bindOption(x, tup, rest, depth, k)
					}
				}
			}
			if !t.f.stateful && len(x.Lhs) >= 3 && len(x.Rhs) == 1 {
				if c, isCall := x.Rhs[0].(*ast.CallExpr); isCall {
					if tup, ok := t.typeOf(c).(*types.Tuple); ok && tup.Len() == len(x.Lhs) {
						if ke, _ := classify(tup.At(tup.Len() - 1).Type()); ke == kErr {
							return t.bindOptionN(x, tup, rest, depth, k)
						}
					}
				}
			}
			if len(x.Lhs) == 1 && len(x.Rhs) == 1 && x.Tok == token.DEFINE {
				if id, ok := x.Lhs[0].(*ast.Ident); ok {
					if fl, isFn := x.Rhs[0].(*ast.FuncLit); isFn {
						// a local procedure: remembered, inlined at its calls
						if fl.Type.Results != nil && len(fl.Type.Results.List) > 0 {
							return t.fail(s, "local function with results")
						}
						if containsReturn(fl.Body.List) {
							return t.fail(s, "local function with a return statement")
						}
						t.f.closures[t.objOf(id)] = fl
						return t.block(rest, depth, k)
					}
				}
				if id, ok := x.Lhs[0].(*ast.Ident); ok && t.structLit(id, x.Rhs[0]) {
					return t.block(rest, depth, k)
				}
				if id, ok := x.Lhs[0].(*ast.Ident); ok {
					if _, isView := t.f.viewVars[t.objOf(id)]; isView {
						rhs := x.Rhs[0]
						for {
							if p, ok := rhs.(*ast.ParenExpr); ok {
								rhs = p.X
								continue
							}
							break
						}
						t.defineView(id, rhs.(*ast.SliceExpr))
						return t.block(rest, depth, k)
					}
				}
			}
			if len(x.Lhs) == 1 && len(x.Rhs) == 1 && x.Tok == token.ASSIGN {
				if id, ok := x.Lhs[0].(*ast.Ident); ok && t.resliceView(id, x.Rhs[0], s) {
					return t.block(rest, depth, k)
				}
			}
			if len(x.Lhs) == 1 && len(x.Rhs) == 1 {
				// n := subtle.XORBytes(dst, x, y): the store, then min(len x, len y)
				if c, ok := x.Rhs[0].(*ast.CallExpr); ok && len(c.Args) == 3 {
					if pkg, _, name := t.stdCallee(c.Fun); pkg == "crypto/subtle" && name == "XORBytes" {
						cnt := fmt.Sprintf("(min (GoSem.len %s) (GoSem.len %s))", t.expr(c.Args[1]), t.expr(c.Args[2]))
						t.callStmt(c)
						return t.assignTo(x.Lhs[0], t.typeOf(c), cnt, s, rest, depth, k)
					}
				}
			}
			if len(x.Lhs) == 1 && len(x.Rhs) == 1 {
				// n := copy(dst, src): the store, then the number of bytes copied
				if c, ok := x.Rhs[0].(*ast.CallExpr); ok {
					if cid, ok := c.Fun.(*ast.Ident); ok && cid.Name == "copy" && len(c.Args) == 2 {
						if _, isB := t.objOf(cid).(*types.Builtin); isB {
							_, _, lo, hi, okw := t.window(c.Args[0])
							if !okw {
								return t.fail(s, "copy destination")
							}
							cnt := fmt.Sprintf("(min (%s - %s) (GoSem.len %s))", hi, lo, t.expr(c.Args[1]))
							t.callStmt(c)
							return t.assignTo(x.Lhs[0], t.typeOf(c), cnt, s, rest, depth, k)
						}
					}
				}
			}
			if len(x.Lhs) != len(x.Rhs) {
				return t.fail(s, "tuple assignment")
			}
			vals := make([]string, len(x.Rhs))
			for i := range x.Rhs {
				if id, ok := x.Lhs[i].(*ast.Ident); ok && id.Name == "_" {
					continue
				}
				if lt := t.typeOf(x.Lhs[i]); lt != nil && t.f.stateful {
					vals[i] = t.exprAs(x.Rhs[i], lt)
				} else {
					vals[i] = t.expr(x.Rhs[i])
				}
			}
			if len(x.Lhs) == 1 {
				if id, ok := x.Lhs[0].(*ast.Ident); ok && id.Name != "_" {
					// (a re-assigned slice variable keeps its recorded aliases: an over-approximation, so that a later store
					// into any of them is still refused)
					r := t.assignTo(x.Lhs[0], t.typeOf(x.Rhs[0]), vals[0], s, nil, depth, func() string { return "" })
					if strings.Contains(r, "UNSUPPORTED") {
						return r
					}
					t.noteAliasAssign(id, x.Rhs[0])
					return t.block(rest, depth, k)
				}
				return t.assignTo(x.Lhs[0], t.typeOf(x.Rhs[0]), vals[0], s, rest, depth, k)
			}
			for i := range x.Lhs {
				id, ok := x.Lhs[i].(*ast.Ident)
				if !ok {
					if obj, name := t.placeObj(x.Lhs[i]); obj != nil {
						t.setObj(obj, name, t.typeOf(x.Lhs[i]), vals[i], s) // a field path
						continue
					}
					return t.fail(s, "parallel assignment to a non-variable")
				}
				if id.Name == "_" {
					continue
				}
				t.noteAliasAssign(id, x.Rhs[i])
				t.setVar(id, t.typeOf(x.Rhs[i]), vals[i])
			}
			return t.block(rest, depth, k)
		}
		ops := map[token.Token]token.Token{token.XOR_ASSIGN: token.XOR, token.ADD_ASSIGN: token.ADD, token.SUB_ASSIGN: token.SUB,
			token.OR_ASSIGN: token.OR, token.AND_ASSIGN: token.AND, token.MUL_ASSIGN: token.MUL, token.SHL_ASSIGN: token.SHL,
			token.SHR_ASSIGN: token.SHR, token.QUO_ASSIGN: token.QUO, token.REM_ASSIGN: token.REM}
		op, ok := ops[x.Tok]
		if !ok || len(x.Lhs) != 1 || len(x.Rhs) != 1 {
			return t.fail(s, "assignment %s", x.Tok)
		}
		ty := t.typeOf(x.Lhs[0])
		val := t.binary(x.Lhs[0], op, x.Rhs[0], ty, x)
		return t.assignTo(x.Lhs[0], ty, val, s, rest, depth, k)
	case *ast.ExprStmt:
		if isPanic(x) {
			return t.fail(s, "panic")
		}
		if c, ok := x.X.(*ast.CallExpr); ok {
			if id, isId := c.Fun.(*ast.Ident); isId {
				if fl, isCl := t.f.closures[t.objOf(id)]; isCl {
					return t.inlineClosure(fl, c, rest, depth, k)
				}
			}
		}
		if t.isIgnored(x) {
			return t.block(rest, depth, k) // monitoring call: no influence on the results
		}
		if c, sg := t.statefulSig(x.X); sg != nil {
			t.statefulCall(nil, c, sg, s)
			return t.block(rest, depth, k)
		}
		if c, ok := x.X.(*ast.CallExpr); ok && t.callStmt(c) {
			return t.block(rest, depth, k)
		}
		return t.fail(s, "expression statement %s", t.src(x.X))
	case *ast.ReturnStmt:
		return ind(depth) + t.wrapRet(t.ret(x))
	case *ast.BranchStmt:
		if x.Label != nil || len(t.f.loops) == 0 {
			return t.fail(s, "%s outside a translated loop or with a label", x.Tok)
		}
		st := t.f.loops[len(t.f.loops)-1].state()
		switch x.Tok {
		case token.BREAK:
			return ind(depth) + "GoSem.Step.brk " + st
		case token.CONTINUE:
			if lc := t.f.loops[len(t.f.loops)-1]; lc.post != nil {
				return t.block([]ast.Stmt{lc.post}, depth, func() string { return "GoSem.Step.next " + lc.state() })
			}
			return ind(depth) + "GoSem.Step.next " + st
		}
		return t.fail(s, "branch statement %s", x.Tok)
	case *ast.IfStmt:
		return t.ifStmt(x, rest, depth, k)
	case *ast.SwitchStmt:
		return t.switchStmt(x, rest, depth, k)
	case *ast.ForStmt:
		return t.forStmt(x, rest, depth, k)
	case *ast.RangeStmt:
		return t.rangeStmt(x, rest, depth, k)
	}
	return t.fail(s, "statement %T", s)
}

// structLit: `x := &T{f: e, …}` / `x := T{…}` makes x a local struct object; its fields of a supported type become
// locations x.f (zero unless given), fields of other types are abstract and their initialisers are not looked at.
func (t *tr) structLit(id *ast.Ident, rhs ast.Expr) bool {
	if u, ok := rhs.(*ast.UnaryExpr); ok && u.Op == token.AND {
		rhs = u.X
	}
	cl, ok := rhs.(*ast.CompositeLit)
	var ty types.Type
	if !ok {
		// new(T): all fields zero
		c, isCall := rhs.(*ast.CallExpr)
		if !isCall || len(c.Args) != 1 {
			return false
		}
		if fid, isId := c.Fun.(*ast.Ident); !isId || fid.Name != "new" || t.objOf(fid) == nil || t.objOf(fid).Pkg() != nil {
			return false
		}
		tv, isTy := t.u.info.Types[c.Args[0]]
		if !isTy || !tv.IsType() {
			return false
		}
		ty = tv.Type
		cl = &ast.CompositeLit{}
	} else {
		ty = t.typeOf(cl)
	}
	st, ok := ty.Underlying().(*types.Struct)
	if !ok {
		return false
	}
	obj := t.objOf(id)
	fields := structFields(ty)
	given := map[string]ast.Expr{}
	for i, el := range cl.Elts {
		if kv, ok := el.(*ast.KeyValueExpr); ok {
			if kid, ok := kv.Key.(*ast.Ident); ok {
				given[kid.Name] = kv.Value
			}
		} else if i < st.NumFields() {
			given[st.Field(i).Name()] = el
		}
	}
	for _, fld := range fields {
		v := t.pathVarNamed(localKey(obj)+"."+fld.Name(), id.Pos(), fld.Type())
		var val string
		if e, ok := given[fld.Name()]; ok {
			val = t.expr(e)
		} else {
			kd, _ := classify(fld.Type())
			switch kd {
			case kBytes:
				if arr, ok := fld.Type().Underlying().(*types.Array); ok {
					val = fmt.Sprintf("(GoSem.makeBytes (%d : Int))", arr.Len())
				} else {
					val = "([] : Bytes)"
				}
			case kBool:
				val = "false"
			case kSet, kRecList:
				val = "[]"
			case kOpt:
				val = "none"
			case kRec:
				val = "default"
			case kAbs:
				continue // no zero value in the model: must be assigned before it is read (a read of it fails)
			default:
				val = "0"
			}
		}
		t.setObj(v, v.Name(), fld.Type(), val, id)
	}
	t.f.objRoots[obj] = fields
	return true
}

func (t *tr) noteAliasAssign(id *ast.Ident, rhs ast.Expr) {
	if k, _ := t.kindOf(rhs); k == kBytes {
		t.noteAlias(id, rhs)
	}
}

// assignTo: target is a variable or an element v[i] of a variable.
func (t *tr) assignTo(lhs ast.Expr, ty types.Type, val string, s ast.Stmt, rest []ast.Stmt, depth int, k func() string) string {
	switch lv := lhs.(type) {
	case *ast.Ident:
		if lv.Name == "_" {
			return t.block(rest, depth, k)
		}
		obj := t.objOf(lv)
		if v, ok := obj.(*types.Var); ok && v.Parent() == t.u.pkg.Scope() {
			return t.fail(s, "assignment to package variable %s", lv.Name)
		}
		if t.liveViewRoot(obj) {
			return t.fail(s, "re-assignment of %s while a view of it is live", lv.Name)
		}
		vt := t.typeOf(lv)
		if vt == nil {
			vt = ty
		}
		t.setVar(lv, vt, val)
		return t.block(rest, depth, k)
	case *ast.IndexExpr:
		if kd, _ := t.kindOf(lv.X); kd == kAbs {
			an, _ := absTypeOf(t.typeOf(lv.X))
			base, name := t.placeObj(lv.X)
			if base == nil || !t.f.hasBinder(an+"_set") {
				return t.fail(s, "store into the abstract map %s", t.src(lv.X))
			}
			t.setObj(base, name, t.typeOf(lv.X), fmt.Sprintf("(%s_set %s %s %s)", an, t.expr(lv.X), t.expr(lv.Index), val), s)
			return t.block(rest, depth, k)
		}
		if kd, _ := t.kindOf(lv.X); kd == kMapList {
			// m[k] = v: the map function updated at k
			base, name := t.placeObj(lv.X)
			if base == nil {
				return t.fail(s, "store into a map that is not a variable / field")
			}
			cur := t.expr(lv.X)
			t.setObj(base, name, t.typeOf(lv.X), fmt.Sprintf("(fun k__ => if k__ = %s then %s else %s k__)", t.expr(lv.Index), val, cur), s)
			return t.block(rest, depth, k)
		}
		if kd, _ := t.kindOf(lv.X); kd == kSet {
			// m[k] = true on a map used as a set
			base, name := t.placeObj(lv.X)
			as, isAssign := s.(*ast.AssignStmt)
			if base == nil || !isAssign || as.Tok != token.ASSIGN || len(as.Rhs) != 1 {
				return t.fail(s, "store into a set")
			}
			isUnit := false
			if st, ok := t.typeOf(as.Rhs[0]).Underlying().(*types.Struct); ok && st.NumFields() == 0 {
				isUnit = true // m[k] = struct{}{}
			}
			if tv := t.u.info.Types[as.Rhs[0]]; !isUnit && (tv.Value == nil || tv.Value.String() != "true") {
				return t.fail(s, "a map[K]bool is translated as a set: only `m[k] = true` stores are supported")
			}
			t.setObj(base, name, t.typeOf(lv.X), fmt.Sprintf("(%s :: %s)", t.expr(lv.Index), t.expr(lv.X)), s)
			return t.block(rest, depth, k)
		}
		if vw := t.viewOf(lv.X); vw != nil {
			t.store(vw.root, s, fmt.Sprintf("GoSem.setAtV %s %s %s %s %s", t.f.env[vw.root], t.f.env[vw.lo], t.f.env[vw.hi], t.intExpr(lv.Index), val))
			return t.block(rest, depth, k)
		}
		base, _ := t.placeObj(lv.X)
		if base == nil {
			return t.fail(s, "element store into a non-variable")
		}
		if kd, _ := t.kindOf(lv.X); kd != kBytes {
			return t.fail(s, "element store into %s", t.typeOf(lv.X))
		}
		if _, isStr := t.typeOf(lv.X).Underlying().(*types.Basic); isStr {
			return t.fail(s, "element store into a string")
		}
		t.store(base, s, fmt.Sprintf("GoSem.setAt %s %s %s", t.expr(lv.X), t.intExpr(lv.Index), val))
		return t.block(rest, depth, k)
	case *ast.SelectorExpr:
		// assignment to a field p.f of a supported type
		obj, name := t.placeObj(lv)
		if obj == nil {
			break
		}
		if kd, _ := t.kindOf(lv); kd == kBytes {
			if len(t.f.alias[obj]) > 0 {
				return t.fail(s, "re-assignment of %s, which shares memory with another translated variable", name)
			}
		}
		t.setObj(obj, name, t.typeOf(lv), val, s)
		return t.block(rest, depth, k)
	}
	return t.fail(s, "assignment target %s", t.src(lhs))
}

// binaryStr: like binary but the right operand is already a Lean literal (x++ / x--)
func (t *tr) binaryStr(X ast.Expr, op token.Token, lit string, ty types.Type, n ast.Node) string {
	kd, w := classify(ty)
	a := t.expr(X)
	sym := "+"
	if op == token.SUB {
		sym = "-"
	}
	switch kd {
	case kByte:
		return fmt.Sprintf("(%s %s %s)", a, sym, lit)
	case kNat:
		if op == token.ADD {
			return fmt.Sprintf("((%s + 1) %% %s)", a, pow2(w))
		}
		return fmt.Sprintf("((%s + %s - 1) %% %s)", a, pow2(w), pow2(w))
	case kInt:
		return t.wrapS(w, fmt.Sprintf("(%s %s 1)", a, sym), n)
	}
	return t.fail(n, "++/-- on %s", ty)
}

func (t *tr) bindOption(x *ast.AssignStmt, tup *types.Tuple, rest []ast.Stmt, depth int, k func() string) string {
	if tup == nil {
		// err := f(…); if err != nil { return …, err }   with f : … → Option Unit
		eid, ok := x.Lhs[0].(*ast.Ident)
		if !ok {
			return t.fail(x, "assignment target")
		}
		if len(rest) > 0 {
			if br := t.loopGuard(rest[0], t.objOf(eid)); br != nil {
				// err := f(…); if err != nil { continue / break }
				opt := t.define("opt_"+eid.Name, "Option Unit", t.expr(x.Rhs[0]))
				pre := t.cloneEnv()
				noneB := t.block([]ast.Stmt{br}, depth+1, k)
				t.f.env = cloneMap(pre)
				body := t.block(rest[1:], depth+1, k)
				return fmt.Sprintf("%smatch %s with\n%s| none =>\n%s\n%s| some _ =>\n%s", ind(depth), opt, ind(depth), noneB, ind(depth), body)
			}
		}
		if len(rest) == 0 || !t.errGuard(rest[0], t.objOf(eid)) {
			// an error kept as a value: only whether it is nil can be asked (`err == nil`, `err != nil`)
			t.f.errBool[t.objOf(eid)] = true
			t.rank(t.objOf(eid))
			t.f.env[t.objOf(eid)] = t.define(eid.Name, "Bool", "("+t.expr(x.Rhs[0])+").isNone")
			return t.block(rest, depth, k)
		}
		if c, isCall := x.Rhs[0].(*ast.CallExpr); isCall {
			if sg := t.calleeSig(c); sg != nil && sg.proc && sg.optional {
				// err := P(…, dst, …): on success the windows hold the procedure's value
				outs, call, ok := t.procCall(calleeName(c), sg, c)
				if !ok {
					return "(UNSUPPORTED)"
				}
				ty := bytesTuple(len(outs))
				if len(outs) > 1 {
					ty = "(" + ty + ")"
				}
				opt := t.define("opt_"+outs[0].dst.Name(), optOf(ty), call)
				f := t.f
				saved := f.binders
				bn := t.newBinderName()
				f.binders = append(append([]binder{}, f.binders...), binder{bn, bytesTuple(len(outs))})
				t.storeProcOuts(outs, bn, x)
				body := t.block(rest[1:], depth+1, k)
				f.binders = saved
				if len(t.f.loops) > 0 {
					return fmt.Sprintf("%smatch %s with\n%s| none => %s\n%s| some %s =>\n%s", ind(depth), opt, ind(depth), t.wrapRet("none"), ind(depth), bn, body)
				}
				return fmt.Sprintf("%s(%s).bind (fun %s =>\n%s)", ind(depth), opt, bn, body)
			}
		}
		call := t.expr(x.Rhs[0])
		opt := t.define("opt_"+eid.Name, "Option Unit", call)
		body := t.block(rest[1:], depth+1, k)
		if len(t.f.loops) > 0 {
			return fmt.Sprintf("%smatch %s with\n%s| none => %s\n%s| some _ =>\n%s", ind(depth), opt, ind(depth), t.wrapRet("none"), ind(depth), body)
		}
		return fmt.Sprintf("%s(%s).bind (fun _ =>\n%s)", ind(depth), opt, body)
	}
	vid, ok1 := x.Lhs[0].(*ast.Ident)
	eid, ok2 := x.Lhs[1].(*ast.Ident)
	if !ok1 || !ok2 {
		return t.fail(x, "tuple assignment target")
	}
	errObj := t.objOf(eid)
	if len(rest) > 0 && t.panicGuard(rest[0], errObj) {
		// x, err := f(…); if err != nil { panic(err) }: a failure is the poison value
		if kd, _ := classify(tup.At(0).Type()); kd != kBytes {
			return t.fail(x, "panic guard on a non-slice result")
		}
		t.setVar(vid, tup.At(0).Type(), "("+t.expr(x.Rhs[0])+").getD []")
		return t.block(rest[1:], depth, k)
	}
	var loopBr ast.Stmt
	if len(rest) > 0 {
		loopBr = t.loopGuard(rest[0], errObj)
	}
	if loopBr == nil && len(rest) > 0 && !t.errGuard(rest[0], errObj) {
		if body, ok := t.okGuard(rest[0], errObj); ok {
			// v, err := f(…); if err == nil { A }; B   =   on success A (then B unless A leaves), on failure B
			if _, isCall := x.Rhs[0].(*ast.CallExpr); isCall && t.f.inouts[t.ck(x.Rhs[0].(*ast.CallExpr))].name == "" {
				f := t.f
				opt := t.define("opt_"+vid.Name, optOf(t.leanType(tup.At(0).Type())), t.expr(x.Rhs[0]))
				pre := t.cloneEnv()
				saved := f.binders
				bn := t.newBinderName()
				f.binders = append(append([]binder{}, f.binders...), binder{bn, t.leanType(tup.At(0).Type())})
				if vid.Name != "_" {
					f.env[t.objOf(vid)] = bn
				}
				someS := body
				if !terminates(body) {
					someS = append(append([]ast.Stmt{}, body...), rest[1:]...)
				}
				someB := t.block(someS, depth+1, k)
				f.binders = saved
				t.f.env = cloneMap(pre)
				noneB := t.block(rest[1:], depth+1, k)
				return fmt.Sprintf("%smatch %s with\n%s| none =>\n%s\n%s| some %s =>\n%s", ind(depth), opt, ind(depth), noneB, ind(depth), bn, someB)
			}
		}
	}
	if loopBr == nil && (len(rest) == 0 || !t.errGuard(rest[0], errObj)) {
		return t.fail(x, "a (value, error) result must be followed by `if err != nil { return …, err }`")
	}
	f := t.f
	var call string
	var ioDst types.Object
	var ioLo, ioHi string
	if c, isCall := x.Rhs[0].(*ast.CallExpr); isCall {
		if o, ok := f.inouts[t.ck(c)]; ok {
			// x, err := callee(dst, args…): the callee writes the window dst and returns it (or a fresh slice when dst is empty)
			if len(c.Args) == 0 {
				return t.fail(x, "-inout call without a destination")
			}
			var id *ast.Ident
			if i, ok := c.Args[0].(*ast.Ident); ok {
				id = i
			}
			args := []string{}
			if id != nil && id.Name == "nil" {
				args = append(args, "([] : Bytes)")
			} else {
				dst, cur, lo, hi, ok := t.window(c.Args[0])
				if !ok {
					return "(UNSUPPORTED)"
				}
				ioDst, ioLo, ioHi = dst, lo, hi
				args = append(args, fmt.Sprintf("(GoSem.slice %s %s %s)", cur, lo, hi))
			}
			for _, a := range c.Args[1:] {
				if ioDst != nil && rootIs(t, a, ioDst) {
					return t.fail(x, "-inout argument %s overlaps the destination", t.src(a))
				}
				args = append(args, t.expr(a))
			}
			call = "(" + leanName(o.name) + " " + strings.Join(args, " ") + ")"
		}
	}
	if call == "" {
		call = t.expr(x.Rhs[0])
	}
	opt := t.define("opt_"+vid.Name, optOf(t.leanType(tup.At(0).Type())), call)
	saved := f.binders
	bn := t.newBinderName()
	f.binders = append(append([]binder{}, f.binders...), binder{bn, t.leanType(tup.At(0).Type())})
	if vid.Name != "_" {
		f.env[t.objOf(vid)] = bn
	}
	if ioDst != nil {
		t.store(ioDst, x, fmt.Sprintf("GoSem.copyInto %s %s %s %s", f.env[ioDst], ioLo, ioHi, bn))
	}
	if loopBr != nil {
		preEnv := t.cloneEnv()
		body := t.block(rest[1:], depth+1, k)
		f.binders = saved
		t.f.env = cloneMap(preEnv)
		noneB := t.block([]ast.Stmt{loopBr}, depth+1, k)
		return fmt.Sprintf("%smatch %s with\n%s| none =>\n%s\n%s| some %s =>\n%s", ind(depth), opt, ind(depth), noneB, ind(depth), bn, body)
	}
	body := t.block(rest[1:], depth+1, k)
	f.binders = saved
	if len(t.f.loops) > 0 {
		return fmt.Sprintf("%smatch %s with\n%s| none => %s\n%s| some %s =>\n%s", ind(depth), opt, ind(depth), t.wrapRet("none"), ind(depth), bn, body)
	}
	return fmt.Sprintf("%s(%s).bind (fun %s =>\n%s)", ind(depth), opt, bn, body)
}

// stepArgs: the explicit arguments of a -step call: arguments of an empty struct type (tokens) carry no information and are
// dropped; the arguments of a variadic parameter form a list
func (t *tr) stepArgs(c *ast.CallExpr, sig *types.Signature) []string {
	var args []string
	np := sig.Params().Len()
	for i, a := range c.Args {
		if sig.Variadic() && i >= np-1 {
			break
		}
		if emptyStruct(sig.Params().At(i).Type()) {
			continue
		}
		args = append(args, t.expr(a))
	}
	if sig.Variadic() {
		if c.Ellipsis.IsValid() {
			args = append(args, t.expr(c.Args[len(c.Args)-1]))
		} else {
			var vs []string
			for _, a := range c.Args[np-1:] {
				vs = append(vs, t.expr(a))
			}
			args = append(args, "["+strings.Join(vs, ", ")+"]")
		}
	}
	return args
}

func emptyStruct(ty types.Type) bool {
	st, ok := ty.Underlying().(*types.Struct)
	return ok && st.NumFields() == 0
}

// bindOptionN: v1, …, vn, err := f(…); if err != nil { return …, err }   with f : … → Option (T1 × … × Tn)
func (t *tr) bindOptionN(x *ast.AssignStmt, tup *types.Tuple, rest []ast.Stmt, depth int, k func() string) string {
	n := tup.Len() - 1
	var ids []*ast.Ident
	for _, l := range x.Lhs {
		id, ok := l.(*ast.Ident)
		if !ok {
			return t.fail(x, "tuple assignment target")
		}
		ids = append(ids, id)
	}
	if len(rest) == 0 || !t.errGuard(rest[0], t.objOf(ids[n])) {
		return t.fail(x, "a (values…, error) result must be followed by `if err != nil { return …, err }`")
	}
	var tys []string
	for i := 0; i < n; i++ {
		tys = append(tys, t.leanType(tup.At(i).Type()))
	}
	prod := strings.Join(tys, " × ")
	f := t.f
	opt := t.define("opt_"+ids[0].Name, "Option ("+prod+")", t.expr(x.Rhs[0]))
	saved := f.binders
	bn := t.newBinderName()
	f.binders = append(append([]binder{}, f.binders...), binder{bn, prod})
	for i := 0; i < n; i++ {
		if ids[i].Name == "_" {
			continue
		}
		p := bn
		for j := 0; j < i; j++ {
			p += ".2"
		}
		if i < n-1 {
			p += ".1"
		}
		f.env[t.objOf(ids[i])] = p
	}
	body := t.block(rest[1:], depth+1, k)
	f.binders = saved
	if len(t.f.loops) > 0 {
		return fmt.Sprintf("%smatch %s with\n%s| none => %s\n%s| some %s =>\n%s", ind(depth), opt, ind(depth), t.wrapRet("none"), ind(depth), bn, body)
	}
	return fmt.Sprintf("%s(%s).bind (fun %s =>\n%s)", ind(depth), opt, bn, body)
}

func (t *tr) ifStmt(x *ast.IfStmt, rest []ast.Stmt, depth int, k func() string) string {
	if x.Init != nil {
		// `if init; cond {…}`: the init statement, then the plain if (the variables are distinct objects, so the wider scope is harmless)
		plainIf := *x
		plainIf.Init = nil
		return t.block(append([]ast.Stmt{x.Init, &plainIf}, rest...), depth, k)
	}
	if r, ok := t.ifElseBind(x, rest, depth, k); ok {
		return r
	}
	// a condition that is (the negation of) a call of a stateful helper: the call is made first, its Bool result tested
	var c string
	{
		ce := x.Cond
		neg := false
		for {
			if p, ok := ce.(*ast.ParenExpr); ok {
				ce = p.X
				continue
			}
			if u, ok := ce.(*ast.UnaryExpr); ok && u.Op == token.NOT {
				neg = !neg
				ce = u.X
				continue
			}
			break
		}
		if call, sg := t.statefulSig(ce); sg != nil && len(sg.resTys) == 1 {
			if kd, _ := classify(sg.resTys[0]); kd == kBool {
				res, _ := t.statefulCallR(nil, call, sg, x)
				if len(res) == 1 {
					c = "(" + res[0] + " = true)"
					if neg {
						c = "(¬ " + c + ")"
					}
				}
			}
		}
	}
	if c == "" {
		c = t.cond(x.Cond)
	}
	var elseList []ast.Stmt
	switch el := x.Else.(type) {
	case nil:
	case *ast.BlockStmt:
		elseList = el.List
	case *ast.IfStmt:
		elseList = []ast.Stmt{el}
	}
	thenT, elseT := terminates(x.Body.List), terminates(elseList)
	pre := t.cloneEnv()
	// a fall-through branch that can also leave the function (nested return) cannot be joined variable by variable:
	// the rest of the block is then translated once per branch
	if !thenT && !elseT && !exits(x.Body.List) && !exits(elseList) {
		// both fall through: translate each, then join the variables they changed
		stop := func() string { return "" }
		t.block(x.Body.List, 0, stop)
		envA := t.f.env
		t.f.env = cloneMap(pre)
		t.block(elseList, 0, stop)
		envB := t.f.env
		t.f.env = cloneMap(pre)
		var objs []types.Object
		for o := range pre {
			if envA[o] != envB[o] {
				objs = append(objs, o)
			}
		}
		t.rankAll(objs)
		sort.Slice(objs, func(i, j int) bool { return t.rank(objs[i]) < t.rank(objs[j]) })
		for _, o := range objs {
			t.f.env[o] = t.define(o.Name(), t.leanTypeOfObj(o), fmt.Sprintf("if %s then %s else %s", c, envA[o], envB[o]))
		}
		return t.block(rest, depth, k)
	}
	thenS := x.Body.List
	if !thenT {
		thenS = append(append([]ast.Stmt{}, thenS...), rest...)
	}
	elseS := elseList
	if !elseT {
		elseS = append(append([]ast.Stmt{}, elseS...), rest...)
	}
	pushed := false
	if be, ok := x.Cond.(*ast.BinaryExpr); ok && be.Op == token.NEQ && thenT {
		if id, ok := be.Y.(*ast.Ident); ok && id.Name == "nil" {
			if se, ok := be.X.(*ast.SelectorExpr); ok && t.isFieldPath(se) {
				if ke, _ := t.kindOf(se); ke == kErr {
					t.f.nonNil = append(t.f.nonNil, t.pathKey(se))
					pushed = true
				}
			}
		}
	}
	a := t.block(thenS, depth+1, k)
	if pushed {
		t.f.nonNil = t.f.nonNil[:len(t.f.nonNil)-1]
	}
	t.f.env = cloneMap(pre)
	b := t.block(elseS, depth+1, k)
	return fmt.Sprintf("%sif %s then\n%s\n%selse\n%s", ind(depth), c, a, ind(depth), b)
}

// ifElseBind: `if c { v, err = f(…) } else { v, err = g(…) }; if err != nil { return …, err }` — the two calls are one
// conditional Option value that is bound once
func (t *tr) ifElseBind(x *ast.IfStmt, rest []ast.Stmt, depth int, k func() string) (string, bool) {
	if t.f.stateful || x.Else == nil || len(rest) == 0 {
		return "", false
	}
	eb, ok := x.Else.(*ast.BlockStmt)
	if !ok || len(x.Body.List) != 1 || len(eb.List) != 1 {
		return "", false
	}
	a1, ok1 := x.Body.List[0].(*ast.AssignStmt)
	a2, ok2 := eb.List[0].(*ast.AssignStmt)
	if !ok1 || !ok2 || a1.Tok != token.ASSIGN || a2.Tok != token.ASSIGN || len(a1.Lhs) != 2 || len(a2.Lhs) != 2 || len(a1.Rhs) != 1 || len(a2.Rhs) != 1 {
		return "", false
	}
	var objs [2]types.Object
	for i := 0; i < 2; i++ {
		i1, ok1 := a1.Lhs[i].(*ast.Ident)
		i2, ok2 := a2.Lhs[i].(*ast.Ident)
		if !ok1 || !ok2 || t.objOf(i1) == nil || t.objOf(i1) != t.objOf(i2) {
			return "", false
		}
		objs[i] = t.objOf(i1)
	}
	c1, okc1 := a1.Rhs[0].(*ast.CallExpr)
	c2, okc2 := a2.Rhs[0].(*ast.CallExpr)
	if !okc1 || !okc2 {
		return "", false
	}
	tup, ok := t.typeOf(c1).(*types.Tuple)
	if !ok || tup.Len() != 2 || !types.Identical(t.typeOf(c1), t.typeOf(c2)) {
		return "", false
	}
	if ke, _ := classify(tup.At(1).Type()); ke != kErr {
		return "", false
	}
	if !t.errGuard(rest[0], objs[1]) {
		return "", false
	}
	f := t.f
	vty := t.leanType(tup.At(0).Type())
	opt := t.define("opt_"+objs[0].Name(), optOf(vty), fmt.Sprintf("if %s then %s else %s", t.cond(x.Cond), t.expr(c1), t.expr(c2)))
	saved := f.binders
	bn := t.newBinderName()
	f.binders = append(append([]binder{}, f.binders...), binder{bn, vty})
	f.env[objs[0]] = bn
	body := t.block(rest[1:], depth+1, k)
	f.binders = saved
	if len(t.f.loops) > 0 {
		return fmt.Sprintf("%smatch %s with\n%s| none => %s\n%s| some %s =>\n%s", ind(depth), opt, ind(depth), t.wrapRet("none"), ind(depth), bn, body), true
	}
	return fmt.Sprintf("%s(%s).bind (fun %s =>\n%s)", ind(depth), opt, bn, body), true
}

// exits: the statements contain a return / break / continue / goto / panic somewhere (closures excluded)
func exits(stmts []ast.Stmt) bool {
	found := false
	for _, s := range stmts {
		ast.Inspect(s, func(n ast.Node) bool {
			switch x := n.(type) {
			case *ast.FuncLit:
				return false
			case *ast.ReturnStmt, *ast.BranchStmt:
				found = true
			case *ast.ExprStmt:
				if isPanic(x) {
					found = true
				}
			}
			return true
		})
	}
	return found
}

func cloneMap(m map[types.Object]string) map[types.Object]string {
	r := make(map[types.Object]string, len(m))
	for k, v := range m {
		r[k] = v
	}
	return r
}

// switchAsIf: a switch (tagless, or with clauses that fall out of it) as the equivalent if / else-if chain
func (t *tr) switchAsIf(x *ast.SwitchStmt, rest []ast.Stmt, depth int, k func() string) string {
	var chain, last *ast.IfStmt
	var def *ast.CaseClause
	for _, cc := range x.Body.List {
		c := cc.(*ast.CaseClause)
		for _, st := range c.Body {
			bad := false
			ast.Inspect(st, func(n ast.Node) bool {
				switch y := n.(type) {
				case *ast.ForStmt, *ast.RangeStmt, *ast.SwitchStmt, *ast.FuncLit:
					return false
				case *ast.BranchStmt:
					if y.Tok == token.BREAK || y.Tok == token.FALLTHROUGH {
						bad = true
					}
				}
				return true
			})
			if bad {
				return t.fail(c, "switch clause with break / fallthrough")
			}
		}
		if c.List == nil {
			def = c
			continue
		}
		var cond ast.Expr
		for _, e := range c.List {
			var one ast.Expr = e
			if x.Tag != nil {
				one = &ast.BinaryExpr{X: x.Tag, Op: token.EQL, Y: e, OpPos: e.Pos()}
			}
			if cond == nil {
				cond = one
			} else {
				cond = &ast.BinaryExpr{X: cond, Op: token.LOR, Y: one, OpPos: e.Pos()}
			}
		}
		is := &ast.IfStmt{If: c.Pos(), Cond: cond, Body: &ast.BlockStmt{Lbrace: c.Pos(), List: c.Body, Rbrace: c.End()}}
		if chain == nil {
			chain = is
		} else {
			last.Else = is
		}
		last = is
	}
	if chain == nil {
		if def != nil {
			return t.block(append(append([]ast.Stmt{}, def.Body...), rest...), depth, k)
		}
		return t.block(rest, depth, k)
	}
	if def != nil {
		last.Else = &ast.BlockStmt{Lbrace: def.Pos(), List: def.Body, Rbrace: def.End()}
	}
	return t.ifStmt(chain, rest, depth, k)
}

func (t *tr) switchStmt(x *ast.SwitchStmt, rest []ast.Stmt, depth int, k func() string) string {
	if x.Init != nil {
		plain := *x
		plain.Init = nil
		return t.block(append([]ast.Stmt{x.Init, &plain}, rest...), depth, k)
	}
	if x.Tag == nil {
		return t.switchAsIf(x, rest, depth, k)
	}
	for _, cc := range x.Body.List {
		if !terminates(cc.(*ast.CaseClause).Body) {
			return t.switchAsIf(x, rest, depth, k)
		}
	}
	kd, _ := t.kindOf(x.Tag)
	if kd != kInt && kd != kNat && kd != kByte {
		return t.fail(x, "switch on %s", t.typeOf(x.Tag))
	}
	tag := t.expr(x.Tag)
	var def *ast.CaseClause
	var clauses []*ast.CaseClause
	for _, cc := range x.Body.List {
		c := cc.(*ast.CaseClause)
		if !terminates(c.Body) {
			return t.fail(c, "switch clause that falls out of the switch")
		}
		if c.List == nil {
			def = c
		} else {
			clauses = append(clauses, c)
		}
	}
	pre := t.cloneEnv()
	var sb strings.Builder
	for _, c := range clauses {
		var alts []string
		for _, e := range c.List {
			lit, ok := t.constLit(e)
			if !ok {
				return t.fail(e, "non-constant case")
			}
			alts = append(alts, fmt.Sprintf("%s = %s", tag, lit))
		}
		t.f.env = cloneMap(pre)
		body := t.block(c.Body, depth+1, k)
		sb.WriteString(fmt.Sprintf("%sif %s then\n%s\n%selse\n", ind(depth), strings.Join(alts, " ∨ "), body, ind(depth)))
	}
	t.f.env = cloneMap(pre)
	if def != nil {
		sb.WriteString(t.block(def.Body, depth, k))
	} else {
		sb.WriteString(t.block(rest, depth, k))
	}
	return sb.String()
}

// assignedObjs: variables and field-path locations written (assigned, stored into, inc/dec'ed) inside the statements
func (t *tr) assignedObjs(stmts []ast.Stmt) map[types.Object]bool {
	res := map[types.Object]bool{}
	var root func(e ast.Expr) types.Object
	root = func(e ast.Expr) types.Object {
		for {
			switch x := e.(type) {
			case *ast.Ident:
				return t.u.info.Uses[x]
			case *ast.SelectorExpr:
				if _, ok := t.u.info.Selections[x]; ok && t.isFieldPath(x) {
					return t.pathVar(x)
				}
				return nil
			case *ast.IndexExpr:
				e = x.X
			case *ast.SliceExpr:
				e = x.X
			case *ast.ParenExpr:
				e = x.X
			default:
				return nil
			}
		}
	}
	mark := func(e ast.Expr) {
		if o := root(e); o != nil {
			res[o] = true
		}
	}
	// a store through a view writes its root; an assignment to a view variable moves its bounds
	markStore := func(e ast.Expr) {
		if o := root(e); o != nil {
			if r, ok := t.f.viewRoot[o]; ok {
				res[r] = true
			} else {
				res[o] = true
			}
		}
	}
	for _, s := range stmts {
		ast.Inspect(s, func(n ast.Node) bool {
			switch x := n.(type) {
			case *ast.AssignStmt:
				for _, l := range x.Lhs {
					if _, isIdx := l.(*ast.IndexExpr); isIdx {
						markStore(l)
						continue
					}
					if id, ok := l.(*ast.Ident); ok {
						if vv, ok := t.f.viewVars[t.objOf(id)]; ok {
							res[vv[0]], res[vv[1]] = true, true
							continue
						}
					}
					mark(l)
				}
			case *ast.IncDecStmt:
				if _, isIdx := x.X.(*ast.IndexExpr); isIdx {
					markStore(x.X)
				} else {
					mark(x.X)
				}
			case *ast.CallExpr:
				for _, i := range t.destArgs(x) {
					if i >= 0 && i < len(x.Args) {
						markStore(x.Args[i])
					}
				}
				if _, isStep := t.f.stepops[t.ck(x)]; isStep {
					if sel, ok := x.Fun.(*ast.SelectorExpr); ok {
						mark(sel.X)
					}
				}
				if sg := t.calleeSig(x); sg != nil && sg.stateful {
					for _, key := range sg.stateKeys {
						if v := t.f.pvars[key]; v != nil {
							res[v] = true
						} else {
							// first sight of this field here: create its variable (its binder comes with the callee's parameters)
							for bn, src := range sg.pathSrc {
								if src == key {
									res[t.pathVarNamed(key, x.Pos(), sg.pathTy[bn])] = true
								}
							}
						}
					}
				}
				callee := t.ck(x)
				for _, e := range t.f.externs {
					if e.callee == callee {
						// a call on an external object advances its state; a read-like call also fills its buffer argument
						if v := t.f.pvars[e.path]; v != nil {
							res[v] = true
						}
						if t.f.externRead[callee] && len(x.Args) > 0 {
							markStore(x.Args[len(x.Args)-1])
						}
					}
				}
			}
			return true
		})
	}
	return res
}

func (t *tr) forStmt(x *ast.ForStmt, rest []ast.Stmt, depth int, k func() string) string {
	if !isSimpleFor(t, x) {
		return t.loopGeneral(x, rest, depth, k)
	}
	// for i := 0; i < N; i++ { body }
	init, ok1 := x.Init.(*ast.AssignStmt)
	cnd, ok2 := x.Cond.(*ast.BinaryExpr)
	post, ok3 := x.Post.(*ast.IncDecStmt)
	if !ok1 || !ok2 || !ok3 || init.Tok != token.DEFINE || len(init.Lhs) != 1 || cnd.Op != token.LSS || post.Tok != token.INC {
		return t.fail(x, "loop is not of the form `for i := 0; i < N; i++`")
	}
	iv, ok := init.Lhs[0].(*ast.Ident)
	if !ok {
		return t.fail(x, "loop variable")
	}
	iobj := t.u.info.Defs[iv]
	if tv := t.u.info.Types[init.Rhs[0]]; tv.Value == nil || tv.Value.ExactString() != "0" {
		return t.fail(x, "loop does not start at 0")
	}
	ci, okc := cnd.X.(*ast.Ident)
	pi, okp := post.X.(*ast.Ident)
	if !okc || !okp || t.objOf(ci) != iobj || t.objOf(pi) != iobj {
		return t.fail(x, "loop condition / post statement do not use the loop variable")
	}
	if kd, w := classify(iobj.Type()); kd != kInt || w != 64 {
		return t.fail(x, "loop variable of type %s", iobj.Type())
	}
	return t.simpleLoop(x, iobj, cnd.Y, t.intExpr(cnd.Y), x.Body, nil, rest, depth, k)
}

// simpleLoop: `for i := 0; i < bound; i++ { body }` with a body that cannot leave the loop (→ GoSem.forRange).
// Also the normal form of `for i := range n` and of `for i, v := range b` over a byte slice (pre binds v to b[i]).
func (t *tr) simpleLoop(x ast.Node, iobj types.Object, boundNode ast.Expr, bound string, xBody *ast.BlockStmt, pre func(in string), rest []ast.Stmt, depth int, k func() string) string {
	bad := false
	ast.Inspect(xBody, func(n ast.Node) bool {
		switch n.(type) {
		case *ast.ReturnStmt, *ast.BranchStmt, *ast.GoStmt, *ast.DeferStmt, *ast.FuncLit:
			bad = true
		}
		return true
	})
	if bad {
		return t.fail(x, "loop body with return / break / continue / closure")
	}
	written := t.assignedObjs(xBody.List)
	if iobj != nil && written[iobj] {
		return t.fail(x, "loop variable is modified in the body")
	}
	// the bound must be loop-invariant
	inv := true
	if boundNode == nil {
		boundNode = &ast.BasicLit{} // range forms evaluate their operand once, before the loop
	}
	ast.Inspect(boundNode, func(n ast.Node) bool {
		if id, ok := n.(*ast.Ident); ok {
			if o := t.u.info.Uses[id]; o != nil && written[o] {
				inv = false
			}
		}
		return true
	})
	if !inv {
		return t.fail(x, "loop bound is modified in the body")
	}
	var state []types.Object
	for o := range written {
		if _, ok := t.f.env[o]; ok {
			state = append(state, o)
		}
	}
	t.rankAll(state)
	sort.Slice(state, func(i, j int) bool { return t.rank(state[i]) < t.rank(state[j]) })
	if len(state) == 0 {
		return t.block(rest, depth, k)
	}
	var tys, inits []string
	for _, o := range state {
		tys = append(tys, t.leanTypeOfObj(o))
		inits = append(inits, t.f.env[o])
	}
	sigma := strings.Join(tys, " × ")
	initV := strings.Join(inits, ", ")
	if len(state) > 1 {
		initV = "(" + initV + ")"
	}
	f := t.f
	f.loopN++
	ln := fmt.Sprintf("loop%d", f.loopN)
	sn := fmt.Sprintf("s%d", f.loopN)
	in := fmt.Sprintf("i%d", f.loopN)
	savedB, savedEnv, savedName := f.binders, t.cloneEnv(), f.name
	outerArgs := f.args()
	outerDecl := f.binderDecl()
	f.binders = append(append([]binder{}, f.binders...), binder{sn, sigma}, binder{in, "Int"})
	for i, o := range state {
		p := sn
		if len(state) > 1 {
			for j := 0; j < i; j++ {
				p += ".2"
			}
			if i < len(state)-1 {
				p += ".1"
			}
		}
		f.env[o] = p
	}
	if iobj != nil {
		f.env[iobj] = in
	}
	if pre != nil {
		pre(in)
	}
	f.name = savedName + "." + ln
	body := t.block(xBody.List, 1, func() string {
		var vs []string
		for _, o := range state {
			vs = append(vs, f.env[o])
		}
		if len(vs) == 1 {
			return vs[0]
		}
		return "(" + strings.Join(vs, ", ") + ")"
	})
	bodyName := savedName + "." + ln + ".body"
	f.aux = append(f.aux, fmt.Sprintf("def %s %s : %s :=\n%s\n", bodyName, f.binderDecl(), sigma, body))
	f.binders, f.env, f.name = savedB, savedEnv, savedName
	loopName := savedName + "." + ln
	f.aux = append(f.aux, fmt.Sprintf("def %s %s : %s :=\n  GoSem.forRange %s %s (fun %s %s => %s %s %s %s)\n", loopName, outerDecl, sigma,
		bound, initV, sn, in, bodyName, outerArgs, sn, in))
	res := loopName
	if outerArgs != "" {
		res = "(" + loopName + " " + outerArgs + ")"
	}
	for i, o := range state {
		p := res
		if len(state) > 1 {
			for j := 0; j < i; j++ {
				p += ".2"
			}
			if i < len(state)-1 {
				p += ".1"
			}
		}
		f.env[o] = t.define(o.Name(), t.leanTypeOfObj(o), p)
	}
	return t.block(rest, depth, k)
}
