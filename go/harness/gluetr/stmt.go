//go:build verif

package main

import (
	"fmt"
	"go/ast"
	"go/token"
	"go/types"
	"sort"
	"strings"
)

// ---------- stores ----------

// window resolves a destination operand `v`, `v[:]`, `v[lo:]`, `v[:hi]`, `v[lo:hi]` over a variable v.
func (t *tr) window(e ast.Expr) (id *ast.Ident, lo, hi string, ok bool) {
	switch x := e.(type) {
	case *ast.ParenExpr:
		return t.window(x.X)
	case *ast.Ident:
		if k, _ := t.kindOf(x); k != kBytes {
			break
		}
		b := t.expr(x)
		return x, "(0 : Int)", "(GoSem.len " + b + ")", true
	case *ast.SliceExpr:
		base, isId := x.X.(*ast.Ident)
		if !isId || x.Slice3 {
			break
		}
		if k, _ := t.kindOf(base); k != kBytes {
			break
		}
		b := t.expr(base)
		lo, hi = "(0 : Int)", "(GoSem.len "+b+")"
		if x.Low != nil {
			lo = t.intExpr(x.Low)
		}
		if x.High != nil {
			hi = t.intExpr(x.High)
		}
		return base, lo, hi, true
	}
	t.fail(e, "store destination %s is not a (slice of a) variable", t.src(e))
	return nil, "", "", false
}

// setVar records a new version of a Go variable.
func (t *tr) setVar(id *ast.Ident, ty types.Type, val string) {
	obj := t.objOf(id)
	if obj == nil {
		t.fail(id, "unresolved variable %s", id.Name)
		return
	}
	lt := t.leanType(ty)
	if lt == "UNSUPPORTED_TYPE" {
		t.fail(id, "variable %s of type %s", id.Name, ty)
		return
	}
	t.f.env[obj] = t.define(id.Name, lt, val)
}

// store: the variable's CONTENT is modified in place (visible through aliases → refuse if any)
func (t *tr) store(id *ast.Ident, val string) {
	obj := t.objOf(id)
	if len(t.f.alias[obj]) > 0 {
		t.fail(id, "store into %s, which shares memory with another translated variable", id.Name)
		return
	}
	if v, ok := obj.(*types.Var); ok && v.Parent() == t.u.pkg.Scope() {
		t.fail(id, "store into package variable %s", id.Name)
		return
	}
	t.setVar(id, t.typeOf(id), val)
}

func (t *tr) noteAlias(lhs *ast.Ident, rhs ast.Expr) {
	var root *ast.Ident
	e := rhs
	for root == nil {
		switch x := e.(type) {
		case *ast.Ident:
			root = x
		case *ast.SliceExpr:
			e = x.X
		case *ast.ParenExpr:
			e = x.X
		case *ast.CallExpr:
			if id, ok := x.Fun.(*ast.Ident); ok && id.Name == "append" && len(x.Args) > 0 {
				e = x.Args[0]
				continue
			}
			return
		default:
			return
		}
	}
	if _, isArr := t.typeOf(root).Underlying().(*types.Array); isArr && rhs == ast.Expr(root) {
		return // array assignment copies
	}
	if k, _ := t.kindOf(root); k != kBytes {
		return
	}
	if _, isStr := t.typeOf(root).Underlying().(*types.Basic); isStr {
		return // strings are immutable
	}
	a, b := t.objOf(lhs), t.objOf(root)
	if a == nil || b == nil || a == b {
		return
	}
	t.f.alias[a] = append(t.f.alias[a], b)
	t.f.alias[b] = append(t.f.alias[b], a)
}

func sameExpr(t *tr, a, b ast.Expr) bool { return t.src(a) == t.src(b) }

// callStmt handles copy / PutUintN / XORBytes.
func (t *tr) callStmt(c *ast.CallExpr) bool {
	if id, ok := c.Fun.(*ast.Ident); ok && id.Name == "copy" {
		if _, isB := t.objOf(id).(*types.Builtin); isB && len(c.Args) == 2 {
			dst, lo, hi, ok := t.window(c.Args[0])
			if !ok {
				return true
			}
			if k, _ := t.kindOf(c.Args[1]); k != kBytes {
				t.fail(c, "copy from %s", t.typeOf(c.Args[1]))
				return true
			}
			if strings.Contains(" "+t.src(c.Args[1])+" ", dst.Name) && rootIs(t, c.Args[1], dst) {
				t.fail(c, "copy within one variable")
				return true
			}
			t.store(dst, fmt.Sprintf("GoSem.copyInto %s %s %s %s", t.expr(dst), lo, hi, t.expr(c.Args[1])))
			return true
		}
	}
	pkg, recv, name := t.stdCallee(c.Fun)
	if pkg == "encoding/binary" && (recv == "BigEndian" || recv == "LittleEndian") {
		if f, ok := endianFns[name]; ok && f.op == "put" {
			dst, lo, hi, ok := t.window(c.Args[0])
			if !ok {
				return true
			}
			e := "BE"
			if recv == "LittleEndian" {
				e = "LE"
			}
			t.store(dst, fmt.Sprintf("GoSem.put%s %d %s %s %s %s", e, f.w, t.expr(dst), lo, hi, t.expr(c.Args[1])))
			return true
		}
	}
	if pkg == "crypto/subtle" && name == "XORBytes" && len(c.Args) == 3 {
		dst, lo, hi, ok := t.window(c.Args[0])
		if !ok {
			return true
		}
		for _, a := range c.Args[1:] {
			// operands over the destination variable must be exactly the destination (Go panics on inexact overlap)
			if rootIs(t, a, dst) && !sameExpr(t, a, c.Args[0]) {
				t.fail(c, "XORBytes operand %s overlaps the destination inexactly", t.src(a))
				return true
			}
		}
		t.store(dst, fmt.Sprintf("GoSem.xorInto %s %s %s %s %s", t.expr(dst), lo, hi, t.expr(c.Args[1]), t.expr(c.Args[2])))
		return true
	}
	return false
}

func rootIs(t *tr, e ast.Expr, id *ast.Ident) bool {
	for {
		switch x := e.(type) {
		case *ast.Ident:
			return t.objOf(x) == t.objOf(id)
		case *ast.SliceExpr:
			e = x.X
		case *ast.ParenExpr:
			e = x.X
		default:
			return false
		}
	}
}

// ---------- statements ----------

func isPanic(s ast.Stmt) bool {
	if x, ok := s.(*ast.ExprStmt); ok {
		if c, ok := x.X.(*ast.CallExpr); ok {
			if id, ok := c.Fun.(*ast.Ident); ok && id.Name == "panic" {
				return true
			}
		}
	}
	return false
}

func terminates(stmts []ast.Stmt) bool {
	if len(stmts) == 0 {
		return false
	}
	switch x := stmts[len(stmts)-1].(type) {
	case *ast.ReturnStmt:
		return true
	case *ast.ExprStmt:
		return isPanic(x)
	case *ast.BlockStmt:
		return terminates(x.List)
	case *ast.IfStmt:
		if x.Else == nil {
			return false
		}
		if eb, ok := x.Else.(*ast.BlockStmt); ok {
			return terminates(x.Body.List) && terminates(eb.List)
		}
		if ei, ok := x.Else.(*ast.IfStmt); ok {
			return terminates(x.Body.List) && terminates([]ast.Stmt{ei})
		}
	case *ast.SwitchStmt:
		hasDefault := false
		for _, cc := range x.Body.List {
			c := cc.(*ast.CaseClause)
			if c.List == nil {
				hasDefault = true
			}
			if !terminates(c.Body) {
				return false
			}
		}
		return hasDefault
	}
	return false
}

func (t *tr) cloneEnv() map[types.Object]string {
	m := make(map[types.Object]string, len(t.f.env))
	for k, v := range t.f.env {
		m[k] = v
	}
	return m
}

// isNonNilErr: an expression that certainly denotes a non-nil error
func (t *tr) isNonNilErr(e ast.Expr) bool {
	switch x := e.(type) {
	case *ast.CallExpr:
		pkg, _, name := t.stdCallee(x.Fun)
		return (pkg == "fmt" && name == "Errorf") || (pkg == "errors" && name == "New")
	case *ast.Ident:
		obj := t.objOf(x)
		if v, ok := obj.(*types.Var); ok {
			if v.Parent() == t.u.pkg.Scope() {
				k, _ := classify(v.Type())
				return k == kErr && strings.HasPrefix(strings.ToLower(x.Name), "err") // package-level sentinel errors
			}
			return t.f.errVars[obj]
		}
	}
	return false
}

func (t *tr) ret(x *ast.ReturnStmt) string {
	f := t.f
	if len(x.Results) == 0 {
		if f.outs != nil && !f.optional && f.nres == 0 {
			return f.outs()
		}
		return t.fail(x, "bare return")
	}
	res := x.Results
	if f.optional {
		errE := res[len(res)-1]
		res = res[:len(res)-1]
		if id, ok := errE.(*ast.Ident); !ok || id.Name != "nil" {
			if t.isNonNilErr(errE) {
				return "none"
			}
			return t.fail(x, "returned error %s is not known to be nil or non-nil", t.src(errE))
		}
	}
	if len(res) != f.nres {
		return t.fail(x, "return arity")
	}
	var rs []string
	for _, r := range res {
		rs = append(rs, t.expr(r))
	}
	v := strings.Join(rs, ", ")
	if len(rs) != 1 {
		v = "(" + v + ")"
	}
	if f.optional {
		return "some " + v
	}
	return v
}

// errGuard recognises `if err != nil { return …, <non-nil> }` for the given error variable.
func (t *tr) errGuard(s ast.Stmt, errObj types.Object) bool {
	is, ok := s.(*ast.IfStmt)
	if !ok || is.Init != nil || is.Else != nil || len(is.Body.List) != 1 {
		return false
	}
	be, ok := is.Cond.(*ast.BinaryExpr)
	if !ok || be.Op != token.NEQ {
		return false
	}
	a, ok1 := be.X.(*ast.Ident)
	b, ok2 := be.Y.(*ast.Ident)
	if !ok1 || !ok2 || t.objOf(a) != errObj || b.Name != "nil" {
		return false
	}
	r, ok := is.Body.List[0].(*ast.ReturnStmt)
	if !ok || len(r.Results) == 0 || !t.f.optional {
		return false
	}
	last := r.Results[len(r.Results)-1]
	if id, ok := last.(*ast.Ident); ok && t.objOf(id) == errObj {
		return true
	}
	return t.isNonNilErr(last)
}

func ind(n int) string { return strings.Repeat("  ", n) }

// block translates a statement list followed by the continuation k (the value of falling off the end).
func (t *tr) block(stmts []ast.Stmt, depth int, k func() string) string {
	if len(stmts) == 0 {
		return ind(depth) + k()
	}
	s, rest := stmts[0], stmts[1:]
	info := t.u.info
	switch x := s.(type) {
	case *ast.EmptyStmt:
		return t.block(rest, depth, k)
	case *ast.BlockStmt:
		return t.block(append(append([]ast.Stmt{}, x.List...), rest...), depth, k)
	case *ast.DeclStmt:
		gd, ok := x.Decl.(*ast.GenDecl)
		if !ok {
			return t.fail(s, "declaration")
		}
		if gd.Tok == token.CONST {
			return t.block(rest, depth, k)
		}
		if gd.Tok != token.VAR {
			return t.fail(s, "declaration %s", gd.Tok)
		}
		for _, sp := range gd.Specs {
			vs := sp.(*ast.ValueSpec)
			for i, n := range vs.Names {
				ty := info.TypeOf(n)
				if obj := info.Defs[n]; obj != nil {
					ty = obj.Type()
				}
				if len(vs.Values) == len(vs.Names) {
					t.setVar(n, ty, t.expr(vs.Values[i]))
					t.noteAliasAssign(n, vs.Values[i])
					continue
				}
				if len(vs.Values) != 0 {
					return t.fail(s, "var declaration with a tuple initialiser")
				}
				kd, _ := classify(ty)
				switch kd {
				case kBytes:
					if arr, ok := ty.Underlying().(*types.Array); ok {
						t.setVar(n, ty, fmt.Sprintf("GoSem.makeBytes (%d : Int)", arr.Len()))
					} else {
						t.setVar(n, ty, "([] : Bytes)")
					}
				case kByte, kNat, kInt:
					t.setVar(n, ty, "0")
				case kBool:
					t.setVar(n, ty, "false")
				default:
					return t.fail(s, "var of type %s", ty)
				}
			}
		}
		return t.block(rest, depth, k)
	case *ast.IncDecStmt:
		op := token.ADD
		if x.Tok == token.DEC {
			op = token.SUB
		}
		ty := t.typeOf(x.X)
		val := t.binaryStr(x.X, op, "(1 : UInt8)", ty, x)
		return t.assignTo(x.X, ty, val, s, rest, depth, k)
	case *ast.AssignStmt:
		if x.Tok == token.DEFINE || x.Tok == token.ASSIGN {
			if len(x.Lhs) == 2 && len(x.Rhs) == 1 {
				if tup, ok := t.typeOf(x.Rhs[0]).(*types.Tuple); ok && tup.Len() == 2 {
					if ke, _ := classify(tup.At(1).Type()); ke == kErr {
						return t.bindOption(x, tup, rest, depth, k)
					}
				}
			}
			if len(x.Lhs) != len(x.Rhs) {
				return t.fail(s, "tuple assignment")
			}
			vals := make([]string, len(x.Rhs))
			for i := range x.Rhs {
				if id, ok := x.Lhs[i].(*ast.Ident); ok && id.Name == "_" {
					continue
				}
				vals[i] = t.expr(x.Rhs[i])
			}
			if len(x.Lhs) == 1 {
				if id, ok := x.Lhs[0].(*ast.Ident); ok && id.Name != "_" {
					t.noteAliasAssign(id, x.Rhs[0])
				}
				return t.assignTo(x.Lhs[0], t.typeOf(x.Rhs[0]), vals[0], s, rest, depth, k)
			}
			for i := range x.Lhs {
				id, ok := x.Lhs[i].(*ast.Ident)
				if !ok {
					return t.fail(s, "parallel assignment to a non-variable")
				}
				if id.Name == "_" {
					continue
				}
				t.noteAliasAssign(id, x.Rhs[i])
				t.setVar(id, t.typeOf(x.Rhs[i]), vals[i])
			}
			return t.block(rest, depth, k)
		}
		ops := map[token.Token]token.Token{token.XOR_ASSIGN: token.XOR, token.ADD_ASSIGN: token.ADD, token.SUB_ASSIGN: token.SUB,
			token.OR_ASSIGN: token.OR, token.AND_ASSIGN: token.AND, token.MUL_ASSIGN: token.MUL, token.SHL_ASSIGN: token.SHL,
			token.SHR_ASSIGN: token.SHR, token.QUO_ASSIGN: token.QUO, token.REM_ASSIGN: token.REM}
		op, ok := ops[x.Tok]
		if !ok || len(x.Lhs) != 1 || len(x.Rhs) != 1 {
			return t.fail(s, "assignment %s", x.Tok)
		}
		ty := t.typeOf(x.Lhs[0])
		val := t.binary(x.Lhs[0], op, x.Rhs[0], ty, x)
		return t.assignTo(x.Lhs[0], ty, val, s, rest, depth, k)
	case *ast.ExprStmt:
		if isPanic(x) {
			return t.fail(s, "panic")
		}
		if c, ok := x.X.(*ast.CallExpr); ok && t.callStmt(c) {
			return t.block(rest, depth, k)
		}
		return t.fail(s, "expression statement %s", t.src(x.X))
	case *ast.ReturnStmt:
		return ind(depth) + t.ret(x)
	case *ast.IfStmt:
		return t.ifStmt(x, rest, depth, k)
	case *ast.SwitchStmt:
		return t.switchStmt(x, rest, depth, k)
	case *ast.ForStmt:
		return t.forStmt(x, rest, depth, k)
	}
	return t.fail(s, "statement %T", s)
}

func (t *tr) noteAliasAssign(id *ast.Ident, rhs ast.Expr) {
	if k, _ := t.kindOf(rhs); k == kBytes {
		t.noteAlias(id, rhs)
	}
}

// assignTo: target is a variable or an element v[i] of a variable.
func (t *tr) assignTo(lhs ast.Expr, ty types.Type, val string, s ast.Stmt, rest []ast.Stmt, depth int, k func() string) string {
	switch lv := lhs.(type) {
	case *ast.Ident:
		if lv.Name == "_" {
			return t.block(rest, depth, k)
		}
		obj := t.objOf(lv)
		if v, ok := obj.(*types.Var); ok && v.Parent() == t.u.pkg.Scope() {
			return t.fail(s, "assignment to package variable %s", lv.Name)
		}
		// a re-assigned slice variable no longer aliases what it did
		if kd, _ := classify(t.typeOf(lv)); kd == kBytes {
			if as, isAssign := s.(*ast.AssignStmt); isAssign && as.Tok == token.ASSIGN && len(t.f.alias[obj]) > 0 {
				return t.fail(s, "re-assignment of %s, which shares memory with another translated variable", lv.Name)
			}
		}
		vt := t.typeOf(lv)
		if vt == nil {
			vt = ty
		}
		t.setVar(lv, vt, val)
		return t.block(rest, depth, k)
	case *ast.IndexExpr:
		base, ok := lv.X.(*ast.Ident)
		if !ok {
			return t.fail(s, "element store into a non-variable")
		}
		if kd, _ := t.kindOf(base); kd != kBytes {
			return t.fail(s, "element store into %s", t.typeOf(base))
		}
		if _, isStr := t.typeOf(base).Underlying().(*types.Basic); isStr {
			return t.fail(s, "element store into a string")
		}
		t.store(base, fmt.Sprintf("GoSem.setAt %s %s %s", t.expr(base), t.intExpr(lv.Index), val))
		return t.block(rest, depth, k)
	}
	return t.fail(s, "assignment target %s", t.src(lhs))
}

// binaryStr: like binary but the right operand is already a Lean literal (x++ / x--)
func (t *tr) binaryStr(X ast.Expr, op token.Token, lit string, ty types.Type, n ast.Node) string {
	kd, w := classify(ty)
	a := t.expr(X)
	sym := "+"
	if op == token.SUB {
		sym = "-"
	}
	switch kd {
	case kByte:
		return fmt.Sprintf("(%s %s %s)", a, sym, lit)
	case kNat:
		if op == token.ADD {
			return fmt.Sprintf("((%s + 1) %% %s)", a, pow2(w))
		}
		return fmt.Sprintf("((%s + %s - 1) %% %s)", a, pow2(w), pow2(w))
	case kInt:
		return t.wrapS(w, fmt.Sprintf("(%s %s 1)", a, sym), n)
	}
	return t.fail(n, "++/-- on %s", ty)
}

func (t *tr) bindOption(x *ast.AssignStmt, tup *types.Tuple, rest []ast.Stmt, depth int, k func() string) string {
	vid, ok1 := x.Lhs[0].(*ast.Ident)
	eid, ok2 := x.Lhs[1].(*ast.Ident)
	if !ok1 || !ok2 {
		return t.fail(x, "tuple assignment target")
	}
	errObj := t.objOf(eid)
	if len(rest) == 0 || !t.errGuard(rest[0], errObj) {
		return t.fail(x, "a (value, error) result must be followed by `if err != nil { return …, err }`")
	}
	call := t.expr(x.Rhs[0])
	opt := t.define("opt_"+vid.Name, "Option "+t.leanType(tup.At(0).Type()), call)
	f := t.f
	saved := f.binders
	bn := leanName(vid.Name)
	for f.hasBinder(bn) {
		bn += "'"
	}
	f.binders = append(append([]binder{}, f.binders...), binder{bn, t.leanType(tup.At(0).Type())})
	if vid.Name != "_" {
		f.env[t.objOf(vid)] = bn
	}
	body := t.block(rest[1:], depth+1, k)
	f.binders = saved
	return fmt.Sprintf("%s(%s).bind (fun %s =>\n%s)", ind(depth), opt, bn, body)
}

func (t *tr) ifStmt(x *ast.IfStmt, rest []ast.Stmt, depth int, k func() string) string {
	if x.Init != nil {
		return t.fail(x, "if with an init statement")
	}
	c := t.cond(x.Cond)
	var elseList []ast.Stmt
	switch el := x.Else.(type) {
	case nil:
	case *ast.BlockStmt:
		elseList = el.List
	case *ast.IfStmt:
		elseList = []ast.Stmt{el}
	}
	thenT, elseT := terminates(x.Body.List), terminates(elseList)
	pre := t.cloneEnv()
	if !thenT && !elseT {
		// both fall through: translate each, then join the variables they changed
		stop := func() string { return "" }
		t.block(x.Body.List, 0, stop)
		envA := t.f.env
		t.f.env = cloneMap(pre)
		t.block(elseList, 0, stop)
		envB := t.f.env
		t.f.env = cloneMap(pre)
		var objs []types.Object
		for o := range pre {
			if envA[o] != envB[o] {
				objs = append(objs, o)
			}
		}
		sort.Slice(objs, func(i, j int) bool { return objs[i].Pos() < objs[j].Pos() })
		for _, o := range objs {
			t.f.env[o] = t.define(o.Name(), t.leanType(o.Type()), fmt.Sprintf("if %s then %s else %s", c, envA[o], envB[o]))
		}
		return t.block(rest, depth, k)
	}
	thenS := x.Body.List
	if !thenT {
		thenS = append(append([]ast.Stmt{}, thenS...), rest...)
	}
	elseS := elseList
	if !elseT {
		elseS = append(append([]ast.Stmt{}, elseS...), rest...)
	}
	a := t.block(thenS, depth+1, k)
	t.f.env = cloneMap(pre)
	b := t.block(elseS, depth+1, k)
	return fmt.Sprintf("%sif %s then\n%s\n%selse\n%s", ind(depth), c, a, ind(depth), b)
}

func cloneMap(m map[types.Object]string) map[types.Object]string {
	r := make(map[types.Object]string, len(m))
	for k, v := range m {
		r[k] = v
	}
	return r
}

func (t *tr) switchStmt(x *ast.SwitchStmt, rest []ast.Stmt, depth int, k func() string) string {
	if x.Init != nil || x.Tag == nil {
		return t.fail(x, "switch with init or without tag")
	}
	kd, _ := t.kindOf(x.Tag)
	if kd != kInt && kd != kNat && kd != kByte {
		return t.fail(x, "switch on %s", t.typeOf(x.Tag))
	}
	tag := t.expr(x.Tag)
	var def *ast.CaseClause
	var clauses []*ast.CaseClause
	for _, cc := range x.Body.List {
		c := cc.(*ast.CaseClause)
		if !terminates(c.Body) {
			return t.fail(c, "switch clause that falls out of the switch")
		}
		if c.List == nil {
			def = c
		} else {
			clauses = append(clauses, c)
		}
	}
	pre := t.cloneEnv()
	var sb strings.Builder
	for _, c := range clauses {
		var alts []string
		for _, e := range c.List {
			lit, ok := t.constLit(e)
			if !ok {
				return t.fail(e, "non-constant case")
			}
			alts = append(alts, fmt.Sprintf("%s = %s", tag, lit))
		}
		t.f.env = cloneMap(pre)
		body := t.block(c.Body, depth+1, k)
		sb.WriteString(fmt.Sprintf("%sif %s then\n%s\n%selse\n", ind(depth), strings.Join(alts, " ∨ "), body, ind(depth)))
	}
	t.f.env = cloneMap(pre)
	if def != nil {
		sb.WriteString(t.block(def.Body, depth, k))
	} else {
		sb.WriteString(t.block(rest, depth, k))
	}
	return sb.String()
}

// assignedObjs: variables written (assigned, stored into, inc/dec'ed) inside the statements
func (t *tr) assignedObjs(stmts []ast.Stmt) map[types.Object]bool {
	res := map[types.Object]bool{}
	root := func(e ast.Expr) *ast.Ident {
		for {
			switch x := e.(type) {
			case *ast.Ident:
				return x
			case *ast.IndexExpr:
				e = x.X
			case *ast.SliceExpr:
				e = x.X
			case *ast.ParenExpr:
				e = x.X
			default:
				return nil
			}
		}
	}
	mark := func(e ast.Expr) {
		if id := root(e); id != nil {
			if o := t.u.info.Uses[id]; o != nil {
				res[o] = true
			}
		}
	}
	for _, s := range stmts {
		ast.Inspect(s, func(n ast.Node) bool {
			switch x := n.(type) {
			case *ast.AssignStmt:
				for _, l := range x.Lhs {
					mark(l)
				}
			case *ast.IncDecStmt:
				mark(x.X)
			case *ast.CallExpr:
				name := t.src(x.Fun)
				if name == "copy" || strings.Contains(name, ".PutUint") || strings.HasSuffix(name, ".XORBytes") {
					if len(x.Args) > 0 {
						mark(x.Args[0])
					}
				}
			}
			return true
		})
	}
	return res
}

func (t *tr) forStmt(x *ast.ForStmt, rest []ast.Stmt, depth int, k func() string) string {
	// for i := 0; i < N; i++ { body }
	init, ok1 := x.Init.(*ast.AssignStmt)
	cnd, ok2 := x.Cond.(*ast.BinaryExpr)
	post, ok3 := x.Post.(*ast.IncDecStmt)
	if !ok1 || !ok2 || !ok3 || init.Tok != token.DEFINE || len(init.Lhs) != 1 || cnd.Op != token.LSS || post.Tok != token.INC {
		return t.fail(x, "loop is not of the form `for i := 0; i < N; i++`")
	}
	iv, ok := init.Lhs[0].(*ast.Ident)
	if !ok {
		return t.fail(x, "loop variable")
	}
	iobj := t.u.info.Defs[iv]
	if tv := t.u.info.Types[init.Rhs[0]]; tv.Value == nil || tv.Value.ExactString() != "0" {
		return t.fail(x, "loop does not start at 0")
	}
	ci, okc := cnd.X.(*ast.Ident)
	pi, okp := post.X.(*ast.Ident)
	if !okc || !okp || t.objOf(ci) != iobj || t.objOf(pi) != iobj {
		return t.fail(x, "loop condition / post statement do not use the loop variable")
	}
	if kd, w := classify(iobj.Type()); kd != kInt || w != 64 {
		return t.fail(x, "loop variable of type %s", iobj.Type())
	}
	bad := false
	ast.Inspect(x.Body, func(n ast.Node) bool {
		switch n.(type) {
		case *ast.ReturnStmt, *ast.BranchStmt, *ast.GoStmt, *ast.DeferStmt, *ast.FuncLit:
			bad = true
		}
		return true
	})
	if bad {
		return t.fail(x, "loop body with return / break / continue / closure")
	}
	written := t.assignedObjs(x.Body.List)
	if written[iobj] {
		return t.fail(x, "loop variable is modified in the body")
	}
	// the bound must be loop-invariant
	inv := true
	ast.Inspect(cnd.Y, func(n ast.Node) bool {
		if id, ok := n.(*ast.Ident); ok {
			if o := t.u.info.Uses[id]; o != nil && written[o] {
				inv = false
			}
		}
		return true
	})
	if !inv {
		return t.fail(x, "loop bound is modified in the body")
	}
	bound := t.intExpr(cnd.Y)
	var state []types.Object
	for o := range written {
		if _, ok := t.f.env[o]; ok {
			state = append(state, o)
		}
	}
	sort.Slice(state, func(i, j int) bool { return state[i].Pos() < state[j].Pos() })
	if len(state) == 0 {
		return t.block(rest, depth, k)
	}
	var tys, inits []string
	for _, o := range state {
		tys = append(tys, t.leanType(o.Type()))
		inits = append(inits, t.f.env[o])
	}
	sigma := strings.Join(tys, " × ")
	initV := strings.Join(inits, ", ")
	if len(state) > 1 {
		initV = "(" + initV + ")"
	}
	f := t.f
	f.loopN++
	ln := fmt.Sprintf("loop%d", f.loopN)
	sn := fmt.Sprintf("s%d", f.loopN)
	in := leanName(iv.Name)
	for f.hasBinder(in) {
		in += "'"
	}
	savedB, savedEnv, savedName := f.binders, t.cloneEnv(), f.name
	outerArgs := f.args()
	outerDecl := f.binderDecl()
	f.binders = append(append([]binder{}, f.binders...), binder{sn, sigma}, binder{in, "Int"})
	for i, o := range state {
		p := sn
		if len(state) > 1 {
			for j := 0; j < i; j++ {
				p += ".2"
			}
			if i < len(state)-1 {
				p += ".1"
			}
		}
		f.env[o] = p
	}
	f.env[iobj] = in
	f.name = savedName + "." + ln
	body := t.block(x.Body.List, 1, func() string {
		var vs []string
		for _, o := range state {
			vs = append(vs, f.env[o])
		}
		if len(vs) == 1 {
			return vs[0]
		}
		return "(" + strings.Join(vs, ", ") + ")"
	})
	bodyName := savedName + "." + ln + ".body"
	f.aux = append(f.aux, fmt.Sprintf("def %s %s : %s :=\n%s\n", bodyName, f.binderDecl(), sigma, body))
	f.binders, f.env, f.name = savedB, savedEnv, savedName
	loopName := savedName + "." + ln
	f.aux = append(f.aux, fmt.Sprintf("def %s %s : %s :=\n  GoSem.forRange %s %s (fun %s %s => %s %s %s %s)\n", loopName, outerDecl, sigma,
		bound, initV, sn, in, bodyName, outerArgs, sn, in))
	res := loopName
	if outerArgs != "" {
		res = "(" + loopName + " " + outerArgs + ")"
	}
	for i, o := range state {
		p := res
		if len(state) > 1 {
			for j := 0; j < i; j++ {
				p += ".2"
			}
			if i < len(state)-1 {
				p += ".1"
			}
		}
		f.env[o] = t.define(o.Name(), t.leanType(o.Type()), p)
	}
	return t.block(rest, depth, k)
}
