//go:build verif

package main

// shortrs.go — genuine ECDSA signatures whose s has a chosen number of leading zero bytes.
//
// Random signing never produces an s (or r) with more than one or two leading zero bytes, so the length-dependent
// branches of the signature codecs (DER long-form length at a 128-byte SEQUENCE body, which only P-521 can reach and
// only when r and s together lose about eight bytes; minimal-integer padding; the P1363 → DER conversion done on every
// IEEE_P1363 verification) are not exercised by fresh signatures.  Here the signature is chosen first and the key is
// derived from it: R = kG, r = R.x mod n, s = any value of the wanted byte length, Q = r⁻¹(sR − zG).  (r, s) is then a
// genuine signature of the message under Q, and every strict verifier of the standard accepts it.  The lines are
// property-level: the Lean reference verifier decides them independently; stdlib crypto/ecdsa is asked too, so that an
// arithmetic slip in this file shows as a harness error instead of an alarm.

import (
	stdecdsa "crypto/ecdsa"
	"crypto/sha256"
	"crypto/sha512"
	"fmt"
	"math/big"

	"github.com/tink-crypto/tink-go/v2/internal/verifharness/hlib"
	"github.com/tink-crypto/tink-go/v2/signature/ecdsa"
)

func hashFor(hi hashInfo, m []byte) []byte {
	switch hi.name {
	case "SHA256":
		x := sha256.Sum256(m)
		return x[:]
	case "SHA384":
		x := sha512.Sum384(m)
		return x[:]
	}
	x := sha512.Sum512(m)
	return x[:]
}

// hashToInt of ECDSA (FIPS 186-5 §6.4.1): the leftmost min(bitlen(n), 8·len(h)) bits.
func hashToInt(h []byte, n *big.Int) *big.Int {
	ob := n.BitLen()
	ol := (ob + 7) / 8
	if len(h) > ol {
		h = h[:ol]
	}
	z := new(big.Int).SetBytes(h)
	if ex := len(h)*8 - ob; ex > 0 {
		z.Rsh(z, uint(ex))
	}
	return z
}

func (h *harness) ecShortRS() {
	o, rng := h.o, h.rng
	for _, pr := range ecPairs {
		ci, hi := curves[pr[0]], hashes[pr[1]]
		n := ci.c.Params().N
		var zs []int
		if hlib.Thorough() {
			for z := 0; z < ci.size; z++ {
				zs = append(zs, z)
			}
		} else {
			zs = []int{0, 1, 2, 3, 4, 5, 6, 7, 8, 9, 10, 12, 16, ci.size / 2, ci.size - 2, ci.size - 1}
		}
		if ci.size == 66 {
			// entries ≥ 1000: the DER SEQUENCE body is to be exactly entry−1000 bytes (around the long-form boundary 128)
			zs = append(zs, 1126, 1127, 1128, 1129, 1130)
		}
		for enc := 0; enc < 2; enc++ {
			for _, vi := range []int{3, 0, 2} {
				if vi != 3 && !hlib.Thorough() && enc == 0 {
					continue // quick tier: prefixed variants with the P1363 encoding only
				}
				o.Case()
				for _, z0 := range zs {
					msg := rng.Bytes(rng.MsgLen(100))
					hashed := msg
					if vi == 2 {
						hashed = cat(msg, []byte{0})
					}
					z := hashToInt(hashFor(hi, hashed), n)
					// R = kG
					k := new(big.Int).SetBytes(ecScalar(rng, ci))
					rx, ry := ci.c.ScalarBaseMult(k.Bytes())
					r := new(big.Int).Mod(rx, n)
					if r.Sign() == 0 {
						continue
					}
					// s with exactly z0 leading zero bytes; the top bit of its first byte is drawn (DER padding or not)
					sb := rng.Bytes(ci.size)
					if z0 >= 1000 {
						c := z0 - 1000 - len(derInt(r)) - 2 // content bytes of INTEGER s, no padding byte
						if c < 1 || c > ci.size-1 {
							continue // r itself is unusually short: the target is out of reach for this draw
						}
						z0 = ci.size - c
						sb[z0] = sb[z0]&0x7f | 1
					}
					for i := 0; i < z0; i++ {
						sb[i] = 0
					}
					if sb[z0] == 0 {
						sb[z0] = 1
					}
					if z0 == 0 && ci.size == 66 {
						sb[0] = 1
						sb[1] &= 0x7f // below n = 2^521 − …
					}
					s := new(big.Int).SetBytes(sb)
					if s.Cmp(n) >= 0 {
						s.Rsh(s, 1)
					}
					// Q = r⁻¹ (sR − zG)
					ax, ay := ci.c.ScalarMult(rx, ry, s.Bytes())
					bx, by := ci.c.ScalarBaseMult(z.Bytes())
					var qx, qy *big.Int
					if z.Sign() == 0 {
						qx, qy = ax, ay
					} else {
						by = new(big.Int).Sub(ci.c.Params().P, by)
						qx, qy = ci.c.Add(ax, ay, bx, by)
					}
					rinv := new(big.Int).ModInverse(r, n)
					qx, qy = ci.c.ScalarMult(qx, qy, rinv.Bytes())
					if qx.Sign() == 0 && qy.Sign() == 0 {
						continue
					}
					if !stdecdsa.Verify(&stdecdsa.PublicKey{Curve: ci.c, X: qx, Y: qy}, hashFor(hi, hashed), r, s) {
						o.Count("shortrs/harness-arithmetic-error")
						continue
					}
					point := cat([]byte{4}, qx.FillBytes(make([]byte, ci.size)), qy.FillBytes(make([]byte, ci.size)))
					id := keyID(rng, vi)
					ps, err := ecdsa.NewParameters(ci.ct, hi.eh, encTypes[enc], ecVariants[vi])
					if err != nil {
						panic(err)
					}
					pub, err := ecdsa.NewPublicKey(point, id, ps)
					if err != nil {
						o.Violate("NewPublicKey refuses a point on the curve (%s): %v", ci.name, err)
						continue
					}
					v := &view{
						cat:  fmt.Sprintf("ecdsa-shortrs/%s/%s/%s/%s", ci.name, hi.name, encNames[enc], vcodes[vi]),
						line: ecLine(ci, hi, enc, vi, id, point),
						ver:  verifierOf(pub),
						pre:  prefixOf(vi, id),
					}
					var raw []byte
					if enc == 0 {
						raw = derSig(r, s)
					} else {
						raw = p1363(r, s, ci.size)
					}
					sig := cat(v.pre, raw)
					o.Count(fmt.Sprintf("shortrs/%s/der-body-%d", ci.name, len(derInt(r))+len(derInt(s))))
					if e := v.ver.Verify(sig, msg); e != nil {
						o.Violate("Verify rejects a genuine signature whose s has %d leading zero bytes (%s; DER body %d bytes): %v  %s",
							z0, v.cat, len(derInt(r))+len(derInt(s)), e, v.line(msg, sig))
					}
					cs := []tcase{{kind: "shortrs/genuine", v: v, msg: msg, sig: sig, sameSig: true}}
					// the same (r, s) in the other encoding must be refused by this key
					if enc == 0 {
						cs = append(cs, tcase{kind: "shortrs/p1363-to-der-key", v: v, msg: msg, sig: cat(v.pre, p1363(r, s, ci.size))})
					} else {
						cs = append(cs, tcase{kind: "shortrs/der-to-p1363-key", v: v, msg: msg, sig: cat(v.pre, derSig(r, s))})
						// P1363 with the leading zero bytes of s dropped: wrong length
						cs = append(cs, tcase{kind: "shortrs/p1363-s-unpadded", v: v, msg: msg, sig: cat(v.pre, r.FillBytes(make([]byte, ci.size)), s.Bytes())})
					}
					h.judge(sig, cs)
				}
			}
		}
	}
}
