//go:build verif

// RSA moduli whose bit length is not a multiple of 8 (2049, 2050, 2052, 2055, 2057, …; the parameters only demand
// ≥ 2048): everything the harness does for the 2048/3072-bit keys (rsaOne: every PKCS1 hash × variant, PSS hash ×
// salt × variant, mutation streams, integer-level variations, other key / hash / scheme) plus signatures made by
// crypto/rsa itself (SignPKCS1v15 / SignPSS over the harness's own digest), which the Tink verifiers must accept even
// when the private key cannot be built. Signature length = ⌈bits/8⌉; for 8k+1 bits the PSS encoded message is one
// byte shorter than the modulus (emLen = ⌈(bits−1)/8⌉) and about half of all signatures start with a 00 byte.
package main

import (
	"crypto"
	"crypto/rand"
	"crypto/rsa"
	_ "crypto/sha256"
	_ "crypto/sha512"
	"fmt"

	isig "github.com/tink-crypto/tink-go/v2/internal/signature"
	"github.com/tink-crypto/tink-go/v2/internal/verifharness/hlib"
	"github.com/tink-crypto/tink-go/v2/tink"
)

func newP1Internal(hi hashInfo, m *rsaMat) (tink.Signer, tink.Verifier) {
	s, err := isig.New_RSA_SSA_PKCS1_Signer(hi.name, m.k)
	if err != nil {
		panic(err)
	}
	ver, err := isig.New_RSA_SSA_PKCS1_Verifier(hi.name, &m.k.PublicKey)
	if err != nil {
		panic(err)
	}
	return s, ver
}

var stdHash = map[string]crypto.Hash{"SHA256": crypto.SHA256, "SHA384": crypto.SHA384, "SHA512": crypto.SHA512}

func digestOf(hi hashInfo, msg []byte) []byte {
	hh := stdHash[hi.name].New()
	hh.Write(msg)
	return hh.Sum(nil)
}

// signedMsg: what the raw scheme signs for a variant (LEGACY appends a zero byte).
func signedMsg(vi int, msg []byte) []byte {
	if vi == 2 {
		return cat(msg, []byte{0})
	}
	return msg
}

// rsaStdlib: signatures made by crypto/rsa directly (no Tink signer involved) presented to the Tink verifiers of the
// public key alone.
func (h *harness) rsaStdlib(m *rsaMat, idx int) {
	o, rng := h.o, h.rng
	n := m.k.N.Bytes()
	k := (m.bits + 7) / 8
	for hx, hi := range hashes {
		for vi := 0; vi < 4; vi++ {
			if h.lite && (hx+vi+idx)%3 != 0 { // quick: 4 of the 12 (hash, variant) pairs per modulus, all over the sizes
				continue
			}
			o.Case()
			id := keyID(rng, vi)
			msg := rng.Bytes(rng.MsgLen(200))
			// PKCS1
			_, v := p1View(m.bits, hi, vi, id, n)
			raw, err := rsa.SignPKCS1v15(nil, m.k, stdHash[hi.name], digestOf(hi, signedMsg(vi, msg)))
			if err != nil {
				panic(err)
			}
			if len(raw) != k {
				panic(fmt.Sprintf("crypto/rsa signature of %d bytes for a %d-bit modulus", len(raw), m.bits))
			}
			sig := cat(v.pre, raw)
			e := v.ver.Verify(sig, msg)
			if e != nil {
				o.Violate("a PKCS1 v1.5 signature made by crypto/rsa for the %d-bit key is rejected by the Tink verifier (%s): %v", m.bits, v.cat, e)
			}
			o.Count("stdlib-signature/" + v.cat)
			o.Emit(v.line(msg, sig), hlib.B01(e == nil), true)
			cs := h.generic(v, vi, msg, sig, 2)
			cs = append(cs, h.rsaExtras(v, m, msg, sig)...)
			h.checkMsgOracle(cs, msg)
			h.judge(sig, cs)
			// PSS
			salt := []int{20, 32, 48, 64, 1}[(hx+vi+idx)%5]
			_, vp := psView(m.bits, hi, salt, vi, id, n)
			raw, err = rsa.SignPSS(rand.Reader, m.k, stdHash[hi.name], digestOf(hi, signedMsg(vi, msg)), &rsa.PSSOptions{SaltLength: salt, Hash: stdHash[hi.name]})
			if err != nil {
				panic(err)
			}
			sig = cat(vp.pre, raw)
			e = vp.ver.Verify(sig, msg)
			if e != nil {
				o.Violate("a PSS signature (salt %d) made by crypto/rsa for the %d-bit key is rejected by the Tink verifier (%s): %v", salt, m.bits, vp.cat, e)
			}
			o.Count("stdlib-signature/" + vp.cat)
			o.Emit(vp.line(msg, sig), hlib.B01(e == nil), true)
			cs = h.generic(vp, vi, msg, sig, 2)
			cs = append(cs, h.rsaExtras(vp, m, msg, sig)...)
			h.checkMsgOracle(cs, msg)
			h.judge(sig, cs)
		}
	}
}

func (h *harness) rsaSizes() []*rsaMat {
	o := h.o
	sizes := []int{2049, 2050, 2052, 2055, 2057}
	if hlib.Thorough() {
		sizes = append(sizes, 2051, 2060, 2063, 2100, 3073, 3079, 4095)
	}
	h.lite = !hlib.Thorough()
	defer func() { h.lite = false }()
	var mats []*rsaMat
	allSalts := []int{20, 32, 48, 64}
	for idx, bits := range sizes {
		m := newRSA(bits)
		mats = append(mats, m)
		o.Count(fmt.Sprintf("rsa-size/%d", bits))
		h.rsaStdlib(m, idx)
		salts := allSalts
		if h.lite {
			salts = []int{allSalts[idx%4], allSalts[(idx+2)%4]}
		}
		// the private key objects are built inside (NewPrivateKey signs and verifies as a self-check): a refusal is a
		// finding of its own, the verification-only part above has then already produced the concrete lines
		if p := hlib.Recover(func() { h.rsaOne(m, salts) }); p != "" {
			o.Violate("a valid %d-bit RSA key cannot be used (construction or signing failed): %s", bits, p)
			continue
		}
		if p := hlib.Recover(func() {
			hi := hashes[idx%3]
			h.pssInternal(m, hi, allSalts[idx%4])
			h.p1Internal(m, hi)
		}); p != "" {
			o.Violate("internal/signature refuses a valid %d-bit RSA key: %s", bits, p)
		}
	}
	return mats
}

// p1Internal: the raw internal/signature PKCS1 signer / verifier for one modulus and hash.
func (h *harness) p1Internal(m *rsaMat, hi hashInfo) {
	s, ver := newP1Internal(hi, m)
	v := &view{cat: fmt.Sprintf("pkcs1-internal/%d/%s", m.bits, hi.name), ver: ver, pre: []byte{}, line: func(msg, sig []byte) string {
		return fmt.Sprintf("!G pkcs1 %s R 0 %s 010001 %s %s", hi.name, m.nTok, hlib.Tok(msg), hlib.Tok(sig))
	}}
	h.o.Case()
	msg := h.rng.Bytes(h.rng.MsgLen(300))
	h.signAndJudge(s, v, 3, msg, 3, func(sig []byte) []tcase { return h.rsaExtras(v, m, msg, sig) })
}

// rsaSizesSaltZero: the salt-length-0 PSS keys (known finding, see pssSaltZero) for the odd moduli; last section.
func (h *harness) rsaSizesSaltZero(mats []*rsaMat) {
	h.lite = true
	defer func() { h.lite = false }()
	for idx, m := range mats {
		if p := hlib.Recover(func() {
			h.pssConfig(m, hashes[idx%3], 0, idx%4, []int{20, 32, 48, 64})
			h.pssConfig(m, hashes[(idx+1)%3], []int{20, 32, 48, 64}[idx%4], (idx+1)%4, []int{0})
		}); p != "" {
			h.o.Violate("a valid %d-bit RSA-SSA-PSS key cannot be used: %s", m.bits, p)
		}
	}
}
