//go:build verif

// Harness c03: ECDSA / Ed25519 / RSA-SSA-PKCS1 / RSA-SSA-PSS of tink-go against the independent
// strict verifier in Lean (property C03).
//
// Go signs (keyset handle + signature.NewSigner, signature/subtle, internal/signature); every
// (key, message, signature) triple and a stream of mutations of it is then judged by Go's verifier
// (signature.NewVerifier on handle.Public(), subtle verifiers) and by the reference; the two verdicts
// must agree on every line. Go-side oracles: Sign's output verifies; no byte-different signature is
// accepted except the documented ECDSA (r, n-s) twin; no other message is accepted.
package main

import (
	"bufio"
	"bytes"
	"crypto/ed25519"
	"crypto/elliptic"
	"crypto/rand"
	"crypto/rsa"
	"fmt"
	"math/big"
	"os"
	"runtime"
	"strconv"
	"strings"

	"github.com/tink-crypto/tink-go/v2/internal/internalapi"
	isig "github.com/tink-crypto/tink-go/v2/internal/signature"
	iecdsa "github.com/tink-crypto/tink-go/v2/internal/signature/ecdsa"
	"github.com/tink-crypto/tink-go/v2/internal/verifharness/hlib"
	"github.com/tink-crypto/tink-go/v2/key"
	"github.com/tink-crypto/tink-go/v2/signature"
	"github.com/tink-crypto/tink-go/v2/signature/ecdsa"
	edkey "github.com/tink-crypto/tink-go/v2/signature/ed25519"
	"github.com/tink-crypto/tink-go/v2/signature/rsassapkcs1"
	"github.com/tink-crypto/tink-go/v2/signature/rsassapss"
	"github.com/tink-crypto/tink-go/v2/signature/subtle"
	"github.com/tink-crypto/tink-go/v2/tink"
)

// ---------- deterministic crypto/rand ----------

// detRand serves crypto/rand from seeded streams. The standard library calls
// randutil.MaybeReadByte (a 1-byte read with probability 1/2) to defeat exactly this; those reads
// (recognised by their caller) are answered from a separate stream so that the main stream does not
// shift. Every other read, also a genuine 1-byte one (a PSS salt of length 1), comes from the main stream.
type detRand struct{ main, single *hlib.Rng }

func maybeReadByteCall() bool {
	var pcs [8]uintptr
	n := runtime.Callers(2, pcs[:])
	fr := runtime.CallersFrames(pcs[:n])
	for i := 0; i < 6; i++ {
		f, more := fr.Next()
		if strings.HasSuffix(f.Function, "randutil.MaybeReadByte") {
			return true
		}
		if !more {
			break
		}
	}
	return false
}

func (d *detRand) Read(p []byte) (int, error) {
	if len(p) == 1 && maybeReadByteCall() {
		p[0] = byte(d.single.U64())
		return 1, nil
	}
	copy(p, d.main.Bytes(len(p)))
	return len(p), nil
}

// ---------- views: one public key under one variant, as Go verifier and as model line ----------

type view struct {
	cat  string                       // histogram category
	line func(msg, sig []byte) string // the reference's verification line
	ver  tink.Verifier
	pre  []byte // expected output prefix (computed by the harness from variant and id)
}

type tcase struct {
	kind      string
	v         *view
	msg, sig  []byte
	malleable bool // an accepted byte-different signature is documented behaviour ((r, n-s))
	sameSig   bool // the signature bytes are the genuine ones (other key / other message cases)
}

var vcodes = hlib.VariantCodes // T C L R

func prefixOf(vi int, id uint32) []byte {
	switch vi {
	case 0:
		return []byte{1, byte(id >> 24), byte(id >> 16), byte(id >> 8), byte(id)}
	case 1, 2:
		return []byte{0, byte(id >> 24), byte(id >> 16), byte(id >> 8), byte(id)}
	}
	return []byte{}
}

func keyID(rng *hlib.Rng, vi int) uint32 {
	if vi == 3 {
		return 0
	}
	return rng.KeyID()
}

// both judges with the verifier obtained from the keyset (signature.NewVerifier: prefix map +
// key-level primitive) and with the key type's own full primitive (NewVerifier(publicKey, token));
// the keyset verdict is the one compared with the reference, a disagreement of the two is reported.
type both struct {
	factory, direct tink.Verifier
}

var gOut *hlib.Out

func (b *both) Verify(sig, msg []byte) error {
	e1 := b.factory.Verify(sig, msg)
	e2 := b.direct.Verify(sig, msg)
	if (e1 == nil) != (e2 == nil) {
		gOut.Violate("signature.NewVerifier(handle) and the key's own verifier disagree (keyset: %v, direct: %v) on sig=%s... (%d bytes) msg=%s... (%d bytes)", e1, e2, hlib.Tok(sig[:min(len(sig), 40)]), len(sig), hlib.Tok(msg[:min(len(msg), 24)]), len(msg))
	}
	return e1
}

// alternating signer: keyset path, then the key type's own full primitive
type altSigner struct {
	factory, direct tink.Signer
	n               int
}

func (a *altSigner) Sign(msg []byte) ([]byte, error) {
	a.n++
	if a.n%2 == 1 {
		gOut.Count("signer/keyset")
		return a.factory.Sign(msg)
	}
	gOut.Count("signer/direct")
	return a.direct.Sign(msg)
}

func directVerifier(pub key.Key) tink.Verifier {
	var v tink.Verifier
	var err error
	switch k := pub.(type) {
	case *ecdsa.PublicKey:
		v, err = ecdsa.NewVerifier(k, internalapi.Token{})
	case *edkey.PublicKey:
		v, err = edkey.NewVerifier(k, internalapi.Token{})
	case *rsassapkcs1.PublicKey:
		v, err = rsassapkcs1.NewVerifier(k, internalapi.Token{})
	case *rsassapss.PublicKey:
		v, err = rsassapss.NewVerifier(k, internalapi.Token{})
	default:
		panic(fmt.Sprintf("no direct verifier for %T", pub))
	}
	if err != nil {
		panic(err)
	}
	return v
}

func directSigner(priv key.Key) tink.Signer {
	var s tink.Signer
	var err error
	switch k := priv.(type) {
	case *ecdsa.PrivateKey:
		s, err = ecdsa.NewSigner(k, internalapi.Token{})
	case *edkey.PrivateKey:
		s, err = edkey.NewSigner(k, internalapi.Token{})
	case *rsassapkcs1.PrivateKey:
		s, err = rsassapkcs1.NewSigner(k, internalapi.Token{})
	case *rsassapss.PrivateKey:
		s, err = rsassapss.NewSigner(k, internalapi.Token{})
	default:
		panic(fmt.Sprintf("no direct signer for %T", priv))
	}
	if err != nil {
		panic(err)
	}
	return s
}

// primitives builds signer and verifier through the keyset path (and the direct ones beside them).
func primitives(priv key.Key) (tink.Signer, tink.Verifier) {
	kh, err := hlib.HandleOf(priv)
	if err != nil {
		panic(err)
	}
	s, err := signature.NewSigner(kh)
	if err != nil {
		panic(err)
	}
	pub, err := kh.Public()
	if err != nil {
		panic(err)
	}
	v, err := signature.NewVerifier(pub)
	if err != nil {
		panic(err)
	}
	pk, err := priv.(interface{ PublicKey() (key.Key, error) }).PublicKey()
	if err != nil {
		panic(err)
	}
	return &altSigner{factory: s, direct: directSigner(priv)}, &both{v, directVerifier(pk)}
}

func verifierOf(pub key.Key) tink.Verifier {
	kh, err := hlib.HandleOf(pub)
	if err != nil {
		panic(err)
	}
	v, err := signature.NewVerifier(kh)
	if err != nil {
		panic(err)
	}
	return &both{v, directVerifier(pub)}
}

type harness struct {
	o   *hlib.Out
	rng *hlib.Rng
	// lite (rsasizes.go): one message per key configuration instead of hlib.N(2, 8..10)
	lite bool
}

// nMsg: messages per key configuration.
func (h *harness) nMsg(quick, thorough int) int {
	if h.lite {
		return 1
	}
	return hlib.N(quick, thorough)
}

func clone(b []byte) []byte { return append([]byte(nil), b...) }

func cat(bs ...[]byte) []byte {
	var out []byte
	for _, b := range bs {
		out = append(out, b...)
	}
	return out
}

// judge runs the cases through Go and emits the reference lines with Go's verdicts.
func (h *harness) judge(genuine []byte, cases []tcase) {
	o := h.o
	for _, c := range cases {
		var e error
		if p := hlib.Recover(func() { e = c.v.ver.Verify(c.sig, c.msg) }); p != "" {
			o.Violate("Verify panics on a %s case (%s): %s", c.kind, c.v.cat, p)
			e = fmt.Errorf("panic")
		}
		verdict := "reject"
		if e == nil {
			verdict = "accept"
			if !c.sameSig && !c.malleable && !bytes.Equal(c.sig, genuine) {
				o.Violate("Verify accepted a %s-mutated signature that differs from the genuine one (%s): %s", c.kind, c.v.cat, c.v.line(c.msg, c.sig))
			}
		}
		o.Count("mut/" + c.kind + "/" + verdict)
		o.Emit(c.v.line(c.msg, c.sig), hlib.B01(e == nil), true)
	}
}

// generic mutation stream: random edits, prefix games, message changes.
func (h *harness) generic(v *view, vi int, msg, sig []byte, nRandom int) []tcase {
	rng := h.rng
	var cs []tcase
	for _, m := range rng.Mutations(sig, nRandom) {
		cs = append(cs, tcase{kind: m.Kind, v: v, msg: msg, sig: m.Data})
	}
	pl := len(v.pre)
	if pl > 0 {
		c := clone(sig)
		c[0] ^= 1 // TINK <-> CRUNCHY/LEGACY start byte
		cs = append(cs, tcase{kind: "prefix/other-variant", v: v, msg: msg, sig: c})
		c = clone(sig)
		c[1+rng.Intn(4)] ^= 1 << uint(rng.Intn(8))
		cs = append(cs, tcase{kind: "prefix/other-id", v: v, msg: msg, sig: c})
		cs = append(cs, tcase{kind: "prefix/missing", v: v, msg: msg, sig: clone(sig[pl:])})
		cs = append(cs, tcase{kind: "prefix/only", v: v, msg: msg, sig: clone(sig[:pl])})
		cs = append(cs, tcase{kind: "prefix/doubled", v: v, msg: msg, sig: cat(sig[:pl], sig)})
	} else {
		id := rng.KeyID()
		cs = append(cs, tcase{kind: "prefix/added-tink", v: v, msg: msg, sig: cat(prefixOf(0, id), sig)})
		cs = append(cs, tcase{kind: "prefix/added-crunchy", v: v, msg: msg, sig: cat(prefixOf(1, id), sig)})
	}
	cs = append(cs, tcase{kind: "empty", v: v, msg: msg, sig: []byte{}})
	body := clone(sig)
	body[pl+rng.Intn(len(sig)-pl)] ^= 1 << uint(rng.Intn(8))
	cs = append(cs, tcase{kind: "body-bit", v: v, msg: msg, sig: body})
	// message
	m2 := clone(msg)
	if len(m2) == 0 {
		m2 = []byte{byte(rng.Intn(256))}
	} else {
		m2[rng.Intn(len(m2))] ^= 1 << uint(rng.Intn(8))
	}
	cs = append(cs, tcase{kind: "message/bit", v: v, msg: m2, sig: sig, sameSig: true})
	cs = append(cs, tcase{kind: "message/append-00", v: v, msg: cat(msg, []byte{0}), sig: sig, sameSig: true})
	if len(msg) > 0 {
		cs = append(cs, tcase{kind: "message/drop-last", v: v, msg: clone(msg[:len(msg)-1]), sig: sig, sameSig: true})
	}
	_ = vi
	return cs
}

func (h *harness) checkMsgOracle(cases []tcase, genuineMsg []byte) {
	for _, c := range cases {
		if c.sameSig && c.v != nil && !bytes.Equal(c.msg, genuineMsg) {
			if e := c.v.ver.Verify(c.sig, c.msg); e == nil {
				h.o.Violate("Verify accepted the signature for another message (%s, %s): %s", c.kind, c.v.cat, c.v.line(c.msg, c.sig))
			}
		}
	}
}

// signAndJudge: sign msg, Go-verify, emit the genuine line, then the mutation stream.
func (h *harness) signAndJudge(s tink.Signer, v *view, vi int, msg []byte, nRandom int, extras func(sig []byte) []tcase) []byte {
	o := h.o
	sig, err := s.Sign(msg)
	if err != nil {
		o.Violate("Sign failed (%s): %v", v.cat, err)
		return nil
	}
	if !bytes.HasPrefix(sig, v.pre) {
		o.Violate("Sign's output does not start with the key's output prefix %x (%s)", v.pre, v.cat)
	}
	e := v.ver.Verify(sig, msg)
	if e != nil {
		o.Violate("Sign's output does not verify under the key's own verifier (%s): %v", v.cat, e)
	}
	o.Count("genuine/" + v.cat)
	o.Emit(v.line(msg, sig), hlib.B01(e == nil), true)
	cs := h.generic(v, vi, msg, sig, nRandom)
	if extras != nil {
		cs = append(cs, extras(sig)...)
	}
	h.checkMsgOracle(cs, msg)
	h.judge(sig, cs)
	return sig
}

// ---------- ECDSA ----------

type curveInfo struct {
	name, subtleName string
	ct               ecdsa.CurveType
	c                elliptic.Curve
	size             int
}

var curves = []curveInfo{
	{"P256", "NIST_P256", ecdsa.NistP256, elliptic.P256(), 32},
	{"P384", "NIST_P384", ecdsa.NistP384, elliptic.P384(), 48},
	{"P521", "NIST_P521", ecdsa.NistP521, elliptic.P521(), 66},
}

type hashInfo struct {
	name string
	eh   ecdsa.HashType
	p1   rsassapkcs1.HashType
	ps   rsassapss.HashType
	dl   int
}

var hashes = []hashInfo{
	{"SHA256", ecdsa.SHA256, rsassapkcs1.SHA256, rsassapss.SHA256, 32},
	{"SHA384", ecdsa.SHA384, rsassapkcs1.SHA384, rsassapss.SHA384, 48},
	{"SHA512", ecdsa.SHA512, rsassapkcs1.SHA512, rsassapss.SHA512, 64},
}

// admissible (curve, hash) pairs of signature/ecdsa/parameters validation
var ecPairs = [][2]int{{0, 0}, {1, 1}, {1, 2}, {2, 2}}

var ecVariants = []ecdsa.Variant{ecdsa.VariantTink, ecdsa.VariantCrunchy, ecdsa.VariantLegacy, ecdsa.VariantNoPrefix}
var encNames = []string{"DER", "P1363"}
var encTypes = []ecdsa.SignatureEncoding{ecdsa.DER, ecdsa.IEEEP1363}

func ecScalar(rng *hlib.Rng, ci curveInfo) []byte {
	for {
		d := rng.Bytes(ci.size)
		if ci.size == 66 {
			d[0] &= 1
		}
		x := new(big.Int).SetBytes(d)
		if x.Sign() > 0 && x.Cmp(ci.c.Params().N) < 0 {
			return d
		}
	}
}

func ecLine(ci curveInfo, hi hashInfo, enc int, vi int, id uint32, point []byte) func(msg, sig []byte) string {
	xy := point[1:]
	qx, qy := hlib.Tok(xy[:len(xy)/2]), hlib.Tok(xy[len(xy)/2:])
	return func(msg, sig []byte) string {
		return fmt.Sprintf("!G ecdsa %s %s %s %s %d %s %s %s %s", ci.name, hi.name, encNames[enc], vcodes[vi], id, qx, qy, hlib.Tok(msg), hlib.Tok(sig))
	}
}

// ecKey builds the tink key objects for one scalar under one configuration.
func ecKey(ci curveInfo, hi hashInfo, enc, vi int, id uint32, d []byte) (*ecdsa.PrivateKey, *view) {
	ps, err := ecdsa.NewParameters(ci.ct, hi.eh, encTypes[enc], ecVariants[vi])
	if err != nil {
		panic(err)
	}
	priv, err := ecdsa.NewPrivateKey(hlib.Secret(d), id, ps)
	if err != nil {
		panic(err)
	}
	pubK, _ := priv.PublicKey()
	pub := pubK.(*ecdsa.PublicKey)
	v := &view{
		cat:  fmt.Sprintf("ecdsa/%s/%s/%s/%s", ci.name, hi.name, encNames[enc], vcodes[vi]),
		line: ecLine(ci, hi, enc, vi, id, pub.PublicPoint()),
		ver:  verifierOf(pub),
		pre:  prefixOf(vi, id),
	}
	return priv, v
}

// minimal DER, written here independently of the library
func derLen(n int) []byte {
	switch {
	case n < 128:
		return []byte{byte(n)}
	case n < 256:
		return []byte{0x81, byte(n)}
	}
	return []byte{0x82, byte(n >> 8), byte(n)}
}

func derIntContent(x *big.Int) []byte {
	b := x.Bytes()
	if len(b) == 0 {
		return []byte{0}
	}
	if b[0]&0x80 != 0 {
		return append([]byte{0}, b...)
	}
	return b
}

func tlv(tag byte, content []byte) []byte { return cat([]byte{tag}, derLen(len(content)), content) }
func derInt(x *big.Int) []byte            { return tlv(2, derIntContent(x)) }
func derSig(r, s *big.Int) []byte         { return tlv(0x30, cat(derInt(r), derInt(s))) }

// nonMinimalLen gives a long-form length where a shorter form exists.
func nonMinimalLen(n int) []byte {
	if n < 128 {
		return []byte{0x81, byte(n)}
	}
	if n < 256 {
		return []byte{0x82, 0, byte(n)}
	}
	return []byte{0x83, 0, byte(n >> 8), byte(n)}
}

func p1363(r, s *big.Int, size int) []byte {
	out := make([]byte, 2*size)
	rb, sb := r.Bytes(), s.Bytes()
	if len(rb) > size || len(sb) > size {
		return nil
	}
	copy(out[size-len(rb):], rb)
	copy(out[2*size-len(sb):], sb)
	return out
}

// parse what Go produced (the harness' own reader; only used on genuine signatures)
func parseGenuine(enc int, raw []byte, size int) (r, s *big.Int, ok bool) {
	if enc == 1 {
		if len(raw) != 2*size {
			return nil, nil, false
		}
		return new(big.Int).SetBytes(raw[:size]), new(big.Int).SetBytes(raw[size:]), true
	}
	rd := func(b []byte) (content, rest []byte, ok bool) {
		if len(b) < 2 {
			return nil, nil, false
		}
		l, off := int(b[1]), 2
		if b[1] == 0x81 && len(b) >= 3 {
			l, off = int(b[2]), 3
		} else if b[1] >= 0x80 {
			return nil, nil, false
		}
		if len(b) < off+l {
			return nil, nil, false
		}
		return b[off : off+l], b[off+l:], true
	}
	if len(raw) == 0 || raw[0] != 0x30 {
		return nil, nil, false
	}
	body, rest, ok := rd(raw)
	if !ok || len(rest) != 0 || len(body) == 0 || body[0] != 2 {
		return nil, nil, false
	}
	rc, rest, ok := rd(body)
	if !ok || len(rest) == 0 || rest[0] != 2 {
		return nil, nil, false
	}
	sc, rest, ok := rd(rest)
	if !ok || len(rest) != 0 {
		return nil, nil, false
	}
	return new(big.Int).SetBytes(rc), new(big.Int).SetBytes(sc), true
}

// ecExtras: value-level and encoding-level variations of a genuine (r, s).
func (h *harness) ecExtras(v *view, ci curveInfo, enc int, msg, sig []byte) []tcase {
	o, rng := h.o, h.rng
	raw := sig[len(v.pre):]
	r, s, ok := parseGenuine(enc, raw, ci.size)
	if !ok {
		o.Violate("the harness cannot parse Go's %s signature %x (%s)", encNames[enc], raw, v.cat)
		return nil
	}
	n := ci.c.Params().N
	encode := func(r, s *big.Int) []byte {
		if enc == 0 {
			return derSig(r, s)
		}
		return p1363(r, s, ci.size)
	}
	var cs []tcase
	add := func(kind string, rawSig []byte, malleable bool) {
		if rawSig == nil {
			o.Count("skipped/" + kind)
			return
		}
		cs = append(cs, tcase{kind: kind, v: v, msg: msg, sig: cat(v.pre, rawSig), malleable: malleable})
	}
	// the harness' encoder reproduces Go's bytes
	if !bytes.Equal(encode(r, s), raw) {
		o.Violate("Go's %s signature is not the canonical encoding of its (r, s): %x (%s)", encNames[enc], raw, v.cat)
	}
	zero := new(big.Int)
	nMinusS := new(big.Int).Sub(n, s)
	add("ecdsa/n-minus-s", encode(r, nMinusS), true)
	add("ecdsa/r=0", encode(zero, s), false)
	add("ecdsa/s=0", encode(r, zero), false)
	add("ecdsa/r=n", encode(n, s), false)
	add("ecdsa/s=n", encode(r, n), false)
	add("ecdsa/r+n", encode(new(big.Int).Add(r, n), s), false)
	add("ecdsa/s+n", encode(r, new(big.Int).Add(s, n)), false)
	add("ecdsa/swapped", encode(s, r), false)
	add("ecdsa/r+1", encode(new(big.Int).Add(r, big.NewInt(1)), s), false)
	add("ecdsa/n-minus-r", encode(new(big.Int).Sub(n, r), s), false)
	ri, si := derInt(r), derInt(s)
	body := cat(ri, si)
	if enc == 0 {
		add("der/seq-long-form-length", cat([]byte{0x30}, nonMinimalLen(len(body)), body), false)
		rl := cat([]byte{2}, nonMinimalLen(len(derIntContent(r))), derIntContent(r))
		add("der/int-long-form-length", tlv(0x30, cat(rl, si)), false)
		add("der/r-extra-leading-00", tlv(0x30, cat(tlv(2, cat([]byte{0}, derIntContent(r))), si)), false)
		add("der/s-extra-leading-00", tlv(0x30, cat(ri, tlv(2, cat([]byte{0}, derIntContent(s))))), false)
		// a needed 00 removed: the INTEGER becomes negative
		switch {
		case derIntContent(r)[0] == 0 && len(derIntContent(r)) > 1:
			add("der/needed-00-stripped-negative", tlv(0x30, cat(tlv(2, derIntContent(r)[1:]), si)), false)
		case derIntContent(s)[0] == 0 && len(derIntContent(s)) > 1:
			add("der/needed-00-stripped-negative", tlv(0x30, cat(ri, tlv(2, derIntContent(s)[1:]))), false)
		default:
			o.Count("skipped/der/needed-00-stripped-negative")
		}
		add("der/trailing-after-sequence", cat(raw, []byte{byte(rng.Pick(0, 0, rng.Intn(256)))}), false)
		add("der/trailing-inside-sequence", tlv(0x30, cat(body, []byte{byte(rng.Pick(0, 0, rng.Intn(256)))})), false)
		add("der/trailing-inside-sequence-tlv", tlv(0x30, cat(body, []byte{5, 0})), false)
		add("der/indefinite-length", cat([]byte{0x30, 0x80}, body, []byte{0, 0}), false)
		add("der/set-instead-of-sequence", tlv(0x31, body), false)
		add("der/zero-length-integer", tlv(0x30, cat([]byte{2, 0}, si)), false)
		add("der/sequence-length-too-long", cat([]byte{0x30}, derLen(len(body)+1), body), false)
		add("der/sequence-length-too-short", cat([]byte{0x30}, derLen(len(body)-1), body), false)
		add("der/one-integer-only", tlv(0x30, ri), false)
		add("der/three-integers", tlv(0x30, cat(body, si)), false)
		add("der/constructed-integer-tag", tlv(0x30, cat(cat([]byte{0x22}, ri[1:]), si)), false)
		add("encoding/p1363-bytes-to-der-key", p1363(r, s, ci.size), false)
	} else {
		add("p1363/one-byte-more-front", cat([]byte{0}, raw), false)
		add("p1363/one-byte-more-back", cat(raw, []byte{0}), false)
		add("p1363/one-byte-less-front", clone(raw[1:]), false)
		add("p1363/one-byte-less-back", clone(raw[:len(raw)-1]), false)
		add("p1363/r-and-s-one-byte-shorter", cat(raw[1:ci.size], raw[ci.size+1:]), false)
		add("p1363/halves-of-other-curve-size", p1363(r, s, ci.size+rng.Pick(-16, 16, 18)), false)
		add("encoding/der-bytes-to-p1363-key", derSig(r, s), false)
	}
	return cs
}

func (h *harness) ecdsaAll() {
	o, rng := h.o, h.rng
	nKeys := hlib.N(2, 10)
	nMsg := hlib.N(3, 6)
	for _, pr := range ecPairs {
		ci, hi := curves[pr[0]], hashes[pr[1]]
		for enc := 0; enc < 2; enc++ {
			for vi := 0; vi < 4; vi++ {
				for k := 0; k < nKeys; k++ {
					o.Case()
					d := ecScalar(rng, ci)
					id := keyID(rng, vi)
					priv, v := ecKey(ci, hi, enc, vi, id, d)
					signer, ver := primitives(priv)
					v.ver = ver // the verifier obtained from handle.Public()
					// the same point as another key, for the other-key cases
					_, vOther := ecKey(ci, hi, enc, vi, id, ecScalar(rng, ci))
					for m := 0; m < nMsg; m++ {
						msg := rng.Bytes(rng.MsgLen(300))
						sig := h.signAndJudge(signer, v, vi, msg, 5, func(sig []byte) []tcase {
							cs := h.ecExtras(v, ci, enc, msg, sig)
							cs = append(cs, tcase{kind: "other-key", v: vOther, msg: msg, sig: sig, sameSig: true})
							return cs
						})
						if sig == nil {
							continue
						}
						if m == 0 {
							h.ecCross(ci, hi, enc, vi, id, d, msg, sig, v)
						}
					}
				}
			}
		}
	}
	// signature/subtle (no prefix)
	for _, pr := range ecPairs {
		ci, hi := curves[pr[0]], hashes[pr[1]]
		for enc := 0; enc < 2; enc++ {
			o.Case()
			encS := []string{"DER", "IEEE_P1363"}[enc]
			d := ecScalar(rng, ci)
			s, err := subtle.NewECDSASigner(hi.name, ci.subtleName, encS, d)
			if err != nil {
				panic(err)
			}
			x, y := ci.c.ScalarBaseMult(d)
			xb, yb := x.FillBytes(make([]byte, ci.size)), y.FillBytes(make([]byte, ci.size))
			ver, err := subtle.NewECDSAVerifier(hi.name, ci.subtleName, encS, xb, yb)
			if err != nil {
				panic(err)
			}
			v := &view{cat: fmt.Sprintf("ecdsa-subtle/%s/%s/%s", ci.name, hi.name, encNames[enc]),
				line: ecLine(ci, hi, enc, 3, 0, cat([]byte{4}, xb, yb)), ver: ver, pre: []byte{}}
			for m := 0; m < hlib.N(3, 20); m++ {
				msg := rng.Bytes(rng.MsgLen(300))
				h.signAndJudge(s, v, 3, msg, 4, func(sig []byte) []tcase { return h.ecExtras(v, ci, enc, msg, sig) })
			}
		}
	}
}

// ecCross: the same key material under another variant / encoding / hash.
func (h *harness) ecCross(ci curveInfo, hi hashInfo, enc, vi int, id uint32, d, msg, sig []byte, v *view) {
	var cs []tcase
	if vi == 2 {
		// a LEGACY signature presented to the CRUNCHY key with the same id and point: same prefix
		// bytes, but no 0x00 was appended by the verifier
		_, vc := ecKey(ci, hi, enc, 1, id, d)
		cs = append(cs, tcase{kind: "legacy-signature-to-crunchy-key", v: vc, msg: msg, sig: sig, sameSig: true})
		if e := vc.ver.Verify(sig, msg); e == nil {
			h.o.Violate("the CRUNCHY verifier accepts a LEGACY signature (%s)", v.cat)
		}
		// and a CRUNCHY signature over message|00 is what LEGACY verification accepts
		pc, _ := ecKey(ci, hi, enc, 1, id, d)
		sc, _ := primitives(pc)
		if s2, err := sc.Sign(cat(msg, []byte{0})); err == nil {
			cs = append(cs, tcase{kind: "crunchy-signature-over-msg00-to-legacy-key", v: v, msg: msg, sig: s2, sameSig: true})
		}
	}
	if vi == 1 {
		_, vl := ecKey(ci, hi, enc, 2, id, d)
		cs = append(cs, tcase{kind: "crunchy-signature-to-legacy-key", v: vl, msg: msg, sig: sig, sameSig: true})
	}
	// the other encoding's key
	_, ve := ecKey(ci, hi, 1-enc, vi, id, d)
	cs = append(cs, tcase{kind: "encoding/genuine-to-other-encoding-key", v: ve, msg: msg, sig: sig, sameSig: true})
	if ci.name == "P384" {
		_, vh := ecKey(ci, hashes[3-indexOfHash(hi)], enc, vi, id, d)
		cs = append(cs, tcase{kind: "other-hash-key", v: vh, msg: msg, sig: sig, sameSig: true})
	}
	h.judge(sig, cs)
}

func indexOfHash(hi hashInfo) int {
	for i, x := range hashes {
		if x.name == hi.name {
			return i
		}
	}
	return 0
}

// DER codec of internal/signature/ecdsa against the reference's strict codec.
func (h *harness) derCodec() {
	o, rng := h.o, h.rng
	o.Case()
	goDer := func(b []byte) string {
		sg, err := iecdsa.ASN1Decode(b)
		if err != nil {
			return "err"
		}
		if sg.R.Sign() < 0 || sg.S.Sign() < 0 {
			// ASN1Decode returns negative values for canonical negative INTEGERs; an ECDSA-Sig-Value has
			// none, and the verification path (crypto/ecdsa.VerifyASN1) refuses them: see the
			// der/needed-00-stripped-negative cases. Counted, and reported as undecodable.
			o.Count("der-codec/negative-integer-returned-by-ASN1Decode")
			return "err"
		}
		return fmt.Sprintf("ok %s %s", sg.R.String(), sg.S.String())
	}
	randInt := func() *big.Int {
		switch rng.Intn(8) {
		case 0:
			return big.NewInt(int64(rng.Pick(0, 1, 127, 128, 255, 256, 32767, 32768)))
		case 1:
			return new(big.Int).Lsh(big.NewInt(1), uint(8*rng.Pick(1, 16, 31, 32, 47, 48, 65, 66)-rng.Intn(2)))
		case 2:
			b := rng.Bytes(rng.Pick(32, 48, 66))
			b[0] |= 0x80
			return new(big.Int).SetBytes(b)
		case 3:
			b := rng.Bytes(rng.Pick(32, 48, 66))
			b[0] = 0
			b[1] &= 0x7f
			return new(big.Int).SetBytes(b)
		}
		return new(big.Int).SetBytes(rng.Bytes(1 + rng.Intn(70)))
	}
	for i := 0; i < hlib.N(150, 3000); i++ {
		r, s := randInt(), randInt()
		enc, err := iecdsa.ASN1Encode(&iecdsa.Signature{R: r, S: s})
		res := "err"
		if err == nil {
			res = hlib.Tok(enc)
		}
		o.Count("der-codec/encode")
		o.Emit(fmt.Sprintf("!G derenc %s %s", r.String(), s.String()), res, true)
		good := derSig(r, s)
		o.Count("der-codec/decode-canonical")
		o.Emit("!G der "+hlib.Tok(good), goDer(good), true)
		ri, si := derInt(r), derInt(s)
		body := cat(ri, si)
		var bad [][]byte
		bad = append(bad,
			cat([]byte{0x30}, nonMinimalLen(len(body)), body),
			tlv(0x30, cat(tlv(2, cat([]byte{0}, derIntContent(r))), si)),
			cat(good, []byte{0}),
			tlv(0x30, cat(body, []byte{0})),
			cat([]byte{0x30, 0x80}, body, []byte{0, 0}),
			tlv(0x31, body),
			tlv(0x30, cat([]byte{2, 0}, si)),
			tlv(0x30, ri),
			good[:len(good)-1],
		)
		if c := derIntContent(s); c[0] == 0 && len(c) > 1 {
			bad = append(bad, tlv(0x30, cat(ri, tlv(2, c[1:]))))
		}
		for _, m := range rng.Mutations(good, 2) {
			bad = append(bad, m.Data)
		}
		for _, b := range bad {
			o.Count("der-codec/decode-variation")
			o.Emit("!G der "+hlib.Tok(b), goDer(b), true)
		}
	}
}

// ---------- Ed25519 ----------

var edVariants = []edkey.Variant{edkey.VariantTink, edkey.VariantCrunchy, edkey.VariantLegacy, edkey.VariantNoPrefix}

func edKey(vi int, id uint32, seed []byte) (*edkey.PrivateKey, *view) {
	ps, err := edkey.NewParameters(edVariants[vi])
	if err != nil {
		panic(err)
	}
	priv, err := edkey.NewPrivateKey(hlib.Secret(seed), id, ps)
	if err != nil {
		panic(err)
	}
	pubK, _ := priv.PublicKey()
	pub := pubK.(*edkey.PublicKey)
	pb := hlib.Tok(pub.KeyBytes())
	v := &view{cat: "ed25519/" + vcodes[vi], ver: verifierOf(pub), pre: prefixOf(vi, id),
		line: func(msg, sig []byte) string {
			return fmt.Sprintf("!G ed25519 %s %d %s %s %s", vcodes[vi], id, pb, hlib.Tok(msg), hlib.Tok(sig))
		}}
	return priv, v
}

var edL, _ = new(big.Int).SetString("7237005577332262213973186563042994240857116359379907606001950938285454250989", 10)

func leBytes(x *big.Int, n int) []byte {
	b := x.FillBytes(make([]byte, n))
	for i, j := 0, n-1; i < j; i, j = i+1, j-1 {
		b[i], b[j] = b[j], b[i]
	}
	return b
}

func (h *harness) edExtras(v *view, msg, sig []byte) []tcase {
	raw := sig[len(v.pre):]
	if len(raw) != 64 {
		h.o.Violate("Ed25519 signature has %d bytes (%s)", len(raw), v.cat)
		return nil
	}
	var cs []tcase
	add := func(kind string, r []byte) {
		cs = append(cs, tcase{kind: kind, v: v, msg: msg, sig: cat(v.pre, r)})
	}
	// S + L: same scalar modulo the group order, non-canonical (RFC 8032 5.1.7 requires S < L)
	sLE := clone(raw[32:])
	for i, j := 0, 31; i < j; i, j = i+1, j-1 {
		sLE[i], sLE[j] = sLE[j], sLE[i]
	}
	S := new(big.Int).SetBytes(sLE)
	add("ed25519/S+L", cat(raw[:32], leBytes(new(big.Int).Add(S, edL), 32)))
	add("ed25519/S=0", cat(raw[:32], make([]byte, 32)))
	add("ed25519/S=L", cat(raw[:32], leBytes(edL, 32)))
	add("ed25519/L-S", cat(raw[:32], leBytes(new(big.Int).Sub(edL, S), 32)))
	add("ed25519/R-sign-bit", cat(raw[:31], []byte{raw[31] ^ 0x80}, raw[32:]))
	add("ed25519/R-and-S-swapped", cat(raw[32:], raw[:32]))
	add("ed25519/63-bytes", clone(raw[:63]))
	add("ed25519/65-bytes", cat(raw, []byte{0}))
	return cs
}

func (h *harness) ed25519All() {
	o, rng := h.o, h.rng
	for vi := 0; vi < 4; vi++ {
		for k := 0; k < hlib.N(4, 24); k++ {
			o.Case()
			seed := rng.Bytes(32)
			id := keyID(rng, vi)
			priv, v := edKey(vi, id, seed)
			signer, ver := primitives(priv)
			v.ver = ver
			_, vOther := edKey(vi, id, rng.Bytes(32))
			for m := 0; m < hlib.N(3, 8); m++ {
				msg := rng.Bytes(rng.MsgLen(300))
				sig := h.signAndJudge(signer, v, vi, msg, 6, func(sig []byte) []tcase {
					cs := h.edExtras(v, msg, sig)
					return append(cs, tcase{kind: "other-key", v: vOther, msg: msg, sig: sig, sameSig: true})
				})
				if sig == nil || m != 0 {
					continue
				}
				var cs []tcase
				if vi == 2 {
					_, vc := edKey(1, id, seed)
					cs = append(cs, tcase{kind: "legacy-signature-to-crunchy-key", v: vc, msg: msg, sig: sig, sameSig: true})
					if vc.ver.Verify(sig, msg) == nil {
						o.Violate("the CRUNCHY verifier accepts a LEGACY signature (%s)", v.cat)
					}
					pc, _ := edKey(1, id, seed)
					sc, _ := primitives(pc)
					if s2, err := sc.Sign(cat(msg, []byte{0})); err == nil {
						cs = append(cs, tcase{kind: "crunchy-signature-over-msg00-to-legacy-key", v: v, msg: msg, sig: s2, sameSig: true})
					}
				}
				if vi == 1 {
					_, vl := edKey(2, id, seed)
					cs = append(cs, tcase{kind: "crunchy-signature-to-legacy-key", v: vl, msg: msg, sig: sig, sameSig: true})
				}
				h.judge(sig, cs)
			}
		}
	}
	// subtle
	for k := 0; k < hlib.N(2, 12); k++ {
		o.Case()
		seed := rng.Bytes(32)
		s, err := subtle.NewED25519Signer(seed)
		if err != nil {
			panic(err)
		}
		pub := ed25519.NewKeyFromSeed(seed).Public().(ed25519.PublicKey)
		ver, err := subtle.NewED25519Verifier(pub)
		if err != nil {
			panic(err)
		}
		pb := hlib.Tok(pub)
		v := &view{cat: "ed25519-subtle", ver: ver, pre: []byte{}, line: func(msg, sig []byte) string {
			return fmt.Sprintf("!G ed25519 R 0 %s %s %s", pb, hlib.Tok(msg), hlib.Tok(sig))
		}}
		for m := 0; m < hlib.N(3, 8); m++ {
			msg := rng.Bytes(rng.MsgLen(300))
			h.signAndJudge(s, v, 3, msg, 5, func(sig []byte) []tcase { return h.edExtras(v, msg, sig) })
		}
	}
}

// ---------- RSA ----------

var p1Variants = []rsassapkcs1.Variant{rsassapkcs1.VariantTink, rsassapkcs1.VariantCrunchy, rsassapkcs1.VariantLegacy, rsassapkcs1.VariantNoPrefix}
var psVariants = []rsassapss.Variant{rsassapss.VariantTink, rsassapss.VariantCrunchy, rsassapss.VariantLegacy, rsassapss.VariantNoPrefix}

const f4 = 65537

type rsaMat struct {
	bits int
	k    *rsa.PrivateKey
	nTok string
	// an odd modulus of the same size without known factors: the "other key" of verification-only cases
	otherN []byte
}

func newRSA(bits int) *rsaMat {
	k, err := rsa.GenerateKey(rand.Reader, bits)
	if err != nil {
		panic(err)
	}
	if k.E != f4 || k.N.BitLen() != bits {
		panic("unexpected RSA key")
	}
	other := new(big.Int).Add(k.N, big.NewInt(2))
	if other.BitLen() != bits {
		other.Sub(k.N, big.NewInt(2))
	}
	return &rsaMat{bits: bits, k: k, nTok: hlib.Tok(k.N.Bytes()), otherN: other.Bytes()}
}

func p1View(bits int, hi hashInfo, vi int, id uint32, n []byte) (*rsassapkcs1.PublicKey, *view) {
	ps, err := rsassapkcs1.NewParameters(bits, hi.p1, f4, p1Variants[vi])
	if err != nil {
		panic(err)
	}
	pub, err := rsassapkcs1.NewPublicKey(n, id, ps)
	if err != nil {
		panic(err)
	}
	nt := hlib.Tok(n)
	return pub, &view{cat: fmt.Sprintf("pkcs1/%d/%s/%s", bits, hi.name, vcodes[vi]), ver: verifierOf(pub), pre: prefixOf(vi, id),
		line: func(msg, sig []byte) string {
			return fmt.Sprintf("!G pkcs1 %s %s %d %s 010001 %s %s", hi.name, vcodes[vi], id, nt, hlib.Tok(msg), hlib.Tok(sig))
		}}
}

func psView(bits int, hi hashInfo, salt, vi int, id uint32, n []byte) (*rsassapss.PublicKey, *view) {
	ps, err := rsassapss.NewParameters(rsassapss.ParametersValues{ModulusSizeBits: bits, SigHashType: hi.ps, MGF1HashType: hi.ps,
		PublicExponent: f4, SaltLengthBytes: salt}, psVariants[vi])
	if err != nil {
		panic(err)
	}
	pub, err := rsassapss.NewPublicKey(n, id, ps)
	if err != nil {
		panic(err)
	}
	nt := hlib.Tok(n)
	return pub, &view{cat: fmt.Sprintf("pss/%d/%s/salt%d/%s", bits, hi.name, salt, vcodes[vi]), ver: verifierOf(pub), pre: prefixOf(vi, id),
		line: func(msg, sig []byte) string {
			return fmt.Sprintf("!G pss %s %d %s %d %s 010001 %s %s", hi.name, salt, vcodes[vi], id, nt, hlib.Tok(msg), hlib.Tok(sig))
		}}
}

func (m *rsaMat) p1Signer(pub *rsassapkcs1.PublicKey) (tink.Signer, tink.Verifier) {
	priv, err := rsassapkcs1.NewPrivateKey(pub, rsassapkcs1.PrivateKeyValues{P: hlib.Secret(m.k.Primes[0].Bytes()), Q: hlib.Secret(m.k.Primes[1].Bytes()), D: hlib.Secret(m.k.D.Bytes())})
	if err != nil {
		panic(err)
	}
	return primitives(priv)
}

func (m *rsaMat) psSigner(pub *rsassapss.PublicKey) (tink.Signer, tink.Verifier) {
	priv, err := rsassapss.NewPrivateKey(pub, rsassapss.PrivateKeyValues{P: hlib.Secret(m.k.Primes[0].Bytes()), Q: hlib.Secret(m.k.Primes[1].Bytes()), D: hlib.Secret(m.k.D.Bytes())})
	if err != nil {
		panic(err)
	}
	return primitives(priv)
}

// rsaExtras: integer-level variations of a genuine signature.
func (h *harness) rsaExtras(v *view, m *rsaMat, msg, sig []byte) []tcase {
	raw := sig[len(v.pre):]
	k := (m.bits + 7) / 8
	if len(raw) != k {
		h.o.Violate("RSA signature has %d bytes, modulus has %d (%s)", len(raw), k, v.cat)
	}
	var cs []tcase
	add := func(kind string, r []byte) {
		cs = append(cs, tcase{kind: kind, v: v, msg: msg, sig: cat(v.pre, r)})
	}
	add("rsa/leading-00-added", cat([]byte{0}, raw))
	add("rsa/trailing-00-added", cat(raw, []byte{0}))
	add("rsa/first-byte-dropped", clone(raw[1:]))
	if raw[0] == 0 {
		h.o.Count("rsa/genuine-signature-with-leading-00")
		add("rsa/leading-00-stripped-same-integer", clone(raw[1:]))
	}
	sPlusN := new(big.Int).Add(new(big.Int).SetBytes(raw), m.k.N)
	if b := sPlusN.Bytes(); len(b) <= k {
		add("rsa/s+n-same-length", sPlusN.FillBytes(make([]byte, k)))
	} else {
		add("rsa/s+n-one-byte-longer", b)
	}
	add("rsa/s=n", m.k.N.Bytes())
	add("rsa/s=0", make([]byte, k))
	add("rsa/s=1", new(big.Int).SetInt64(1).FillBytes(make([]byte, k)))
	add("rsa/n-minus-s", new(big.Int).Sub(m.k.N, new(big.Int).SetBytes(raw)).FillBytes(make([]byte, k)))
	return cs
}

// pssConfig: one RSA-SSA-PSS key configuration; crossSalts are the salt lengths of the keys the
// genuine signature is also presented to.
func (h *harness) pssConfig(m *rsaMat, hi hashInfo, salt, vi int, crossSalts []int) {
	o, rng := h.o, h.rng
	n := m.k.N.Bytes()
	o.Case()
	id := keyID(rng, vi)
	pub, v := psView(m.bits, hi, salt, vi, id, n)
	signer, ver := m.psSigner(pub)
	v.ver = ver
	_, vOther := psView(m.bits, hi, salt, vi, id, m.otherN)
	for i := 0; i < h.nMsg(2, 8); i++ {
		msg := rng.Bytes(rng.MsgLen(300))
		sig := h.signAndJudge(signer, v, vi, msg, 4, func(sig []byte) []tcase {
			cs := h.rsaExtras(v, m, msg, sig)
			cs = append(cs, tcase{kind: "other-key", v: vOther, msg: msg, sig: sig, sameSig: true})
			// keys that differ in the salt length only
			start := rng.Intn(len(crossSalts))
			for dj := 0; dj < 2; dj++ {
				s2 := crossSalts[(start+dj)%len(crossSalts)]
				if s2 == salt {
					continue
				}
				_, vs := psView(m.bits, hi, s2, vi, id, n)
				cs = append(cs, tcase{kind: fmt.Sprintf("pss/salt%d-signature-to-salt%d-key", salt, s2), v: vs, msg: msg, sig: sig, sameSig: true})
			}
			return cs
		})
		if sig == nil || i != 0 {
			continue
		}
		var cs []tcase
		if vi == 2 {
			_, vc := psView(m.bits, hi, salt, 1, id, n)
			cs = append(cs, tcase{kind: "legacy-signature-to-crunchy-key", v: vc, msg: msg, sig: sig, sameSig: true})
			if vc.ver.Verify(sig, msg) == nil {
				o.Violate("the CRUNCHY verifier accepts a LEGACY signature (%s)", v.cat)
			}
		}
		_, vh := psView(m.bits, hashes[(indexOfHash(hi)+1)%3], salt, vi, id, n)
		cs = append(cs, tcase{kind: "other-hash-key", v: vh, msg: msg, sig: sig, sameSig: true})
		_, v1 := p1View(m.bits, hi, vi, id, n)
		cs = append(cs, tcase{kind: "pss-signature-to-pkcs1-key", v: v1, msg: msg, sig: sig, sameSig: true})
		h.judge(sig, cs)
	}
}

// pssSaltZero: keys whose salt length is 0, and signatures of other salt lengths presented to them.
// Kept as the last section of the run.
func (h *harness) pssSaltZero(mats []*rsaMat) {
	salts := []int{0, 20, 32, 48, 64}
	for _, m := range mats {
		for _, hi := range hashes {
			for vi := 0; vi < 4; vi++ {
				h.pssConfig(m, hi, 0, vi, salts[1:])
			}
			// signatures made under the other salt lengths, presented to the salt-0 key
			for _, salt := range salts[1:] {
				h.pssConfig(m, hi, salt, h.rng.Intn(4), []int{0})
			}
		}
	}
	m := mats[0]
	for _, hi := range hashes {
		h.pssInternal(m, hi, 0)
	}
}

func (h *harness) pssInternal(m *rsaMat, hi hashInfo, salt int) {
	s, err := isig.New_RSA_SSA_PSS_Signer(hi.name, salt, m.k)
	if err != nil {
		panic(err)
	}
	ver, err := isig.New_RSA_SSA_PSS_Verifier(hi.name, salt, &m.k.PublicKey)
	if err != nil {
		panic(err)
	}
	v := &view{cat: fmt.Sprintf("pss-internal/%s/salt%d", hi.name, salt), ver: ver, pre: []byte{}, line: func(msg, sig []byte) string {
		return fmt.Sprintf("!G pss %s %d R 0 %s 010001 %s %s", hi.name, salt, m.nTok, hlib.Tok(msg), hlib.Tok(sig))
	}}
	h.o.Case()
	msg := h.rng.Bytes(h.rng.MsgLen(300))
	h.signAndJudge(s, v, 3, msg, 3, func(sig []byte) []tcase { return h.rsaExtras(v, m, msg, sig) })
}

func (h *harness) rsaAll(mats []*rsaMat) {
	salts := []int{0, 20, 32, 48, 64}
	for _, m := range mats {
		h.rsaOne(m, salts[1:])
	}
	h.rsaInternal(mats[0])
}

// rsaOne: every PKCS1 configuration (hash × variant) and every PSS configuration (hash × salt × variant) of one modulus.
func (h *harness) rsaOne(m *rsaMat, salts []int) {
	o, rng := h.o, h.rng
	{
		n := m.k.N.Bytes()
		// PKCS1
		for hx, hi := range hashes {
			for vi := 0; vi < 4; vi++ {
				o.Case()
				id := keyID(rng, vi)
				pub, v := p1View(m.bits, hi, vi, id, n)
				signer, ver := m.p1Signer(pub)
				v.ver = ver
				_, vOther := p1View(m.bits, hi, vi, id, m.otherN)
				_, vHash := p1View(m.bits, hashes[(hx+1)%3], vi, id, n)
				for i := 0; i < h.nMsg(2, 10); i++ {
					msg := rng.Bytes(rng.MsgLen(300))
					sig := h.signAndJudge(signer, v, vi, msg, 5, func(sig []byte) []tcase {
						cs := h.rsaExtras(v, m, msg, sig)
						cs = append(cs, tcase{kind: "other-key", v: vOther, msg: msg, sig: sig, sameSig: true})
						cs = append(cs, tcase{kind: "other-hash-key", v: vHash, msg: msg, sig: sig, sameSig: true})
						return cs
					})
					if sig == nil || i != 0 {
						continue
					}
					var cs []tcase
					if vi == 2 {
						_, vc := p1View(m.bits, hi, 1, id, n)
						cs = append(cs, tcase{kind: "legacy-signature-to-crunchy-key", v: vc, msg: msg, sig: sig, sameSig: true})
						if vc.ver.Verify(sig, msg) == nil {
							o.Violate("the CRUNCHY verifier accepts a LEGACY signature (%s)", v.cat)
						}
						pc, _ := p1View(m.bits, hi, 1, id, n)
						sc, _ := m.p1Signer(pc)
						if s2, err := sc.Sign(cat(msg, []byte{0})); err == nil {
							cs = append(cs, tcase{kind: "crunchy-signature-over-msg00-to-legacy-key", v: v, msg: msg, sig: s2, sameSig: true})
						}
					}
					if vi == 1 {
						_, vl := p1View(m.bits, hi, 2, id, n)
						cs = append(cs, tcase{kind: "crunchy-signature-to-legacy-key", v: vl, msg: msg, sig: sig, sameSig: true})
					}
					// the PSS key with the same modulus
					_, vp := psView(m.bits, hi, 32, vi, id, n)
					cs = append(cs, tcase{kind: "pkcs1-signature-to-pss-key", v: vp, msg: msg, sig: sig, sameSig: true})
					h.judge(sig, cs)
				}
			}
		}
		// PSS (the keys with salt length 0 come last, see pssSaltZero)
		for _, hi := range hashes {
			for _, salt := range salts {
				for vi := 0; vi < 4; vi++ {
					h.pssConfig(m, hi, salt, vi, salts)
				}
			}
		}
	}
}

// rsaInternal: internal/signature raw signers (no prefix), and the hunt for a signature whose first byte is 00
func (h *harness) rsaInternal(m *rsaMat) {
	o, rng := h.o, h.rng
	o.Case()
	for _, hi := range hashes {
		s, err := isig.New_RSA_SSA_PKCS1_Signer(hi.name, m.k)
		if err != nil {
			panic(err)
		}
		ver, err := isig.New_RSA_SSA_PKCS1_Verifier(hi.name, &m.k.PublicKey)
		if err != nil {
			panic(err)
		}
		v := &view{cat: "pkcs1-internal/" + hi.name, ver: ver, pre: []byte{}, line: func(msg, sig []byte) string {
			return fmt.Sprintf("!G pkcs1 %s R 0 %s 010001 %s %s", hi.name, m.nTok, hlib.Tok(msg), hlib.Tok(sig))
		}}
		for i := 0; i < hlib.N(2, 10); i++ {
			msg := rng.Bytes(rng.MsgLen(300))
			h.signAndJudge(s, v, 3, msg, 4, func(sig []byte) []tcase { return h.rsaExtras(v, m, msg, sig) })
		}
		if hi.name != "SHA256" {
			continue
		}
		// a genuine signature that starts with 00: its stripped form is the same integer, one byte short
		found := 0
		for i := 0; i < hlib.N(1500, 6000) && found < hlib.N(2, 8); i++ {
			msg := rng.Bytes(8 + rng.Intn(24))
			sig, err := s.Sign(msg)
			if err != nil || sig[0] != 0 {
				continue
			}
			found++
			o.Count("rsa/genuine-signature-with-leading-00")
			o.Emit(v.line(msg, sig), hlib.B01(ver.Verify(sig, msg) == nil), true)
			h.judge(sig, []tcase{{kind: "rsa/leading-00-stripped-same-integer", v: v, msg: msg, sig: clone(sig[1:])}})
		}
	}
	for _, hi := range hashes {
		for _, salt := range []int{20, 32, 64} {
			h.pssInternal(m, hi, salt)
		}
	}
}

// ---------- replay: re-evaluate op lines of an earlier run against the current tree ----------

func evalLine(l string) (res string) {
	defer func() {
		if r := recover(); r != nil {
			res = "harness-cannot-evaluate: " + fmt.Sprint(r)
		}
	}()
	t := strings.Fields(strings.TrimPrefix(l, "!"))
	if len(t) < 2 || t[0] != "G" {
		return "bad-op"
	}
	vidx := func(c string) int {
		for i, x := range vcodes {
			if x == c {
				return i
			}
		}
		panic("variant " + c)
	}
	hidx := func(n string) hashInfo {
		for _, x := range hashes {
			if x.name == n {
				return x
			}
		}
		panic("hash " + n)
	}
	u32 := func(x string) uint32 {
		v, err := strconv.ParseUint(x, 10, 32)
		if err != nil {
			panic(err)
		}
		return uint32(v)
	}
	verdict := func(pub key.Key, err error, msg, sig string) string {
		if err != nil {
			panic(err)
		}
		return hlib.B01(verifierOf(pub).Verify(hlib.FromTok(sig), hlib.FromTok(msg)) == nil)
	}
	switch t[1] {
	case "ecdsa":
		var ci curveInfo
		for _, c := range curves {
			if c.name == t[2] {
				ci = c
			}
		}
		enc := 0
		if t[4] == "P1363" {
			enc = 1
		}
		ps, err := ecdsa.NewParameters(ci.ct, hidx(t[3]).eh, encTypes[enc], ecVariants[vidx(t[5])])
		if err != nil {
			panic(err)
		}
		pt := cat([]byte{4}, new(big.Int).SetBytes(hlib.FromTok(t[7])).FillBytes(make([]byte, ci.size)), new(big.Int).SetBytes(hlib.FromTok(t[8])).FillBytes(make([]byte, ci.size)))
		pub, err := ecdsa.NewPublicKey(pt, u32(t[6]), ps)
		return verdict(pub, err, t[9], t[10])
	case "ed25519":
		ps, err := edkey.NewParameters(edVariants[vidx(t[2])])
		if err != nil {
			panic(err)
		}
		pub, err := edkey.NewPublicKey(hlib.FromTok(t[4]), u32(t[3]), ps)
		return verdict(pub, err, t[5], t[6])
	case "pkcs1":
		n := hlib.FromTok(t[5])
		ps, err := rsassapkcs1.NewParameters(new(big.Int).SetBytes(n).BitLen(), hidx(t[2]).p1, int(new(big.Int).SetBytes(hlib.FromTok(t[6])).Int64()), p1Variants[vidx(t[3])])
		if err != nil {
			panic(err)
		}
		pub, err := rsassapkcs1.NewPublicKey(n, u32(t[4]), ps)
		return verdict(pub, err, t[7], t[8])
	case "pss":
		n := hlib.FromTok(t[6])
		salt, _ := strconv.Atoi(t[3])
		hi := hidx(t[2])
		ps, err := rsassapss.NewParameters(rsassapss.ParametersValues{ModulusSizeBits: new(big.Int).SetBytes(n).BitLen(), SigHashType: hi.ps, MGF1HashType: hi.ps,
			PublicExponent: int(new(big.Int).SetBytes(hlib.FromTok(t[7])).Int64()), SaltLengthBytes: salt}, psVariants[vidx(t[4])])
		if err != nil {
			panic(err)
		}
		pub, err := rsassapss.NewPublicKey(n, u32(t[5]), ps)
		return verdict(pub, err, t[8], t[9])
	case "der":
		sg, err := iecdsa.ASN1Decode(hlib.FromTok(t[2]))
		if err != nil || sg.R.Sign() < 0 || sg.S.Sign() < 0 {
			return "err"
		}
		return fmt.Sprintf("ok %s %s", sg.R.String(), sg.S.String())
	case "derenc":
		r, ok1 := new(big.Int).SetString(t[2], 10)
		s, ok2 := new(big.Int).SetString(t[3], 10)
		if !ok1 || !ok2 {
			return "bad-op"
		}
		enc, err := iecdsa.ASN1Encode(&iecdsa.Signature{R: r, S: s})
		if err != nil {
			return "err"
		}
		return hlib.Tok(enc)
	}
	return "bad-op"
}

func replay(o *hlib.Out, path string) {
	f, err := os.Open(path)
	if err != nil {
		panic(err)
	}
	defer f.Close()
	sc := bufio.NewScanner(f)
	sc.Buffer(make([]byte, 1<<20), 1<<28)
	for sc.Scan() {
		l := strings.TrimSpace(sc.Text())
		if l == "" {
			continue
		}
		if strings.HasPrefix(l, "#") {
			if strings.HasPrefix(l, "# case") {
				o.Case()
			}
			continue
		}
		o.Emit(l, evalLine(l), true)
		o.Count("replay")
	}
}

func main() {
	o := hlib.Open("C03")
	defer o.Close()
	gOut = o
	seed := *hlib.FlagSeed
	rand.Reader = &detRand{main: hlib.NewRng(seed, "c03-rand"), single: hlib.NewRng(seed, "c03-rand-1")}
	if *hlib.FlagReplay != "" {
		replay(o, *hlib.FlagReplay)
		return
	}
	h := &harness{o: o, rng: hlib.NewRng(seed, "c03")}
	mats := []*rsaMat{newRSA(2048), newRSA(3072)}
	h.derCodec()
	h.ecdsaAll()
	{ // shortrs.go: genuine signatures with a short s (keys derived from the signature); own stream, the other sections keep their inputs
		h2 := &harness{o: o, rng: hlib.NewRng(seed, "c03-shortrs")}
		h2.ecShortRS()
	}
	h.ed25519All()
	h.rsaAll(mats)
	odd := h.rsaSizes() // rsasizes.go: moduli whose bit length is not a multiple of 8
	all := append(append([]*rsaMat{}, mats...), odd...)
	h.pssSaltGrid(all) // saltgrid.go: salt lengths 1, hLen−1, hLen, hLen+1, max−1, max of every modulus × hash
	h.pssSaltZero(mats)
	h.rsaSizesSaltZero(odd)
	h.pssGridSaltZero(all)
}
