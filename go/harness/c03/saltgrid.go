//go:build verif

// RSA-SSA-PSS salt-length grid: for every modulus (2048, 3072 and the moduli of rsasizes.go whose bit length is not a
// multiple of 8) × hash the salt lengths {1, hLen−1, hLen, hLen+1, max−1, max} with max = emLen − hLen − 2 and
// emLen = ⌈(bits−1)/8⌉ (RFC 8017 §9.1.1; emLen is one byte shorter than the modulus when bits ≡ 1 mod 8, and differs from
// ⌊bits/8⌋ whenever bits is not a multiple of 8).
//
//	(a) every such key must be constructible through every path (rsassapss.NewParameters / NewPublicKey / NewPrivateKey,
//	    signature.NewSigner on a handle, rsassapss.NewSigner, internal/signature New_RSA_SSA_PSS_Signer / _Verifier),
//	    must sign, and what it signs must verify under the Tink verifiers, under crypto/rsa.VerifyPSS with the explicit
//	    salt length and under the reference (the `!G pss` line). A signature made by crypto/rsa.SignPSS with the key's
//	    salt length is presented to the verifier of the public key first, so that a refusal on the signing side still
//	    leaves a concrete line.
//	(b) salt-length binding: a signature made by crypto/rsa.SignPSS for the same RSA key, hash and message with any
//	    OTHER salt length of the grid, and a Tink-made signature of the key that differs in the salt length only, must be
//	    rejected (the reference models sLen strictly: PS must be exactly emLen − hLen − sLen − 2 zero bytes).
//	(c) the salt length max+1 has no signature at all: the verifier of such a public key rejects every grid signature.
//
// The salt length 0 (crypto/rsa's "auto"; known finding) is kept out of here: pssGridSaltZero runs with the last sections.
package main

import (
	"bytes"
	"crypto/rsa"
	"fmt"
	"io"

	"github.com/tink-crypto/tink-go/v2/internal/internalapi"
	isig "github.com/tink-crypto/tink-go/v2/internal/signature"
	"github.com/tink-crypto/tink-go/v2/internal/verifharness/hlib"
	"github.com/tink-crypto/tink-go/v2/signature"
	"github.com/tink-crypto/tink-go/v2/signature/rsassapss"
	"github.com/tink-crypto/tink-go/v2/tink"
)

// rngReader: the randomness crypto/rsa.SignPSS gets from the harness (the salt), a function of the seed alone.
type rngReader struct{ r *hlib.Rng }

func (r rngReader) Read(p []byte) (int, error) { copy(p, r.r.Bytes(len(p))); return len(p), nil }

var _ io.Reader = rngReader{}

func pssEmLen(bits int) int { return (bits - 1 + 7) / 8 }

// pssMaxSalt: the largest salt length an RSA-SSA-PSS signature for this modulus size and hash can carry.
func pssMaxSalt(bits int, hi hashInfo) int { return pssEmLen(bits) - hi.dl - 2 }

var saltRoles = []string{"1", "h-1", "h", "h+1", "max-1", "max"}

// saltGrid: the grid without 0, in the order of saltRoles.
func saltGrid(bits int, hi hashInfo) []int {
	mx := pssMaxSalt(bits, hi)
	g := []int{1, hi.dl - 1, hi.dl, hi.dl + 1, mx - 1, mx}
	for i := 1; i < len(g); i++ {
		if g[i] <= g[i-1] {
			panic(fmt.Sprintf("salt grid of %d bits / %s is not increasing: %v", bits, hi.name, g))
		}
	}
	return g
}

func pssLineOf(hi hashInfo, salt, vi int, id uint32, nTok string) func(msg, sig []byte) string {
	return func(msg, sig []byte) string {
		return fmt.Sprintf("!G pss %s %d %s %d %s 010001 %s %s", hi.name, salt, vcodes[vi], id, nTok, hlib.Tok(msg), hlib.Tok(sig))
	}
}

func (m *rsaMat) stdSignPSS(rd io.Reader, hi hashInfo, salt int, signed []byte) []byte {
	raw, err := rsa.SignPSS(rd, m.k, stdHash[hi.name], digestOf(hi, signed), &rsa.PSSOptions{SaltLength: salt, Hash: stdHash[hi.name]})
	if err != nil {
		panic(fmt.Sprintf("crypto/rsa.SignPSS refuses %d bits / %s / salt %d: %v", m.bits, hi.name, salt, err))
	}
	return raw
}

func (m *rsaMat) stdVerifyPSS(hi hashInfo, salt int, signed, raw []byte) error {
	return rsa.VerifyPSS(&m.k.PublicKey, stdHash[hi.name], digestOf(hi, signed), raw, &rsa.PSSOptions{SaltLength: salt, Hash: stdHash[hi.name]})
}

func (m *rsaMat) psPrivateValues() rsassapss.PrivateKeyValues {
	return rsassapss.PrivateKeyValues{P: hlib.Secret(m.k.Primes[0].Bytes()), Q: hlib.Secret(m.k.Primes[1].Bytes()), D: hlib.Secret(m.k.D.Bytes())}
}

// gridKey: the public side of one (modulus, hash, salt, variant, id) configuration.
type gridKey struct {
	salt int
	role string
	pub  *rsassapss.PublicKey
	v    *view         // nil when the public key / its verifiers could not be built
	iver tink.Verifier // internal/signature verifier (raw signature over the variant-adjusted message)
	line func(msg, sig []byte) string
}

type gridSigner struct {
	name string
	s    tink.Signer
	raw  bool // signs the variant-adjusted message and returns the bare signature
}

// pssGridGroup: all salt lengths of the grid for one modulus, hash and variant; one id and one message for the whole
// group, so that signatures and keys differ in the salt length only.
func (h *harness) pssGridGroup(m *rsaMat, hi hashInfo, vi int) {
	o, rng := h.o, h.rng
	n := m.k.N.Bytes()
	id := keyID(rng, vi)
	pre := prefixOf(vi, id)
	msg := rng.Bytes(rng.MsgLen(300))
	signed := signedMsg(vi, msg)
	grid := saltGrid(m.bits, hi)
	mx := grid[len(grid)-1]
	rd := rngReader{rng}
	what := func(salt int) string {
		return fmt.Sprintf("bits=%d hash=%s salt=%d (largest legal salt %d = emLen %d - hLen %d - 2) variant=%s", m.bits, hi.name, salt, mx, pssEmLen(m.bits), hi.dl, vcodes[vi])
	}
	o.Case()
	// public side of every grid salt, and the signatures crypto/rsa makes with that salt
	keys := make([]*gridKey, len(grid))
	std := make([][]byte, len(grid))
	for i, salt := range grid {
		g := &gridKey{salt: salt, role: saltRoles[i], line: pssLineOf(hi, salt, vi, id, m.nTok)}
		keys[i] = g
		std[i] = cat(pre, m.stdSignPSS(rd, hi, salt, signed))
		if e := m.stdVerifyPSS(hi, salt, signed, std[i][len(pre):]); e != nil {
			panic(fmt.Sprintf("crypto/rsa does not verify its own PSS signature (%s): %v", what(salt), e))
		}
		if p := hlib.Recover(func() { g.pub, g.v = psView(m.bits, hi, salt, vi, id, n) }); p != "" {
			g.pub, g.v = nil, nil
			o.Violate("a legal RSA-SSA-PSS public key cannot be built or has no verifier (%s): %s; a valid signature for it: %s", what(salt), p, g.line(msg, std[i]))
		}
		iver, err := isig.New_RSA_SSA_PSS_Verifier(hi.name, salt, &m.k.PublicKey)
		if err != nil {
			o.Violate("internal/signature.New_RSA_SSA_PSS_Verifier refuses a legal key (%s): %v", what(salt), err)
		} else {
			g.iver = iver
		}
	}
	otherN := m.otherN
	for i, g := range keys {
		salt := g.salt
		o.Case()
		o.Count("pss-grid/key/" + g.role)
		if g.v == nil {
			// no verifier: Tink accepts nothing for this key, the reference accepts the crypto/rsa signature
			o.Emit(g.line(msg, std[i]), "0", true)
			continue
		}
		v := g.v
		// the crypto/rsa signature with the key's own salt length
		e := v.ver.Verify(std[i], msg)
		if e != nil {
			o.Violate("a PSS signature made by crypto/rsa with the key's salt length is rejected by the Tink verifier (%s): %v: %s", what(salt), e, g.line(msg, std[i]))
		}
		o.Count("pss-grid/stdlib-genuine/" + hlib.B01(e == nil))
		o.Emit(g.line(msg, std[i]), hlib.B01(e == nil), true)
		if g.iver != nil {
			if e := g.iver.Verify(std[i][len(pre):], signed); e != nil {
				o.Violate("a PSS signature made by crypto/rsa with the key's salt length is rejected by internal/signature's verifier (%s): %v", what(salt), e)
			}
		}
		// (a) every signing path
		var signers []gridSigner
		{
			priv, err := rsassapss.NewPrivateKey(g.pub, m.psPrivateValues())
			if err != nil {
				o.Violate("rsassapss.NewPrivateKey refuses a legal key (%s): %v; crypto/rsa signs with these parameters and the Tink verifier of the public key answers %s on %s", what(salt), err, hlib.B01(e == nil), g.line(msg, std[i]))
			} else {
				if p := hlib.Recover(func() {
					kh, err := hlib.HandleOf(priv)
					if err != nil {
						panic(err)
					}
					s, err := signature.NewSigner(kh)
					if err != nil {
						panic(err)
					}
					signers = append(signers, gridSigner{name: "signature.NewSigner(handle)", s: s})
				}); p != "" {
					o.Violate("signature.NewSigner on a handle with a legal RSA-SSA-PSS key fails (%s): %s", what(salt), p)
				}
				if s, err := rsassapss.NewSigner(priv, internalapi.Token{}); err != nil {
					o.Violate("rsassapss.NewSigner refuses a legal key (%s): %v", what(salt), err)
				} else {
					signers = append(signers, gridSigner{name: "rsassapss.NewSigner", s: s})
				}
			}
		}
		if s, err := isig.New_RSA_SSA_PSS_Signer(hi.name, salt, m.k); err != nil {
			o.Violate("internal/signature.New_RSA_SSA_PSS_Signer refuses a legal key (%s): %v; crypto/rsa signs with these parameters and the Tink verifier of the public key answers %s on %s", what(salt), err, hlib.B01(e == nil), g.line(msg, std[i]))
		} else {
			signers = append(signers, gridSigner{name: "internal/signature.New_RSA_SSA_PSS_Signer", s: s, raw: true})
		}
		var tinkSig []byte
		for _, gs := range signers {
			var sig []byte
			var err error
			if p := hlib.Recover(func() {
				if gs.raw {
					sig, err = gs.s.Sign(signed)
					sig = cat(pre, sig)
				} else {
					sig, err = gs.s.Sign(msg)
				}
			}); p != "" {
				err = fmt.Errorf("panic: %s", p)
			}
			if err != nil {
				o.Violate("%s: Sign fails for a legal key (%s): %v", gs.name, what(salt), err)
				continue
			}
			o.Count("pss-grid/signed/" + gs.name)
			if !bytes.HasPrefix(sig, pre) {
				o.Violate("%s: Sign's output does not start with the key's output prefix %x (%s)", gs.name, pre, what(salt))
				continue
			}
			e := v.ver.Verify(sig, msg)
			if e != nil {
				o.Violate("%s: Sign's output does not verify under the key's own verifier (%s): %v", gs.name, what(salt), e)
			}
			o.Emit(g.line(msg, sig), hlib.B01(e == nil), true)
			if e := m.stdVerifyPSS(hi, salt, signed, sig[len(pre):]); e != nil {
				o.Violate("%s: Sign's output does not verify under crypto/rsa.VerifyPSS with the explicit salt length (%s): %v: %s", gs.name, what(salt), e, g.line(msg, sig))
			}
			if g.iver != nil {
				if e := g.iver.Verify(sig[len(pre):], signed); e != nil {
					o.Violate("%s: Sign's output does not verify under internal/signature's verifier (%s): %v", gs.name, what(salt), e)
				}
			}
			if tinkSig == nil {
				tinkSig = sig
			}
		}
		// mutation stream on a genuine signature (Tink-made when there is one)
		base := tinkSig
		if base == nil {
			base = std[i]
		}
		cs := h.generic(v, vi, msg, base, hlib.N(2, 4))
		cs = append(cs, h.rsaExtras(v, m, msg, base)...)
		if p := hlib.Recover(func() {
			_, vOther := psView(m.bits, hi, salt, vi, id, otherN)
			cs = append(cs, tcase{kind: "other-key", v: vOther, msg: msg, sig: base, sameSig: true})
		}); p != "" {
			o.Violate("a legal RSA-SSA-PSS public key cannot be built (%s, other modulus): %s", what(salt), p)
		}
		h.checkMsgOracle(cs, msg)
		h.judge(base, cs)
		// (b) salt-length binding
		cs = nil
		for j, g2 := range keys {
			if j == i {
				continue
			}
			// a crypto/rsa signature with another salt length, presented to this key (judge reports an accept: the bytes
			// differ from every genuine signature)
			cs = append(cs, tcase{kind: "pss-grid/stdlib-salt-" + g2.role + "-signature-to-salt-" + g.role + "-key", v: v, msg: msg, sig: std[j]})
			if g.iver != nil {
				if e := g.iver.Verify(std[j][len(pre):], signed); e == nil {
					o.Violate("salt length binding: internal/signature's verifier with salt length %d accepts a signature made by crypto/rsa.SignPSS with salt length %d (%s)", salt, g2.salt, what(salt))
				}
			}
			// this key's Tink-made signature presented to the key with the other salt length
			if tinkSig != nil && g2.v != nil {
				cs = append(cs, tcase{kind: "pss-grid/tink-salt-" + g.role + "-signature-to-salt-" + g2.role + "-key", v: g2.v, msg: msg, sig: tinkSig, sameSig: true})
				if e := g2.v.ver.Verify(tinkSig, msg); e == nil {
					o.Violate("salt length binding: the verifier of the key with salt length %d accepts the signature of the key with salt length %d (%s): %s", g2.salt, salt, what(salt), g2.line(msg, tinkSig))
				}
			}
		}
		h.judge(base, cs)
	}
	// (c) one more than the largest salt: no signature exists
	o.Case()
	over := mx + 1
	var vOver *view
	if p := hlib.Recover(func() { _, vOver = psView(m.bits, hi, over, vi, id, n) }); p != "" {
		o.Count("pss-grid/max+1/public-key-refused")
	} else {
		var cs []tcase
		for j, g2 := range keys {
			cs = append(cs, tcase{kind: "pss-grid/stdlib-salt-" + g2.role + "-signature-to-salt-max+1-key", v: vOver, msg: msg, sig: std[j]})
		}
		h.judge(nil, cs)
		signs := false
		hlib.Recover(func() {
			pub, _ := psView(m.bits, hi, over, vi, id, n)
			priv, err := rsassapss.NewPrivateKey(pub, m.psPrivateValues())
			if err != nil {
				return
			}
			s, err := rsassapss.NewSigner(priv, internalapi.Token{})
			if err != nil {
				return
			}
			sig, err := s.Sign(msg)
			if err != nil {
				return
			}
			signs = true
			// whatever this is, the reference decides
			o.Emit(vOver.line(msg, sig), hlib.B01(vOver.ver.Verify(sig, msg) == nil), true)
		})
		o.Count("pss-grid/max+1/signs=" + hlib.B01(signs))
	}
}

// pssSaltGrid: quick — every modulus × hash with one variant; thorough — every variant.
func (h *harness) pssSaltGrid(mats []*rsaMat) {
	for idx, m := range mats {
		for hx, hi := range hashes {
			for vi := 0; vi < 4; vi++ {
				if !hlib.Thorough() && vi != (idx+hx)%4 {
					continue
				}
				if p := hlib.Recover(func() { h.pssGridGroup(m, hi, vi) }); p != "" {
					h.o.Violate("RSA-SSA-PSS salt grid, %d bits / %s / %s: %s", m.bits, hi.name, vcodes[vi], p)
				}
			}
		}
	}
}

// pssGridSaltZero: the grid's signatures and the salt-length-0 keys (known finding: 0 reaches crypto/rsa as "auto", so the
// signer emits the largest salt and the verifier accepts every salt length). Only lines, no Go-side oracle; last section.
func (h *harness) pssGridSaltZero(mats []*rsaMat) {
	o, rng := h.o, h.rng
	for idx, m := range mats {
		hi := hashes[(idx+1)%3]
		vi := (idx + 2) % 4
		if p := hlib.Recover(func() {
			n := m.k.N.Bytes()
			id := keyID(rng, vi)
			pre := prefixOf(vi, id)
			msg := rng.Bytes(rng.MsgLen(300))
			signed := signedMsg(vi, msg)
			grid := saltGrid(m.bits, hi)
			o.Case()
			pub0, v0 := psView(m.bits, hi, 0, vi, id, n)
			var cs []tcase
			// crypto/rsa signatures of every grid salt presented to the salt-0 key
			for i, salt := range grid {
				sig := cat(pre, m.stdSignPSS(rngReader{rng}, hi, salt, signed))
				cs = append(cs, tcase{kind: "pss-grid/stdlib-salt-" + saltRoles[i] + "-signature-to-salt-0-key", v: v0, msg: msg, sig: sig, malleable: true})
			}
			defer func() { h.judge(nil, cs) }()
			// what the salt-0 key signs carries the largest salt: presented to the grid keys
			signer0, _ := m.psSigner(pub0)
			sig0, err := signer0.Sign(msg)
			if err != nil {
				panic(err)
			}
			o.Emit(v0.line(msg, sig0), hlib.B01(v0.ver.Verify(sig0, msg) == nil), true)
			for i, salt := range grid {
				pubS, vs := psView(m.bits, hi, salt, vi, id, n)
				cs = append(cs, tcase{kind: "pss-grid/tink-salt-0-signature-to-salt-" + saltRoles[i] + "-key", v: vs, msg: msg, sig: sig0, sameSig: true})
				if i < len(grid)-2 && i != 0 {
					continue
				}
				// Tink-made signatures with salt 1, max−1, max presented to the salt-0 key
				hlib.Recover(func() {
					signerS, _ := m.psSigner(pubS)
					sigS, err := signerS.Sign(msg)
					if err != nil {
						panic(err)
					}
					cs = append(cs, tcase{kind: "pss-grid/tink-salt-" + saltRoles[i] + "-signature-to-salt-0-key", v: v0, msg: msg, sig: sigS, sameSig: true})
				})
			}
		}); p != "" {
			o.Count("pss-grid/salt-0-section-skipped")
			_ = p
		}
	}
}
