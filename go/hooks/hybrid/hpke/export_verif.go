//go:build verif

package hpke

import (
	internalhpke "github.com/tink-crypto/tink-go/v2/hybrid/internal/hpke"
	"github.com/tink-crypto/tink-go/v2/hybrid/internal/xwing"
	"github.com/tink-crypto/tink-go/v2/secretdata"
	"github.com/tink-crypto/tink-go/v2/tink"
)

// Verification hooks (build tag verif only; add-only). They expose functions of hybrid/internal/*
// unchanged (hybrid/internal is not importable from /repo/internal/verifharness).

// VerifNewEncrypt is hybrid/internal/hpke.NewEncrypt with the ids taken from params.
func VerifNewEncrypt(recipientPubKeyBytes []byte, params *Parameters) (tink.HybridEncrypt, error) {
	kemID, err := kemIDFromParams(params)
	if err != nil {
		return nil, err
	}
	kdfID, err := kdfIDFromParams(params)
	if err != nil {
		return nil, err
	}
	aeadID, err := aeadIDFromParams(params)
	if err != nil {
		return nil, err
	}
	return internalhpke.NewEncrypt(recipientPubKeyBytes, kemID, kdfID, aeadID)
}

// VerifNewDecrypt is hybrid/internal/hpke.NewDecrypt with the ids taken from params.
func VerifNewDecrypt(recipientPrivateKeyBytes secretdata.Bytes, params *Parameters) (tink.HybridDecrypt, error) {
	kemID, err := kemIDFromParams(params)
	if err != nil {
		return nil, err
	}
	kdfID, err := kdfIDFromParams(params)
	if err != nil {
		return nil, err
	}
	aeadID, err := aeadIDFromParams(params)
	if err != nil {
		return nil, err
	}
	return internalhpke.NewDecrypt(recipientPrivateKeyBytes, kemID, kdfID, aeadID)
}

// VerifXWingEncapsulate is hybrid/internal/xwing.Encapsulate.
func VerifXWingEncapsulate(publicKey []byte) (sharedSecret, ciphertext []byte, err error) {
	return xwing.Encapsulate(publicKey)
}

// VerifXWingDecapsulate is hybrid/internal/xwing.Decapsulate.
func VerifXWingDecapsulate(ciphertext, recipientPrivKey []byte) ([]byte, error) {
	return xwing.Decapsulate(ciphertext, recipientPrivKey)
}

// VerifXWingPublicFromSecret is hybrid/internal/xwing.PublicFromSecret.
func VerifXWingPublicFromSecret(secretKey []byte) ([]byte, error) {
	return xwing.PublicFromSecret(secretKey)
}
