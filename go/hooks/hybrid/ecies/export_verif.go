//go:build verif

package ecies

import (
	iecies "github.com/tink-crypto/tink-go/v2/hybrid/internal/ecies"
	"github.com/tink-crypto/tink-go/v2/hybrid/subtle"
	"github.com/tink-crypto/tink-go/v2/key"
)

// Verification hooks (build tag verif only; add-only).

// VerifNewDEMHelper exposes hybrid/internal/ecies.NewDEMHelper (the DEM used by NewHybridEncrypt /
// NewHybridDecrypt) so that the correspondence harness can drive hybrid/subtle directly with it;
// hybrid/internal is not importable from /repo/internal/verifharness.
func VerifNewDEMHelper(p key.Parameters) (subtle.EciesAEADHKDFDEMHelper, error) {
	return iecies.NewDEMHelper(p)
}

// VerifCoordinateSizeForCurve exposes coordinateSizeForCurve of protoserialization.go (C12 harness).
func VerifCoordinateSizeForCurve(curveType CurveType) (int, error) {
	return coordinateSizeForCurve(curveType)
}
