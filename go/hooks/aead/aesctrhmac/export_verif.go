//go:build verif

package aesctrhmac

// VerifAADSizeInBits exposes the unexported aadSizeInBits: the 8-byte block that closes the HMAC input
// ad ‖ iv ‖ ciphertext ‖ bitlen(ad) (verification hook; build tag verif only). Only len(ad) is read,
// so huge zero-filled (untouched) slices can be passed.
func VerifAADSizeInBits(ad []byte) []byte { return aadSizeInBits(ad) }
