//go:build verif

package keyset

import "github.com/tink-crypto/tink-go/v2/key"

// VerifEntry is a dump of one manager entry (verification hook; build tag verif only).
type VerifEntry struct {
	Key       key.Key
	ID        uint32
	Status    KeyStatus
	IsPrimary bool
}

// VerifManagerDump exposes the manager's entries and unavailable-id set.
func VerifManagerDump(km *Manager) ([]VerifEntry, []uint32) {
	es := make([]VerifEntry, len(km.entries))
	for i, e := range km.entries {
		es[i] = VerifEntry{Key: e.key, ID: e.fixedID, Status: e.status, IsPrimary: e.isPrimary}
	}
	ids := make([]uint32, 0, len(km.unavailableKeyIDs))
	for id := range km.unavailableKeyIDs {
		ids = append(ids, id)
	}
	return es, ids
}

// VerifHandleDump exposes a handle's entries without logging key exports.
func VerifHandleDump(h *Handle) []VerifEntry {
	es := make([]VerifEntry, len(h.entries))
	for i, e := range h.entries {
		es[i] = VerifEntry{Key: e.key, ID: e.keyID, Status: e.status, IsPrimary: e.isPrimary}
	}
	return es
}

// VerifHasSecrets exposes hasSecrets.
var VerifHasSecrets = hasSecrets
