//go:build verif

package subtle

// VerifS2V exposes the unexported s2v (verification hook; build tag verif only).
func (asc *AESSIV) VerifS2V(msg, ad []byte) []byte { return asc.s2v(msg, ad) }

// VerifCtrCrypt exposes the unexported ctrCrypt (the CTR layer of AES-SIV: IV bits 31 and 63 are cleared
// inside) on an arbitrary 16-byte siv (verification hook; build tag verif only).
func (asc *AESSIV) VerifCtrCrypt(siv, in []byte) []byte {
	out := make([]byte, len(in))
	if err := asc.ctrCrypt(siv, in, out); err != nil {
		panic(err)
	}
	return out
}
