//go:build verif

package subtle

// VerifS2V exposes the unexported s2v (verification hook; build tag verif only).
func (asc *AESSIV) VerifS2V(msg, ad []byte) []byte { return asc.s2v(msg, ad) }
