//go:build verif

package keyderivation

import (
	"io"

	"github.com/tink-crypto/tink-go/v2/keyderivation/internal/streamingprf"
)

// Verification hooks (build tag verif only; add-only).

// VerifStreamingPRF is the method set of keyderivation/internal/streamingprf.StreamingPRF.
type VerifStreamingPRF interface {
	Compute(data []byte) (io.Reader, error)
}

// VerifNewHKDFStreamingPRF exposes keyderivation/internal/streamingprf.NewHKDFStreamingPRF unchanged
// (keyderivation/internal is not importable from /repo/internal/verifharness).
func VerifNewHKDFStreamingPRF(hashName string, key, salt []byte) (VerifStreamingPRF, error) {
	return streamingprf.NewHKDFStreamingPRF(hashName, key, salt)
}
