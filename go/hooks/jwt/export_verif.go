//go:build verif

package jwt

// Verification hooks (build tag verif only; add-only).

// VerifIsVerificationErr reports whether err is the generic errJwtVerification sentinel.
func VerifIsVerificationErr(err error) bool { return err == errJwtVerification }

// VerifSplitSignedCompact exposes splitSignedCompact: the lengths of the unsigned part and of the
// (still encoded) signature part, and the decoded signature.
func VerifSplitSignedCompact(compact string) (sig []byte, unsigned string, ok bool) {
	s, u, err := splitSignedCompact(compact)
	if err != nil {
		return nil, "", false
	}
	return s, u, true
}
