//go:build verif

package jwtecdsa

// Verification hooks (build tag verif only; add-only).

// VerifCoordinateSizeFromAlgorithm exposes coordinateSizeFromAlgorithm (C12 harness).
func VerifCoordinateSizeFromAlgorithm(a Algorithm) (int, error) {
	return coordinateSizeFromAlgorithm(a)
}
