//go:build verif

package jwtrsassapkcs1

// Verification hooks (build tag verif only; add-only).

// VerifRemoveLeadingZeros exposes removeLeadingZeros (big.Int.SetBytes(b).Bytes()), which the
// private key parser applies to the proto's d / p / q / dp / dq / crt fields (C12 harness, Lean
// model TinkVerif/Model/BigIntBytes.lean `minimal`).
func VerifRemoveLeadingZeros(keyBytes []byte) []byte { return removeLeadingZeros(keyBytes) }
