//go:build verif

package mldsa

// Verification hooks (build tag verif only, add-only): the unexported scalar functions of
// algebra.go, the codecs of marshal.go and the internal sign/verify entry points with explicit
// randomness, for the C10 correspondence harness.

// VerifParams names the unexported parameter-set type.
type VerifParams = params

func (par *params) VerifTau() int        { return par.tau }
func (par *params) VerifLambda() int     { return par.lambda }
func (par *params) VerifLog2Gamma1() int { return par.log2Gamma1 }
func (par *params) VerifGamma2() uint32  { return par.gamma2 }
func (par *params) VerifK() int          { return par.k }
func (par *params) VerifL() int          { return par.l }
func (par *params) VerifEta() int        { return par.eta }
func (par *params) VerifOmega() int      { return par.omega }
func (par *params) VerifEtaBits() int    { return par.etaBits }
func (par *params) VerifW1Bits() int     { return par.w1Bits }

const (
	VerifQ      = q
	VerifD      = d
	VerifDegree = degree
)

// ---- algebra.go scalars ----

func VerifReduceOnce(a uint32) uint32 { return uint32(rZq(a).reduceOnce()) }
func VerifAdd(a, b uint32) uint32     { return uint32(rZq(a).add(rZq(b))) }
func VerifSub(a, b uint32) uint32     { return uint32(rZq(a).sub(rZq(b))) }
func VerifNeg(a uint32) uint32        { return uint32(rZq(a).neg()) }
func VerifMul(a, b uint32) uint32     { return uint32(rZq(a).mul(rZq(b))) }
func VerifPower2Round(a uint32) (uint32, uint32) {
	r1, r0 := rZq(a).power2Round()
	return uint32(r1), uint32(r0)
}
func VerifScalePower2(a uint32) uint32          { return uint32(rZq(a).scalePower2()) }
func VerifDivBy2Gamma2(a, gamma2 uint32) uint32 { return divBy2Gamma2(a, gamma2) }
func VerifDecompose(a, gamma2 uint32) (uint32, uint32) {
	r1, r0 := rZq(a).decompose(gamma2)
	return uint32(r1), uint32(r0)
}
func VerifHighBits(a, gamma2 uint32) uint32 { return uint32(rZq(a).highBits(gamma2)) }
func VerifLowBits(a, gamma2 uint32) uint32  { return uint32(rZq(a).lowBits(gamma2)) }

// VerifMakeHint is z.makeHint(gamma2, r).
func VerifMakeHint(z, gamma2, r uint32) uint32 { return uint32(rZq(z).makeHint(gamma2, rZq(r))) }
func VerifUseHint(a, gamma2, h uint32) uint32  { return uint32(rZq(a).useHint(gamma2, rZq(h))) }
func VerifCenteredAbs(a uint32) uint32         { return rZq(a).centeredAbs() }
func VerifCenteredMax(a, b uint32) uint32      { return uint32(rZq(a).centeredMax(rZq(b))) }
func VerifZeta(k int) uint32                   { return uint32(zetas[k]) }

// ---- polynomials ----

func verifPoly(c []uint32) *poly {
	p := &poly{}
	for i := 0; i < degree && i < len(c); i++ {
		p[i] = rZq(c[i])
	}
	return p
}

func verifCoeffs(p *poly) []uint32 {
	c := make([]uint32, degree)
	for i := range p {
		c[i] = uint32(p[i])
	}
	return c
}

func verifVector(v [][]uint32) vector {
	r := make(vector, len(v))
	for i := range v {
		r[i] = verifPoly(v[i])
	}
	return r
}

func verifVecCoeffs(v vector) [][]uint32 {
	r := make([][]uint32, len(v))
	for i := range v {
		r[i] = verifCoeffs(v[i])
	}
	return r
}

// VerifNTTRoundTrip returns intt(ntt(p)).
func VerifNTTRoundTrip(c []uint32) []uint32 { return verifCoeffs(verifPoly(c).ntt().intt()) }

// VerifNTTMul returns intt(ntt(a) ∘ ntt(b)), the product in Z_q[X]/(X^256+1).
func VerifNTTMul(a, b []uint32) []uint32 {
	return verifCoeffs(verifPoly(a).ntt().mul(verifPoly(b).ntt()).intt())
}

func VerifInfinityNorm(c []uint32) uint32 { return verifPoly(c).infinityNorm() }

// ---- marshal.go codecs ----

func VerifSimpleBitPack(c []uint32, bits int) []byte { return verifPoly(c).simpleBitPack(bits) }
func VerifSimpleBitUnpack(enc []byte, bits int) []uint32 {
	return verifCoeffs(simpleBitUnpackPoly(enc, bits))
}
func VerifBitPack(c []uint32, a uint32, bits int) []byte { return verifPoly(c).bitPack(rZq(a), bits) }
func VerifBitUnpack(enc []byte, a uint32, bits int) []uint32 {
	return verifCoeffs(bitUnpackPoly(enc, rZq(a), bits))
}
func VerifSimpleBitPackNTT(c []uint32, bits int) []byte {
	p := polyNTT(*verifPoly(c))
	return p.simpleBitPack(bits)
}
func VerifSimpleBitUnpackNTT(enc []byte, bits int) []uint32 {
	p := poly(*simpleBitUnpackPolyNTT(enc, bits))
	return verifCoeffs(&p)
}
func (par *params) VerifHintBitPack(h [][]uint32) []byte { return verifVector(h).hintBitPack(par) }
func (par *params) VerifHintBitUnpack(enc []byte) ([][]uint32, error) {
	v, err := par.hintBitUnpackVector(enc)
	if err != nil {
		return nil, err
	}
	return verifVecCoeffs(v), nil
}
func (par *params) VerifW1Encode(w1 [][]uint32) []byte { return par.w1Encode(verifVector(w1)) }
func (par *params) VerifSigEncode(c []byte, z, h [][]uint32) []byte {
	return par.sigEncode(c, verifVector(z), verifVector(h))
}

// VerifSigDecode is sigDecode with the vectors as coefficient slices.
func (par *params) VerifSigDecode(sigma []byte) (c []byte, z, h [][]uint32, err error) {
	ct, zv, hv, err := par.sigDecode(sigma)
	if err != nil {
		return nil, nil, nil, err
	}
	return ct, verifVecCoeffs(zv), verifVecCoeffs(hv), nil
}
func (par *params) VerifSampleInBall(rho []byte) []uint32 { return verifCoeffs(par.sampleInBall(rho)) }

// ---- internal algorithms with explicit randomness ----

func (sk *SecretKey) VerifSignInternal(mp []byte, rnd [32]byte) []byte {
	return sk.signInternal(mp, rnd)
}
func (sk *SecretKey) VerifSignInternalWithMu(mu [64]byte, rnd [32]byte) []byte {
	return sk.signInternalWithMu(mu, rnd)
}
func (pk *PublicKey) VerifVerifyInternal(mp, sigma []byte) error { return pk.verifyInternal(mp, sigma) }

// VerifExpandMask is Algorithm 34 with counter mu (κ).
func (par *params) VerifExpandMask(rho [64]byte, mu int) [][]uint32 {
	return verifVecCoeffs(par.expandMask(rho, mu))
}

// ---- sampling.go: the rejection samplers and the seed expansions built on them ----

// VerifRejectNTTPoly is Algorithm 30 on the 34-byte XOF input ρ ‖ s ‖ r.
func VerifRejectNTTPoly(rho [34]byte) []uint32 {
	p := poly(*rejectNTTPoly(rho))
	return verifCoeffs(&p)
}

// VerifRejectBoundedPoly is Algorithm 31 on the 66-byte XOF input ρ′ ‖ IntegerToBytes(r, 2).
func (par *params) VerifRejectBoundedPoly(rho [66]byte) []uint32 {
	return verifCoeffs(par.rejectBoundedPoly(rho))
}

// VerifCoeffFromHalfByte is Algorithm 15.
func (par *params) VerifCoeffFromHalfByte(b byte) (uint32, bool) {
	c, ok := par.coeffFromHalfByte(b)
	return uint32(c), ok
}

// VerifExpandA is Algorithm 32: result[r][s] are the coefficients of Â[r][s].
func (par *params) VerifExpandA(rho [32]byte) [][][]uint32 {
	m := par.expandA(rho)
	out := make([][][]uint32, len(m))
	for r := range m {
		out[r] = make([][]uint32, len(m[r]))
		for s := range m[r] {
			p := poly(*m[r][s])
			out[r][s] = verifCoeffs(&p)
		}
	}
	return out
}

// VerifExpandS is Algorithm 33.
func (par *params) VerifExpandS(rho [64]byte) (s1, s2 [][]uint32) {
	a, b := par.expandS(rho)
	return verifVecCoeffs(a), verifVecCoeffs(b)
}
