//go:build verif

package slhdsa

// Verification hooks for the message-dependent part of signInternal / verifyInternal (build tag verif only;
// add-only; used by the LARGE MESSAGES section of harness c16). Nothing here re-implements library logic: the
// library's own signInternal / verifyInternal run, with the parameter set's PRF_msg / H_msg observed or replaced.

// VerifMsgDigest is what signInternal / verifyInternal computed from the message.
type VerifMsgDigest struct {
	R       []byte     // sign: the output of PRF_msg; verify: the R handed to H_msg
	Digest  []byte     // the output of H_msg
	HMsgLen int        // length of the message H_msg was handed
	PrfLen  int        // sign: length of the message PRF_msg was handed
	Calls   int        // number of H_msg calls (must be 1)
	Split   VerifSplit // tree / leaf index and FORS indices the code derived from Digest
}

// observe returns a copy of p whose PRF_msg and H_msg are the real ones, recorded into res, and whose tweakable
// hashes are the recording stubs of verifSpy (the FORS addresses do not depend on hash values).
func (p *params) verifObserve(res *VerifMsgDigest, stopAtForsPk bool) (*params, *[]address, *int) {
	q, leaves, count := p.verifSpy(nil, stopAtForsPk)
	q.pHMsg = func(r, pkSeed, pkRoot, msg []byte, m uint32) []byte {
		d := p.pHMsg(r, pkSeed, pkRoot, msg, m)
		res.R = append([]byte(nil), r...)
		res.Digest = append([]byte(nil), d...)
		res.HMsgLen = len(msg)
		res.Calls++
		return d
	}
	q.pPrfMsg = func(skPrf, optRand, M []byte, n uint32) []byte {
		res.PrfLen = len(M)
		return p.pPrfMsg(skPrf, optRand, M, n)
	}
	return q, leaves, count
}

// VerifMsgDigestSign runs signInternal(msg, addrnd) up to the recomputed FORS public key and reports R, the digest
// and the indices derived from it.
func (sk *SecretKey) VerifMsgDigestSign(msg, addrnd []byte) (res VerifMsgDigest) {
	q, leaves, _ := sk.p.verifObserve(&res, true)
	sk2 := &SecretKey{sk.skSeed, sk.skPrf, sk.pkSeed, sk.pkRoot, q}
	defer func() {
		if r := recover(); r != nil {
			if _, ok := r.(verifSplitDone); !ok {
				panic(r)
			}
			res.Split = q.verifSplitResult(*leaves)
		}
	}()
	sk2.signInternal(msg, addrnd)
	return res
}

// VerifMsgDigestVerify runs verifyInternal(msg, sig) (only the length and the first n bytes of sig matter) and
// reports the digest and the indices derived from it.
func (pk *PublicKey) VerifMsgDigestVerify(msg, sig []byte) (res VerifMsgDigest) {
	q, leaves, count := pk.p.verifObserve(&res, false)
	pk2 := &PublicKey{pk.pkSeed, pk.pkRoot, q}
	_ = pk2.verifyInternal(msg, sig)
	if uint32(*count) == q.k {
		res.Split = q.verifSplitResult(*leaves)
	}
	return res
}

// VerifHMsgFunc is the signature of the parameter sets' H_msg.
type VerifHMsgFunc = func(r, pkSeed, pkRoot, msg []byte, m uint32) []byte

// VerifHMsg exposes the parameter set's H_msg.
func (p *params) VerifHMsg(r, pkSeed, pkRoot, msg []byte) []byte {
	return p.hHMsg(r, pkSeed, pkRoot, msg)
}

// VerifSignInternalHMsg runs signInternal with H_msg replaced by hmsg (everything else is the library's own):
// the harness crafts signatures that are genuine only under a WRONG message digest with it.
func (sk *SecretKey) VerifSignInternalHMsg(msg, addrnd []byte, hmsg VerifHMsgFunc) []byte {
	q := *sk.p
	q.pHMsg = hmsg
	return (&SecretKey{sk.skSeed, sk.skPrf, sk.pkSeed, sk.pkRoot, &q}).signInternal(msg, addrnd)
}

// VerifVerifyInternalHMsg runs verifyInternal with H_msg replaced by hmsg.
func (pk *PublicKey) VerifVerifyInternalHMsg(msg, sig []byte, hmsg VerifHMsgFunc) error {
	q := *pk.p
	q.pHMsg = hmsg
	return (&PublicKey{pk.pkSeed, pk.pkRoot, &q}).verifyInternal(msg, sig)
}
