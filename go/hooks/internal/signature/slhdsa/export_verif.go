//go:build verif

package slhdsa

import "encoding/binary"

// Verification hooks (build tag verif only; add-only). They expose unexported functions of this
// package unchanged; nothing here re-implements library logic.

// Params names the unexported parameter-set type so that harnesses can hold the exported
// SLH_DSA_* values in tables.
type Params = params

// VerifToInt exposes toInt (Algorithm 2).
func VerifToInt(x []byte, n uint32) uint64 { return toInt(x, n) }

// VerifToByte exposes toByte (Algorithm 3).
func VerifToByte(x uint32, n uint32) []byte { return toByte(x, n) }

// VerifBase2b exposes base2b (Algorithm 4).
func VerifBase2b(x []byte, b uint32, outLen uint32) []uint32 { return base2b(x, b, outLen) }

// VerifDims returns the numeric parameters n, h, d, hp, a, k, lgw, m, len.
func (p *params) VerifDims() [9]uint32 {
	return [9]uint32{p.n, p.h, p.d, p.hp, p.a, p.k, p.lgw, p.m, p.len}
}

// VerifKeygenInternal exposes slhKeygenInternal (Algorithm 18).
func (p *params) VerifKeygenInternal(skSeed, skPrf, pkSeed []byte) (*SecretKey, *PublicKey) {
	return p.slhKeygenInternal(skSeed, skPrf, pkSeed)
}

// VerifSignInternal exposes signInternal (Algorithm 19) on an already formatted message.
func (sk *SecretKey) VerifSignInternal(msg, addrnd []byte) []byte {
	return sk.signInternal(msg, addrnd)
}

// VerifVerifyInternal exposes verifyInternal (Algorithm 20) on an already formatted message.
func (pk *PublicKey) VerifVerifyInternal(msg, sig []byte) error { return pk.verifyInternal(msg, sig) }

// VerifSplit is what the digest split inside verifyInternal / signInternal produced, observed
// through the ADRS the FORS code was handed.
type VerifSplit struct {
	IdxTree  uint64   // ADRS tree address (low 8 bytes)
	TreeHi   uint32   // ADRS tree address, top 4 bytes (must be 0)
	IdxLeaf  uint32   // ADRS key pair address
	Indices  []uint32 // FORS leaf index inside tree i, i.e. base_2^a(md)[i]
	Complete bool     // k leaf hashes were observed, with tree numbers 0..k-1 in order
}

type verifSplitDone struct{}

// spy returns a copy of p whose message hash yields the given digest and whose tweakable hashes
// record the ADRS of every FORS leaf computation (type FORS_TREE, height 0) made by fors_pkFromSig.
// The real signInternal / verifyInternal code then runs on it, so that the index extraction
// (digest slicing, toInt, masks, base_2^b) is the library's own.
func (p *params) verifSpy(digest []byte, stopAtForsPk bool) (*params, *[]address, *int) {
	q := *p
	var leaves []address
	var count int
	zero := func() []byte { return make([]byte, q.n) }
	q.pHMsg = func(r, pkSeed, pkRoot, msg []byte, m uint32) []byte { return append([]byte(nil), digest...) }
	q.pPrfMsg = func(skPrf, optRand, M []byte, n uint32) []byte { return zero() }
	q.pPrf = func(pkSeed, skSeed []byte, adrs *address, n uint32) []byte { return zero() }
	q.pF = func(pkSeed []byte, adrs *address, M1 []byte, n uint32) []byte {
		if addressType(binary.BigEndian.Uint32(adrs[16:20])) == addressFORSTree && binary.BigEndian.Uint32(adrs[24:28]) == 0 {
			count++
			if uint32(len(leaves)) == q.k { // keep the last k only
				copy(leaves, leaves[1:])
				leaves = leaves[:q.k-1]
			}
			leaves = append(leaves, *adrs)
		}
		return zero()
	}
	q.pH = func(pkSeed []byte, adrs *address, M2 []byte, n uint32) []byte { return zero() }
	q.pTl = func(pkSeed []byte, adrs *address, Ml []byte, n uint32) []byte {
		if stopAtForsPk && addressType(binary.BigEndian.Uint32(adrs[16:20])) == addressFORSRoots {
			panic(verifSplitDone{})
		}
		return zero()
	}
	return &q, &leaves, &count
}

func (p *params) verifSplitResult(leaves []address) VerifSplit {
	var r VerifSplit
	if uint32(len(leaves)) < p.k {
		return r
	}
	// fors_pkFromSig is the last FORS computation in both algorithms: its k leaf hashes are the
	// last k recorded.
	last := leaves[uint32(len(leaves))-p.k:]
	r.TreeHi = binary.BigEndian.Uint32(last[0][4:8])
	r.IdxTree = binary.BigEndian.Uint64(last[0][8:16])
	r.IdxLeaf = binary.BigEndian.Uint32(last[0][20:24])
	r.Complete = true
	for i, a := range last {
		ti := binary.BigEndian.Uint32(a[28:32])
		if ti>>p.a != uint32(i) || binary.BigEndian.Uint64(a[8:16]) != r.IdxTree || binary.BigEndian.Uint32(a[20:24]) != r.IdxLeaf ||
			binary.BigEndian.Uint32(a[0:4]) != 0 {
			r.Complete = false
		}
		r.Indices = append(r.Indices, ti&((1<<p.a)-1))
	}
	return r
}

// VerifSplitVerify runs verifyInternal with the message digest forced to digest.
func (p *params) VerifSplitVerify(digest []byte) VerifSplit {
	q, leaves, count := p.verifSpy(digest, false)
	pk := &PublicKey{make([]byte, p.n), make([]byte, p.n), q}
	sig := make([]byte, (1+p.k*(1+p.a)+p.h+p.d*p.len)*p.n)
	_ = pk.verifyInternal([]byte{0, 0}, sig)
	// verification makes no other FORS leaf hash than the k of fors_pkFromSig
	if uint32(*count) != p.k {
		return VerifSplit{}
	}
	return p.verifSplitResult(*leaves)
}

// VerifSplitSign runs signInternal with the message digest forced to digest; the run is cut after
// the FORS public key has been recomputed (the hypertree part does not depend on the split code).
func (p *params) VerifSplitSign(digest []byte) (res VerifSplit) {
	q, leaves, _ := p.verifSpy(digest, true)
	sk := &SecretKey{make([]byte, p.n), make([]byte, p.n), make([]byte, p.n), make([]byte, p.n), q}
	defer func() {
		if r := recover(); r != nil {
			if _, ok := r.(verifSplitDone); !ok {
				panic(r)
			}
			res = p.verifSplitResult(*leaves)
		}
	}()
	sk.signInternal([]byte{0, 0}, make([]byte, p.n))
	return VerifSplit{}
}
