//go:build verif

package syncmap

// Verification hook (build tag verif only; add-only).

// VerifKeys returns the keys currently stored in the map (order unspecified).
func (m *Map[K, V]) VerifKeys() []K {
	var ks []K
	m.sm.Range(func(k, _ any) bool {
		ks = append(ks, k.(K))
		return true
	})
	return ks
}
