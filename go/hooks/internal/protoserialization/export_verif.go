//go:build verif

package protoserialization

import "sort"

// Verification hooks (build tag verif only; add-only).

// VerifRegistry lists what is registered: type URLs with a key parser, Go key types with a key
// serializer, type URLs with a parameters parser, Go parameter types with a parameters serializer.
func VerifRegistry() (keyParserURLs, keySerializerTypes, parametersParserURLs, parametersSerializerTypes []string) {
	keyParserURLs = append(keyParserURLs, keyParsers.VerifKeys()...)
	for _, t := range keySerializers.VerifKeys() {
		keySerializerTypes = append(keySerializerTypes, t.String())
	}
	parametersParserURLs = append(parametersParserURLs, parameterParsers.VerifKeys()...)
	for _, t := range parameterSerializers.VerifKeys() {
		parametersSerializerTypes = append(parametersSerializerTypes, t.String())
	}
	sort.Strings(keyParserURLs)
	sort.Strings(keySerializerTypes)
	sort.Strings(parametersParserURLs)
	sort.Strings(parametersSerializerTypes)
	return
}
