//go:build verif

package ecdsa

import (
	"github.com/tink-crypto/tink-go/v2/insecuresecretdataaccess"
)

// Verification hooks (build tag verif only; add-only): the unexported big-integer / point helpers
// of protoserialization.go, for the C12 correspondence harness (Lean model
// TinkVerif/Model/BigIntBytes.lean).

// VerifValidateEncodingAndGetCoordinates exposes validateEncodingAndGetCoordinates.
func VerifValidateEncodingAndGetCoordinates(publicPoint []byte, curveType CurveType) ([]byte, []byte, error) {
	return validateEncodingAndGetCoordinates(publicPoint, curveType)
}

// VerifEncodePoint exposes encodePoint.
func VerifEncodePoint(x, y []byte, coordinateSize int) []byte {
	return encodePoint(x, y, coordinateSize)
}

// VerifPrivateKeyValue exposes privateKeyValue (the bytes of the returned secretdata.Bytes).
func VerifPrivateKeyValue(curveType CurveType, keyBytes []byte) ([]byte, error) {
	v, err := privateKeyValue(curveType, keyBytes)
	if err != nil {
		return nil, err
	}
	return v.Data(insecuresecretdataaccess.Token{}), nil
}

// VerifCoordinateSizeForCurve exposes coordinateSizeForCurve.
func VerifCoordinateSizeForCurve(curveType CurveType) (int, error) {
	return coordinateSizeForCurve(curveType)
}
