#!/bin/bash
# helper: pipe a manual run's ops through the Lean driver and diff
n=$1; d=/verif/.build/run/man-$n
time /verif/lean/.lake/build/bin/tvdrv < $d/ops.txt > $d/lean.out
paste -d'\n' /dev/null >/dev/null
python3 - <<PY
ops=open('$d/ops.txt').read().split('\n'); go=open('$d/go.out').read().split('\n'); le=open('$d/lean.out').read().split('\n')
n=0
for i in range(max(len(go),len(le))):
    a=go[i] if i<len(go) else '<missing>'; b=le[i] if i<len(le) else '<missing>'
    if a!=b:
        n+=1
        if n<=8: print('DIFF line',i,'\n op  :',ops[i][:600],'\n impl:',a[:300],'\n model:',b[:300])
print('lines',len(go),'diffs',n)
PY
