#!/bin/bash
# helper: mutation-test a harness against a patched copy of /repo.  usage: mt.sh c14 'sed-expr' file
n=$1; expr=$2; file=$3
rm -rf /tmp/repo_mut && mkdir -p /tmp/repo_mut && (cd /repo && tar --exclude=.git -cf - .) | (cd /tmp/repo_mut && tar xf -)
sed -i "$expr" /tmp/repo_mut/$file
diff <(cd /repo && cat $file) /tmp/repo_mut/$file | head -10
sed 's#"/repo/#"/tmp/repo_mut/#' /verif/.build/overlay.json > /tmp/mut_overlay.json
cd /tmp/repo_mut
export GOFLAGS=-mod=mod GOPROXY=off GOTOOLCHAIN=auto GONOSUMDB='*' GONOSUMCHECK=1
go build -tags verif -overlay /tmp/mut_overlay.json -o /tmp/h_mut ./internal/verifharness/$n || exit 1
mkdir -p /tmp/mutrun
/tmp/h_mut -seed 1 -tier quick -ops /tmp/mutrun/ops.txt -res /tmp/mutrun/go.out -stats /tmp/mutrun/stats.json 2>&1 | tail -5
/verif/lean/.lake/build/bin/tvdrv < /tmp/mutrun/ops.txt > /tmp/mutrun/lean.out
python3 - <<PY
import json
go=open('/tmp/mutrun/go.out').read().split('\n'); le=open('/tmp/mutrun/lean.out').read().split('\n'); ops=open('/tmp/mutrun/ops.txt').read().split('\n')
n=0
for i in range(max(len(go),len(le))):
    a=go[i] if i<len(go) else '<missing>'; b=le[i] if i<len(le) else '<missing>'
    if a!=b:
        n+=1
        if n<=2: print('DIFF',ops[i][:200],'| impl',a[:100],'| model',b[:100])
print('diffs',n)
d=json.load(open('/tmp/mutrun/stats.json'))
vs=d['oracle_violations'] or []
print('oracle violations',len(vs))
for v in vs[:3]: print('  ',v[:300])
PY
